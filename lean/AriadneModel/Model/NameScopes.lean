/-
  Two more NAME SCOPES of the generated package (property C18), on top of Model/Names.lean:

  A. the scope of a client METHOD: its parameters (`self`, one per GraphQL variable, `**kwargs`) and
     the four helper locals `query`, `variables`, `response`, `data`, which `get_variable_names`
     renames when a parameter already has that name.  Modelled Python, quoted:

       arguments.py  ArgumentsGenerator.generate
           required_args = [generate_arg("self")]; optional_args = []; dict_ = generate_dict()
           for variable_definition in variable_definitions:
               org_name = variable_definition.variable.name.value
               name = process_name(org_name, convert_to_snake_case=self.convert_to_snake_case, ...)
               ...  (nullable annotation -> optional_args, else required_args)
               dict_.keys.append(generate_constant(org_name))
               dict_.values.append(self._get_dict_value(name, used_custom_scalar))       # Name(name)
           arguments = generate_arguments(args=required_args + optional_args, ..., kwarg=generate_arg("kwargs", ...))

       client.py  ClientGenerator.get_variable_names(arguments)
           mapped_variable_names = ["query", "variables", "response", "data"]
           argument_names = set(arg.arg for arg in arguments.args)
           for variable in mapped_variable_names:
               variable_names[variable] = f"_{variable}" if variable in argument_names else variable

       client.py  _generate_async_method / _generate_method (body, `q v r d` = the renamed locals)
           q = gql(<operation text>)
           v: Dict[str, object] = {<org_name>: <name>, ...}
           r = [await] self.execute(query=q, operation_name=..., variables=v, **kwargs)
           d = self.get_data(r)
           return <ReturnType>.model_validate(d)
       _generate_subscription_method_def
           q = gql(...);  v = {...};  async for d in self.execute_ws(query=q, ..., variables=v, **kwargs): yield <ReturnType>.model_validate(d)

     The body is given a small environment semantics (`runMethod`): Python binds the caller's values
     to the parameters, every assignment rebinds a name, every read sees the latest binding.  A
     `def` with two parameters of one name, or with a parameter that is not an identifier, is a
     SyntaxError when the client module is compiled (explicit error branch).  The body also reads two
     MODULE-level names: the function `gql` (client.py `_generate_gql_func`, `self._gql_func_name = "gql"`)
     and the result class `<ReturnType>` (package.py `add_operation`: `str_to_pascal_case(operation name)`);
     a parameter or local of that name shadows the global, and what the caller passed (an opaque value) is
     called / asked for `.model_validate` instead: TypeError / AttributeError (explicit error branches).
     A variable whose type is a custom scalar configured WITH a serialize function gets the dict value
     `<serialize_name>(<name>)` (arguments.py `_get_dict_value(name, used_custom_scalar)`: the processed
     name, like the plain case); `<serialize_name>` is a third module global the body reads (imported by
     `generate_scalar_imports`).  One serialize function per method is modelled (`serName`); what it does to
     a nullable/omitted argument is C03's business.

  B. the scope of a result CLASS whose fields come from several selection sources: own fields,
     inline fragments, unpacked fragment spreads, and fragments that become base classes.
     Modelled Python (result_types.py), quoted:

       def _resolve_selection_set(self, selection_set, root_type=""):
           fields = []; fragments = set()
           for selection in selection_set.selections:
               if isinstance(selection, FieldNode): fields.append(selection)
               elif isinstance(selection, FragmentSpreadNode):
                   fragment_def = self.fragments_definitions[selection.name.value]
                   root_type_def = self.schema.type_map[root_type]
                   fragment_root_type_def = self.schema.type_map[fragment_def.type_condition.name.value]
                   if not self._unpack_fragment(fragment_def, root_type_def): fragments.add(selection.name.value)
                   elif fragment_def.type_condition.name.value == root_type or (
                       is_abstract_type(fragment_root_type_def) and self.schema.is_sub_type(fragment_root_type_def, root_type_def)):
                       sub_fields, sub_fragments = self._resolve_selection_set(fragment_def.selection_set, root_type)
                       fields.extend(sub_fields); fragments = fragments.union(sub_fragments)
               elif isinstance(selection, InlineFragmentNode):
                   root_type_value = self._get_inline_fragment_root_type(selection.type_condition.name.value, root_type)
                   if root_type_value:
                       sub_fields, sub_fragments = self._resolve_selection_set(selection.selection_set, root_type_value)
                       fields.extend(sub_fields); fragments = fragments.union(sub_fragments)
           return fields, fragments

       def _get_inline_fragment_root_type(self, selection_value, root_type):
           type_ = self.schema.type_map.get(root_type)
           if not type_: return None
           if isinstance(type_, GraphQLObjectType) and selection_value in {i.name for i in type_.interfaces}: return selection_value
           if selection_value == root_type: return root_type
           return None

       def _unpack_fragment(self, fragment_def, root_type_def=None):
           if fragment_def.name and isinstance(self.schema.type_map.get(cond), GraphQLUnionType): return True
           if root_type_def and cond != root_type_def.name: return True
           for s in fragment_def.selection_set.selections:
               if isinstance(s, InlineFragmentNode): return True
           return False

       _parse_type_definition: one AnnAssign per resolved FieldNode, in order, NOTHING de-duplicated:
           field_name = alias if alias else name;  name = self._process_field_name(field_name)
           target = name; `alias=field_name` when target != field_name
           bases = [str_to_pascal_case(f) for f in sorted(fragments)] or [BaseModel]
           add_typename: `__typename` is put in front unless some resolved field has that SCHEMA name

     A fragment spread is a tree node that carries the fragment's definition (name, type condition,
     selections): fragment definitions are acyclic, so the document is a finite tree.

  Core Lean only (the driver links this file).
-/
import AriadneModel.Model.Names

namespace Ariadne.NameScopes
open Ariadne Ariadne.Names

/-! ## A. The scope of a client method -/

def selfName : Name := "self".toList
def kwargsName : Name := "kwargs".toList
def queryLocal : Name := "query".toList
def variablesLocal : Name := "variables".toList
def responseLocal : Name := "response".toList
def dataLocal : Name := "data".toList
def gqlName : Name := "gql".toList
/-- the serialize function of the custom scalar used in the correspondence (`ScalarData.serialize_name`) -/
def serName : Name := "serialize_dt".toList

/-- one GraphQL variable of the operation -/
structure Var where
  name : Name          -- GraphQL name, without `$`
  required : Bool      -- non-null type: the parameter has no default and is placed before the optional ones
  ser : Bool := false  -- the type is a custom scalar with a serialize function: the dict value is `serialize(<name>)`
  deriving DecidableEq, Repr

/-- the Python parameter of a variable (`process_name` with the flags of arguments.py) -/
def paramOf (sn : Bool) (v : Var) : Name := pyName sn .variable v.name

/-- parameters in DOCUMENT order (the order of the `variables` dict) -/
def docParams (sn : Bool) (vars : List Var) : List Name := vars.map (paramOf sn)

/-- the names the values of the `variables` dict READ, in document order: `_get_dict_value(name, …)` is
    given the processed name, i.e. the parameter -/
def dictReads (sn : Bool) (vars : List Var) : List Name := vars.map (paramOf sn)

/-- which dict values go through the serialize function -/
def serFlags (vars : List Var) : List Bool := vars.map (·.ser)

/-- `arguments.args` without `self`: required first, then optional, each in document order -/
def params (sn : Bool) (vars : List Var) : List Name :=
  (vars.filter (·.required)).map (paramOf sn) ++ (vars.filter (!·.required)).map (paramOf sn)

/-- `[arg.arg for arg in arguments.args]` (`**kwargs` is `arguments.kwarg`, not in `.args`) -/
def argNames (sn : Bool) (vars : List Var) : List Name := selfName :: params sn vars

/-- `f"_{variable}" if variable in argument_names else variable` -/
def rename (args : List Name) (h : Name) : Name := if args.contains h then '_' :: h else h

/-- the four method locals after `get_variable_names` -/
structure Locals where
  q : Name
  v : Name
  r : Name
  d : Name
  deriving DecidableEq, Repr

def getVariableNames (args : List Name) : Locals :=
  ⟨rename args queryLocal, rename args variablesLocal, rename args responseLocal, rename args dataLocal⟩

/-- Values that flow through a method body.  `arg i` = what the caller passed for the i-th variable
    of the operation (document order), opaque. -/
inductive Val where
  | arg (i : Nat)
  | selfV
  | kwargsV
  | text                                        -- `gql(<operation text>)`
  | dict (keys : List Name) (vals : List Val)   -- `{<org_name>: <value of the name read>, ...}`
  | resp (q v : Val)                            -- `self.execute(query=q, variables=v, ...)`
  | data (r : Val)                              -- `self.get_data(r)`  /  one message of `execute_ws`
  | parsed (d : Val)                            -- `<ReturnType>.model_validate(d)`
  | ser (v : Val)                               -- `<serialize_name>(v)`

inductive MethodErr where
  | syntaxError             -- duplicate argument / parameter that is not an identifier: the module does not compile
  | nameError (n : Name)    -- read of a name that is not bound (unreachable, see `runBody_ok`)
  | notCallable (n : Name)  -- `gql(...)` where `gql` is a parameter: the caller's value is called (TypeError)
  | noAttribute (n : Name)  -- `<ReturnType>.model_validate` where that name is a parameter / local (AttributeError)
  deriving DecidableEq, Repr

abbrev Env := List (Name × Val)

def lookupVal (env : Env) (n : Name) : Except MethodErr Val :=
  match env.lookup n with
  | some v => .ok v
  | none => .error (.nameError n)

/-- the caller's values bound to the parameters: the k-th variable's parameter gets `arg k` -/
def bindArgs : Nat → List Name → Env
  | _, [] => []
  | k, p :: ps => (p, .arg k) :: bindArgs (k + 1) ps

def readAll (env : Env) : List Name → Except MethodErr (List Val)
  | [] => .ok []
  | p :: ps =>
    match lookupVal env p, readAll env ps with
    | .ok v, .ok vs => .ok (v :: vs)
    | .error e, _ => .error e
    | _, .error e => .error e

/-- the dict values after the serialize calls (flags in document order; missing flags = plain) -/
def applySer : List Bool → List Val → List Val
  | _, [] => []
  | [], v :: vs => v :: applySer [] vs
  | f :: fs, v :: vs => (if f then .ser v else v) :: applySer fs vs

/-- what leaves the method: the two things handed to `execute` / `execute_ws`, and what is returned / yielded -/
structure Sent where
  query : Val
  variables : Val
  result : Val

/-- `<ReturnType>.model_validate(d)`: the class is a module global, unless the name is bound in the function -/
def validateWith (env : Env) (ret : Name) (d : Val) : Except MethodErr Val :=
  match env.lookup ret with
  | some _ => .error (.noAttribute ret)
  | none => .ok (.parsed d)

/-- the method body under the environment semantics (`sub` = subscription: no `response` local;
    `ret` = the name of the result class) -/
def runBody (sub : Bool) (L : Locals) (ret : Name) (wires : List Name) (flags : List Bool) (reads ps : List Name) :
    Except MethodErr Sent :=
  let env0 : Env := (selfName, .selfV) :: (bindArgs 0 ps ++ [(kwargsName, .kwargsV)])
  match env0.lookup gqlName with
  | some _ => .error (.notCallable gqlName)
  | none =>
  let env1 : Env := (L.q, .text) :: env0
  match readAll env1 reads with
  | .error e => .error e
  | .ok vals0 =>
  if flags.any id && (env1.lookup serName).isSome then .error (.notCallable serName)
  else
    let vals := applySer flags vals0
    let env2 : Env := (L.v, .dict wires vals) :: env1
    match lookupVal env2 L.q, lookupVal env2 L.v with
    | .error e, _ => .error e
    | _, .error e => .error e
    | .ok q, .ok v =>
      if sub then
        let env3 : Env := (L.d, .data (.resp q v)) :: env2
        match lookupVal env3 L.d with
        | .error e => .error e
        | .ok d =>
          match validateWith env3 ret d with
          | .error e => .error e
          | .ok p => .ok ⟨q, v, p⟩
      else
        let env3 : Env := (L.r, .resp q v) :: env2
        match lookupVal env3 L.r with
        | .error e => .error e
        | .ok r =>
          let env4 : Env := (L.d, .data r) :: env3
          match lookupVal env4 L.d with
          | .error e => .error e
          | .ok d =>
            match validateWith env4 ret d with
            | .error e => .error e
            | .ok p => .ok ⟨q, v, p⟩

/-- does the `def` compile?  every parameter an identifier that is no keyword, no name twice -/
def defCompiles (sn : Bool) (vars : List Var) : Bool :=
  (docParams sn vars).all (fun p => decide (OutOK (variableCfg sn) p)) &&
    decide ((selfName :: (docParams sn vars ++ [kwargsName])).Nodup)

/-- a generated method (result class `ret`), called with one value per variable -/
def runMethod (sn sub : Bool) (ret : Name) (vars : List Var) : Except MethodErr Sent :=
  if defCompiles sn vars then
    runBody sub (getVariableNames (argNames sn vars)) ret (vars.map (·.name)) (serFlags vars) (dictReads sn vars) (docParams sn vars)
  else .error .syntaxError

def argVals : Nat → Nat → List Val
  | _, 0 => []
  | k, n + 1 => .arg k :: argVals (k + 1) n

/-- what the property demands: the operation text and every caller's value under its GraphQL name -/
def specSent (vars : List Var) : Sent :=
  let d := Val.dict (vars.map (·.name)) (applySer (serFlags vars) (argVals 0 vars.length))
  ⟨.text, d, .parsed (.data (.resp .text d))⟩

/-! Finding triggers of the method scope (decidable, on the inputs). -/

/-- C18-F10: a variable whose parameter is `self` (`$self`; with snake-casing also `$Self`, `$_self`):
    duplicate argument, the client module does not compile. -/
def trigSelfParam (sn : Bool) (vars : List Var) : Bool := (docParams sn vars).contains selfName

/-- C18-F11: the same for `**kwargs` -/
def trigKwargsParam (sn : Bool) (vars : List Var) : Bool := (docParams sn vars).contains kwargsName

/-- C18-F12: parameters `query` AND `_query` (only possible with snake-casing off): the helper local is
    renamed to `_query`, which is the other parameter; the operation text overwrites the caller's value. -/
def trigQueryCapture (sn : Bool) (vars : List Var) : Bool :=
  (docParams sn vars).contains queryLocal && (docParams sn vars).contains ('_' :: queryLocal)

/-- C18-F13: a parameter named like a module global the body reads: `gql`, the result class, or the
    serialize function of a custom scalar the same method uses -/
def trigGlobalShadow (sn : Bool) (ret : Name) (vars : List Var) : Bool :=
  (docParams sn vars).contains gqlName || (docParams sn vars).contains ret ||
    ((serFlags vars).any id && (docParams sn vars).contains serName)

/-- the names a generated method fixes itself: its own parameters, the helper locals in both spellings, `gql` -/
def fixedMethodNames : List Name :=
  [selfName, kwargsName, gqlName, serName,
   queryLocal, '_' :: queryLocal, variablesLocal, '_' :: variablesLocal,
   responseLocal, '_' :: responseLocal, dataLocal, '_' :: dataLocal]

/-! ## B. The scope of a result class -/

inductive Sel where
  | field (alias : Option Name) (name : Name)
  | inline (cond : Name) (sels : List Sel)
  | spread (frag cond : Name) (sels : List Sel)     -- `...frag` with `fragment frag on cond { sels }`

/-- what `_resolve_selection_set` asks the schema -/
structure TypeEnv where
  objects : List (Name × List Name)      -- GraphQLObjectType ↦ `[i.name for i in type_.interfaces]`
  abstracts : List (Name × List Name)    -- interface / union ↦ the types `schema.is_sub_type(it, ·)` accepts
  unions : List Name

def TypeEnv.known (e : TypeEnv) (t : Name) : Bool := (e.objects.lookup t).isSome || (e.abstracts.lookup t).isSome
def isAbstract (e : TypeEnv) (a : Name) : Bool := (e.abstracts.lookup a).isSome
def isSubType (e : TypeEnv) (a t : Name) : Bool :=
  match e.abstracts.lookup a with
  | some ts => ts.contains t
  | none => false
def implementsIface (e : TypeEnv) (root cond : Name) : Bool :=
  match e.objects.lookup root with
  | some is => is.contains cond
  | none => false

def isInline : Sel → Bool
  | .inline _ _ => true
  | _ => false

/-- `_unpack_fragment(fragment_def, root_type_def)` -/
def unpackFragment (e : TypeEnv) (cond : Name) (sels : List Sel) (root : Name) : Bool :=
  e.unions.contains cond || cond != root || sels.any isInline

/-- `_get_inline_fragment_root_type` -/
def inlineRoot (e : TypeEnv) (cond root : Name) : Option Name :=
  if !e.known root then none
  else if implementsIface e root cond then some cond
  else if cond == root then some root
  else none

/-- does a spread whose fragment is unpacked contribute its fields? -/
def spreadTaken (e : TypeEnv) (cond root : Name) : Bool :=
  cond == root || (isAbstract e cond && isSubType e cond root)

/-- what a selection contributes to a class: a field node, or a base class (fragment used as mixin) -/
inductive Item where
  | field (alias : Option Name) (name : Name)
  | base (frag : Name)
  deriving DecidableEq, Repr

inductive ResErr where
  | keyError (t : Name)      -- `self.schema.type_map[...]` on a name the schema does not have
  deriving DecidableEq, Repr

mutual
  /-- `_resolve_selection_set`, one selection -/
  def resolveSel (e : TypeEnv) (root : Name) : Sel → Except ResErr (List Item)
    | .field a n => .ok [.field a n]
    | .inline cond sub =>
      match inlineRoot e cond root with
      | some rt => resolveSels e rt sub
      | none => .ok []
    | .spread f cond sub =>
      if !e.known root then .error (.keyError root)
      else if !e.known cond then .error (.keyError cond)
      else if !unpackFragment e cond sub root then .ok [.base f]
      else if spreadTaken e cond root then resolveSels e root sub
      else .ok []
  def resolveSels (e : TypeEnv) (root : Name) : List Sel → Except ResErr (List Item)
    | [] => .ok []
    | s :: ss =>
      match resolveSel e root s, resolveSels e root ss with
      | .ok a, .ok b => .ok (a ++ b)
      | .error x, _ => .error x
      | _, .error x => .error x
end

/-- response key of a field node: `alias if alias else name` (`_get_field_name`) -/
def keyOf (a : Option Name) (n : Name) : Name := a.getD n

def itemKeys : List Item → List Name
  | [] => []
  | .field a n :: r => keyOf a n :: itemKeys r
  | .base _ :: r => itemKeys r

def itemFieldNames : List Item → List Name
  | [] => []
  | .field _ n :: r => n :: itemFieldNames r
  | .base _ :: r => itemFieldNames r

def itemBases : List Item → List Name
  | [] => []
  | .field _ _ :: r => itemBases r
  | .base f :: r => f :: itemBases r

/-- the response keys that get an attribute, in order (`__typename` in front when asked for and no
    resolved field has that schema name) -/
def classKeys (addTypename : Bool) (items : List Item) : List Name :=
  if addTypename && !(itemFieldNames items).contains typenameField then typenameField :: itemKeys items
  else itemKeys items

structure ClassOut where
  rows : List Emitted      -- one per resolved field node, in order: python name, alias=, wire name
  bases : List Name        -- fragments used as base classes (class names; the code sorts them)
  deriving Repr

/-- `_parse_type_definition`, as far as names go -/
def classOf (sn : Bool) (e : TypeEnv) (root : Name) (addTypename : Bool) (sels : List Sel) : Except ResErr ClassOut :=
  match resolveSels e root sels with
  | .error x => .error x
  | .ok items => .ok ⟨(classKeys addTypename items).map (emit sn .resultField), (itemBases items).eraseDups.map pascal⟩

/-! The class together with what it inherits: a fragment used as base class is itself generated by
    `_parse_type_definition(type_name = its type condition, its selections)`. -/

mutual
  def effectiveSel (e : TypeEnv) (root : Name) : Sel → Except ResErr (List Name)
    | .field a n => .ok [keyOf a n]
    | .inline cond sub =>
      match inlineRoot e cond root with
      | some rt => effectiveSels e rt sub
      | none => .ok []
    | .spread _ cond sub =>
      if !e.known root then .error (.keyError root)
      else if !e.known cond then .error (.keyError cond)
      else if !unpackFragment e cond sub root then effectiveSels e cond sub     -- the base class's own fields
      else if spreadTaken e cond root then effectiveSels e root sub
      else .ok []
  def effectiveSels (e : TypeEnv) (root : Name) : List Sel → Except ResErr (List Name)
    | [] => .ok []
    | s :: ss =>
      match effectiveSel e root s, effectiveSels e root ss with
      | .ok a, .ok b => .ok (a ++ b)
      | .error x, _ => .error x
      | _, .error x => .error x
end

/-! The specification side: GraphQL's CollectFields for an object of runtime type `T` (directives
    aside): a fragment applies iff its type condition is `T` or an abstract type `T` belongs to. -/

def applies (e : TypeEnv) (cond T : Name) : Bool := cond == T || isSubType e cond T

mutual
  def collectSel (e : TypeEnv) (T : Name) : Sel → List Name
    | .field a n => [keyOf a n]
    | .inline cond sub => if applies e cond T then collectSels e T sub else []
    | .spread _ cond sub => if applies e cond T then collectSels e T sub else []
  def collectSels (e : TypeEnv) (T : Name) : List Sel → List Name
    | [] => []
    | s :: ss => collectSel e T s ++ collectSels e T ss
end

/-! `noDrop`: no selection that applies to `T` is ignored by the generator, and none that does not apply is
    taken (the region in which `_resolve_selection_set`'s type tests agree with GraphQL; outside it
    lie the dropped-selection findings of C01). -/
mutual
  def noDropSel (e : TypeEnv) (T root : Name) : Sel → Bool
    | .field _ _ => true
    | .inline cond sub =>
      match inlineRoot e cond root with
      | some rt => applies e cond T && noDropSels e T rt sub
      | none => !applies e cond T
    | .spread _ cond sub =>
      e.known root && e.known cond &&
        (if !unpackFragment e cond sub root then applies e cond T && noDropSels e T cond sub
         else if spreadTaken e cond root then applies e cond T && noDropSels e T root sub
         else !applies e cond T)
  def noDropSels (e : TypeEnv) (T root : Name) : List Sel → Bool
    | [] => true
    | s :: ss => noDropSel e T root s && noDropSels e T root ss
end

end Ariadne.NameScopes
