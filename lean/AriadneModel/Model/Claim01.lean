/-
  The Boolean form of property C01 on the whole model pipeline (`claimB`), with the pydantic environment of
  one operation module (`pydEnvOf`) and the decidable validity hypothesis (`ValidInput`).
  These are the DEFINITIONS the statements of Properties/C01.lean are about (`C01_full`,
  `C01_partial_statement`, `C01_partial_plain`, …); they live here so that the long bridge proofs under
  Proofs/C01Bridge*.lean can refer to them.  Core Lean only, executable.

  `generate` (Model/ResultTypes) → classes; `Marks.applyMarks` → the document as sent; `Exec.respOK` →
  what a conformant server may answer for it; `Pyd.validate`/`dump` → what the generated models do
  with the answer.
-/
import AriadneModel.Model.Triggers01
import AriadneModel.Model.Marks
import AriadneModel.Spec.Validate
import AriadneModel.Spec.Pyd
import AriadneModel.Spec.Exec

namespace Ariadne.C01
open Ariadne Ariadne.Gql Ariadne.ResultTypes Ariadne.Pyd Ariadne.Triggers01

/-- pydantic environment of operation number `k`: its own classes plus every generated fragment class -/
def pydEnvOf (inp : Input) (r : Run) (out : ModuleOut) : Pyd.Env :=
  -- the fragments module holds the classes of every fragment that no OPERATION unpacked (package.py)
  let unpacked := (okOuts r.ops).foldl (fun acc o => Util.setUnion acc o.st.unpacked) []
  let fragClasses := r.frags.foldl (fun acc (n, x) => match x with
    | .ok o => if unpacked.contains n then acc else acc ++ o.classes
    | .error _ => acc) []
  { classes := out.classes ++ fragClasses,
    enums := (inp.env.schema.types.filter (·.kind == .enum)).map fun t => (t.name, t.values) }

def execFuel : Nat := 1000

/-- C01 for one operation of one input and one payload, as a Boolean:
    generation succeeded and, IF `j` is an answer a conformant server can give for the sent document,
    THEN the root model accepts it and dumps it back (up to member order). -/
def claimB (inp : Input) (k : Nat) (j : J) : Bool :=
  let r := run inp
  match r.ops[k]?, inp.ops[k]? with
  | some (.ok out), some o =>
    match out.classes.head?, Validate.rootOf inp.env.schema o with
    | some root, some rt =>
      let marks := marksAfter (r.ops.take (k + 1))
      let sentFrags := inp.env.frags.map (Marks.applyFrag marks)
      let sent := Marks.applyOp marks o
      !(Exec.respOK inp.env.schema sentFrags execFuel rt sent.sel j)
      || (match Pyd.validate (pydEnvOf inp r out) execFuel (.cls root.name) j with
          | .ok v => J.eqv (Pyd.dump v) j
          | .error _ => false)
    | _, _ => false
  | some (.error _), some _ => false        -- generation refused / crashed on a valid operation
  | _, _ => true                            -- no such operation

def ValidInput (inp : Input) : Prop :=
  Validate.validDoc inp.env.schema inp.env.frags inp.ops execFuel = true

instance (inp : Input) : Decidable (ValidInput inp) := by unfold ValidInput; infer_instance

end Ariadne.C01
