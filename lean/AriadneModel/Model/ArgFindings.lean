/-
  Finding-trigger predicates of C03 / C07 (decidable, in terms of the input only; mirrored in
  harness/c03.py `triggers` and cross-checked on every generated input).

  One predicate per known finding (findings.d/C03.json, findings.d/C07.json):

    trigSelf            C03-F2  a variable's Python name is `self`
    trigKwargs          C03-F3  a variable's Python name is `kwargs`
    trigMerge           C03-F4  two variables get the same Python name (`$_x`/`$x`, `$fooBar`/`$foo_bar` with
                                snake-casing; also `$query`/`$_query` then)
    trigQueryClobber    C03-F1  `query` and `_query` are both parameters: the renamed local `_query`
                                rebinds the parameter before the dict literal is evaluated
    trigShadow          C03-F6  a parameter (or the method local `query`) shadows a module-level callable the
                                body calls before it sends (`gql`, the serialize function of a custom scalar
                                used at top level)
    trigMangled         C03-F8  a variable's Python name is subject to private-name mangling (`$__x` without
                                snake-casing): the parameter is compiled as `_Client__x`, the keyword the
                                signature shows does not bind it
    trigSerializeNullable  C03-F5 = C07-F1  a nullable top-level variable of a custom scalar with
                                `serialize`: `serialize(x)` is unconditional (None, UNSET)
    trigSerializeList   C07-F2 (= C03-F7)  a list-typed top-level variable of such a scalar:
                                one `serialize(list)` instead of one call per item

  Core Lean only.
-/
import AriadneModel.Model.ClientMethod
import AriadneModel.Spec.PyCall

namespace Ariadne.ArgFindings
open Ariadne Ariadne.Scalars Ariadne.Arguments Ariadne.ClientMethod

def pyNames (snake : Bool) (defs : List VarDef) : List String := defs.map (fun d => pyVar snake d.name)

def hasDup : List String → Bool
  | [] => false
  | x :: xs => xs.contains x || hasDup xs

def trigSelf (snake : Bool) (defs : List VarDef) : Bool := (pyNames snake defs).contains selfName
def trigKwargs (snake : Bool) (defs : List VarDef) : Bool := (pyNames snake defs).contains Tables.kwargsName
def trigMerge (snake : Bool) (defs : List VarDef) : Bool := hasDup (pyNames snake defs)
def trigQueryClobber (snake : Bool) (defs : List VarDef) : Bool :=
  (pyNames snake defs).contains "query" && (pyNames snake defs).contains "_query"

/-- the custom scalar a variable's type is built on, if it is configured with `serialize` -/
def serializedBase (env : Env) (t : Gql.TypeRef) : Option String :=
  match env.kind t.base with
  | some .scalar =>
    match lookupScalar env.scalars t.base with
    | some d => d.serializeName
    | none => none
  | _ => none

/-- the serialize functions the dict literal of the method calls -/
def serializeFns (env : Env) (defs : List VarDef) : List String := defs.filterMap (fun d => serializedBase env d.type)

/-- the name of the method local that holds the operation string (`get_variable_names`) -/
def queryLocal (snake : Bool) (defs : List VarDef) : String := rename (selfName :: pyNames snake defs) "query"

def trigShadow (env : Env) (defs : List VarDef) : Bool :=
  (pyNames env.snake defs).any (fun p => p == "gql" || (serializeFns env defs).contains p) ||
  (serializeFns env defs).contains (queryLocal env.snake defs)      -- `query = gql(…)` rebinds a serialize function called `query`

def trigMangled (snake : Bool) (defs : List VarDef) : Bool := (pyNames snake defs).any PyCall.isMangled

def isNonNull : Gql.TypeRef → Bool
  | .nonNull _ => true
  | _ => false

def isListType : Gql.TypeRef → Bool
  | .list _ => true
  | .nonNull t => isListType t
  | .named _ => false

def trigSerializeNullable (env : Env) (defs : List VarDef) : Bool :=
  defs.any (fun d => (serializedBase env d.type).isSome && !isNonNull d.type)

def trigSerializeList (env : Env) (defs : List VarDef) : Bool :=
  defs.any (fun d => (serializedBase env d.type).isSome && isListType d.type)

def anyTrigger (env : Env) (defs : List VarDef) : Bool :=
  trigSelf env.snake defs || trigKwargs env.snake defs || trigMerge env.snake defs ||
  trigQueryClobber env.snake defs || trigShadow env defs || trigMangled env.snake defs ||
  trigSerializeNullable env defs || trigSerializeList env defs

/-- C07-F3: the deprecated `import` key together with a dotted name: the emitted
    `from <import> import a.b.C` is not Python (generation dies in black with InvalidInput) -/
def trigImportKeyDotted (d : ScalarData) : Bool :=
  (truthy? d.import_).isSome && d.namesToImport.any hasDot

end Ariadne.ArgFindings
