/-
  The CONNECTION side of `execute_ws` with the client's configured state as explicit, shared,
  mutable objects (core Lean only; the C13 driver links it).

  What is by reference in Python:

      class AsyncBaseClient:
          def __init__(self, ..., ws_url="", ws_headers=None, ws_origin=None, ws_connection_init_payload=None):
              self.ws_url = ws_url
              self.ws_headers = ws_headers or {}                    -- the CALLER'S dict itself when it is non-empty,
                                                                    -- a new `{}` when it is None / empty      (construct)
              self.ws_origin = Origin(ws_origin) if ws_origin else None
              self.ws_connection_init_payload = ws_connection_init_payload   -- the caller's dict itself

          async def execute_ws(self, query, operation_name=None, variables=None, **kwargs):
              headers = self.ws_headers.copy()                      -- a NEW dict object            (mergeHeadersS)
              headers.update(kwargs.get("extra_headers", {}))       -- READS the caller's dict (or a new {})
              merged_kwargs = {"origin": self.ws_origin}            -- a new dict of this frame
              merged_kwargs.update(kwargs)                          -- `kwargs` is this frame's own ** dict
              merged_kwargs["extra_headers"] = headers
              operation_id = str(uuid4())
              async with ws_connect(self.ws_url, subprotocols=[Subprotocol(GRAPHQL_TRANSPORT_WS)],
                                    **merged_kwargs) as websocket:  -- `__aenter__` may raise     (refuseAt)
                  ...                                               -- Model/WsClient.lean `session`
                      yield data                                    -- the consumer may stop here (cut / observe)

  The dict objects live in a `Store` (address = position; allocation = append; `update` = write at
  an address).  A client object holds ADDRESSES (`ws_headers`, `ws_connection_init_payload`), a call
  names the dict passed as `extra_headers=` by address, so one dict may be the constructor's
  `ws_headers`, the `extra_headers` of several calls, or both.  `merged_kwargs` is a new dict whose
  only value that is itself a mutable object is `headers`; its other entries stay value-level
  (`Cfg.kwargs`, `originOf`: Model/WsClient.lean).

  `runH` = the header statements on the store, then the value-level run (`exec`: the plain model, or
  the OpenTelemetry one) with the dict those statements produced.  That no address which existed
  before a call is written - so every later call sees what the first one saw - is a THEOREM about
  these statements (Proofs/WsClientHeap.lean, Properties/C13.lean §9), not the shape of the
  definition: `mergeHeadersInPlaceS` below (the rewrite `merged_kwargs = {..., "extra_headers":
  self.ws_headers}; merged_kwargs["extra_headers"].update(...)`) is the same kind of function and
  does not have it.

  The consumer's side of the async generator is part of the observation (`observe`): `refuse` =
  `ws_connect(...).__aenter__` raises; `take = some n` = the consumer takes `n` items and then calls
  `aclose()` (`n = 0`: before the first `__anext__` - the body never starts).  On `aclose()` Python
  raises `GeneratorExit` at the `yield`, the `async with` block exits and the socket is released
  before `aclose()` returns (`Release.sync`).  The OpenTelemetry client's `execute_ws` is a wrapper
  generator (`async for message in generator: yield message`) that does NOT close the inner
  generator: the socket is released only when the event loop finalises the orphaned inner generator
  (`Release.deferred`).  Observed and compared, not judged: the property does not speak about
  abandoned iterators.
-/
import AriadneModel.Model.WsClient
import AriadneModel.Model.WsClientOT

namespace Ariadne.WsHeap
open Ariadne Ariadne.WsClient

/-- a dict object (`Dict[str, Any]`) -/
abbrev Obj := List (String × J)

/-- dict objects, address = position -/
abbrev Store := List Obj

/-- `store[dst].update(store[src])`; both addresses must name objects -/
def updateAt (dst src : Nat) (s : Store) : Option Store :=
  match s[dst]?, s[src]? with
  | some d, some x => some (s.set dst (dictUpdate d x))
  | _, _ => none

/-! ### The client object -/

/-- the constructor arguments the subscription path depends on -/
structure CtorArgs where
  wsUrl : String
  wsHeaders : Option Nat          -- `ws_headers=`: `None` or a reference to the caller's dict
  wsOrigin : Option String
  initPayload : Option Nat        -- `ws_connection_init_payload=`: `None` or a reference
  deriving Repr

/-- the attributes of `self` that `execute_ws` reads -/
structure ClientObj where
  url : String
  wsHeaders : Nat                 -- `self.ws_headers`: a REFERENCE
  origin : Option String          -- `self.ws_origin` (`None` when the argument was falsy)
  initPayload : Option Nat        -- `self.ws_connection_init_payload`: `None` or a reference
  deriving Repr, DecidableEq

/-- `Origin(ws_origin) if ws_origin else None` -/
def normOrigin : Option String → Option String
  | some o => if o = "" then none else some o
  | none => none

/-- the init payload argument names an object -/
def refOk (s : Store) : Option Nat → Bool
  | some p => p < s.length
  | none => true

/-- `__init__`.  `ws_headers or {}`: a non-empty dict is kept BY REFERENCE, `None` and `{}` are
    replaced by a new empty dict.  `none` = an argument names no object (not a Python state). -/
def construct (s : Store) (a : CtorArgs) : Option (Store × ClientObj) :=
  if refOk s a.initPayload then
    match a.wsHeaders with
    | none =>
      some (s ++ [[]], { url := a.wsUrl, wsHeaders := s.length, origin := normOrigin a.wsOrigin, initPayload := a.initPayload })
    | some h =>
      match s[h]? with
      | none => none
      | some [] =>
        some (s ++ [[]], { url := a.wsUrl, wsHeaders := s.length, origin := normOrigin a.wsOrigin, initPayload := a.initPayload })
      | some (_ :: _) =>
        some (s, { url := a.wsUrl, wsHeaders := h, origin := normOrigin a.wsOrigin, initPayload := a.initPayload })
  else none

/-! ### One call -/

/-- `execute_ws(query, operation_name, variables, **kwargs)` with the `extra_headers` dict by reference -/
structure HCall where
  query : String
  opName : Option String
  extraHeaders : Option Nat       -- `kwargs["extra_headers"]`: absent or a reference to the caller's dict
  kwargs : List (String × J)      -- the other keyword arguments (plain values)
  opId : String                   -- `str(uuid4())`
  deriving Repr

/-- `headers = self.ws_headers.copy(); headers.update(kwargs.get("extra_headers", {}))` on the store.
    Returns the store afterwards and the address of `headers`; `none` only for a dangling reference. -/
def mergeHeadersS (s : Store) (wsHeaders : Nat) (extra : Option Nat) : Option (Store × Nat) :=
  match s[wsHeaders]? with
  | none => none
  | some d =>
    let own := s.length
    let s1 := s ++ [d]                                                      -- headers = self.ws_headers.copy()
    match extra with
    | some a =>
      if a < s.length then (updateAt own a s1).map fun s2 => (s2, own)      -- headers.update(kwargs["extra_headers"])
      else none
    | none => (updateAt own (own + 1) (s1 ++ [[]])).map fun s2 => (s2, own) -- headers.update({})

/-- `_execute_ws` of the OpenTelemetry client: a textual copy of the two statements -/
def mergeHeadersOtS (s : Store) (wsHeaders : Nat) (extra : Option Nat) : Option (Store × Nat) :=
  match s[wsHeaders]? with
  | none => none
  | some d =>
    let own := s.length
    let s1 := s ++ [d]
    match extra with
    | some a =>
      if a < s.length then (updateAt own a s1).map fun s2 => (s2, own)
      else none
    | none => (updateAt own (own + 1) (s1 ++ [[]])).map fun s2 => (s2, own)

/-- `_execute_ws_with_telemetry`: the third copy, inside the root span -/
def mergeHeadersTelS (s : Store) (wsHeaders : Nat) (extra : Option Nat) : Option (Store × Nat) :=
  WsClientOT.withSpan "GraphQL Subscription" <|
    match s[wsHeaders]? with
    | none => none
    | some d =>
      let own := s.length
      let s1 := s ++ [d]
      match extra with
      | some a =>
        if a < s.length then (updateAt own a s1).map fun s2 => (s2, own)
        else none
      | none => (updateAt own (own + 1) (s1 ++ [[]])).map fun s2 => (s2, own)

/-- NOT the code: the condensed rewrite `merged_kwargs = {"origin": ..., **kwargs, "extra_headers":
    self.ws_headers}; merged_kwargs["extra_headers"].update(kwargs.get("extra_headers", {}))` -
    `headers` IS the configured object.  Kept to show that the frame theorems are about the
    statements (`inplace_merge_breaks_frame`, Properties/C13.lean). -/
def mergeHeadersInPlaceS (s : Store) (wsHeaders : Nat) (extra : Option Nat) : Option (Store × Nat) :=
  match extra with
  | some a => (updateAt wsHeaders a s).map fun s2 => (s2, wsHeaders)
  | none => (updateAt wsHeaders s.length (s ++ [[]])).map fun s2 => (s2, wsHeaders)

/-- which of the three copies of the code runs -/
inductive Variant where
  | plain
  | ot (tracer : Bool)
  deriving Repr, DecidableEq

def Variant.merge : Variant → Store → Nat → Option Nat → Option (Store × Nat)
  | .plain => mergeHeadersS
  | .ot false => mergeHeadersOtS
  | .ot true => mergeHeadersTelS

/-- `aclose()` of an abandoned iterator reaches the `async with` block only in the plain client -/
def Variant.deferredRelease : Variant → Bool
  | .plain => false
  | .ot _ => true

/-- the contents of the object passed as `extra_headers=` (`some none`: keyword absent) -/
def extraAt (s : Store) : Option Nat → Option (Option Obj)
  | none => some none
  | some a => (s[a]?).map some

/-- the contents of `self.ws_connection_init_payload` -/
def initAt (s : Store) : Option Nat → Option (Option J)
  | none => some none
  | some p => (s[p]?).map fun o => some (.obj o)

/-- the value-level call the caller *meant*: the contents of the referenced objects -/
def cfgAt (s : Store) (cl : ClientObj) (c : HCall) : Option Cfg :=
  match s[cl.wsHeaders]?, extraAt s c.extraHeaders, initAt s cl.initPayload with
  | some h, some e, some i =>
    some { url := cl.url, headers := h, origin := cl.origin, initPayload := i, query := c.query,
           opName := c.opName, extraHeaders := e, kwargs := c.kwargs, opId := c.opId }
  | _, _, _ => none

/-- One `execute_ws` on references: the header statements run on the store, the rest of the call
    runs (value level, `exec`) with the dict they produced as THE headers.  Returns the store and
    the client object afterwards; `none` only for a dangling reference. -/
def runH (merge : Store → Nat → Option Nat → Option (Store × Nat))
    (exec : Cfg → Option (List (String × PV)) → List Frame → Trace)
    (s : Store) (cl : ClientObj) (c : HCall) (vars : Option (List (String × PV))) (frames : List Frame) :
    Option (Store × ClientObj × Trace) :=
  match merge s cl.wsHeaders c.extraHeaders with
  | none => none
  | some (s', hdr) =>
    match s'[hdr]?, cfgAt s' cl c with
    | some headers, some cfg =>
      -- `merged_kwargs["extra_headers"] = headers`: the callee sees the merged object and nothing else
      some (s', cl, exec { cfg with headers := headers, extraHeaders := none } vars frames)
    | _, _ => none

/-! ### The consumer's side -/

/-- `ws_connect(...)` was called, `__aenter__` raised `exc`: nothing else happens -/
def refuseAt (exc : Option String) (tr : Trace) : Trace :=
  match exc, tr.events with
  | some x, .connect a :: _ => ⟨[.connect a], .internal x⟩
  | _, _ => tr

/-- the events up to and including the `n`-th `yield`; `none` when there are fewer -/
def cut : Nat → List Ev → Option (List Ev)
  | 0, _ => some []
  | _ + 1, [] => none
  | n + 1, .yield d :: rest => (cut n rest).map (Ev.yield d :: ·)
  | n + 1, e :: rest => (cut (n + 1) rest).map (e :: ·)

inductive Release where
  | notOpened      -- no socket was ever entered (duplicate keyword, `__aenter__` raised, never started)
  | sync           -- `__aexit__` ran before the consumer got control back
  | deferred       -- `__aexit__` runs when the event loop finalises the orphaned inner generator
  deriving Repr, DecidableEq

/-- what the consumer and the connection see of one subscription -/
structure Obs where
  events : List Ev
  outcome : Option Outcome        -- `none`: the consumer abandoned the iterator
  release : Release
  deriving Repr

def opened (tr : Trace) : Bool :=
  match tr.events with
  | _ :: _ :: _ => true           -- connect and at least the init were recorded
  | _ => false

def observe (v : Variant) (refuse : Option String) (take : Option Nat) (tr : Trace) : Obs :=
  let tr' := refuseAt refuse tr
  let full : Obs := ⟨tr'.events, some tr'.outcome, if opened tr' then .sync else .notOpened⟩
  match take with
  | none => full
  | some 0 => ⟨[], none, .notOpened⟩
  | some (n + 1) =>
    match cut (n + 1) tr'.events with
    | some evs => ⟨evs, none, if v.deferredRelease then .deferred else .sync⟩
    | none => full

/-! ### Sequences of subscriptions on ONE client object -/

structure Step where
  call : HCall
  vars : Option (List (String × PV))
  frames : List Frame
  refuse : Option String := none
  take : Option Nat := none
  deriving Repr

/-- Subscriptions one after the other on one client object, all drawing their dicts from one store.
    Each step runs on the store and the client object the previous steps LEFT.  `none` in the
    output = a dangling reference (the step does nothing). -/
def runSeqH (v : Variant) (exec : Cfg → Option (List (String × PV)) → List Frame → Trace) :
    Store → ClientObj → List Step → Store × ClientObj × List (Option Obs)
  | s, cl, [] => (s, cl, [])
  | s, cl, st :: rest =>
    match runH v.merge exec s cl st.call st.vars st.frames with
    | some (s', cl', tr) =>
      let out := runSeqH v exec s' cl' rest
      (out.1, out.2.1, some (observe v st.refuse st.take tr) :: out.2.2)
    | none =>
      let out := runSeqH v exec s cl rest
      (out.1, out.2.1, none :: out.2.2)

/-! ### The owner of the client between two subscriptions

  The client's attributes are plain, public, mutable: a refreshed token is
  `client.ws_connection_init_payload = {...}` (rebinding) or `payload["token"] = ...` (mutating the dict
  the client refers to); the same for `ws_headers`, `ws_origin`, `ws_url`.  A subscription must see
  the configuration that is current WHEN IT STARTS - nothing a previous subscription computed may
  survive in the client (`_send_connection_init` builds the message from `self.ws_connection_init_payload`
  on every call). -/

inductive Edit where
  | setInit (p : Option Nat)          -- `client.ws_connection_init_payload = <dict object> / None`
  | setHeaders (h : Nat)              -- `client.ws_headers = <dict object>`
  | setOrigin (o : Option String)     -- `client.ws_origin = Origin(o) / None` (a non-empty string)
  | setUrl (u : String)               -- `client.ws_url = u`
  | write (a : Nat) (o : Obj)         -- `d.clear(); d.update(o)` on the dict object at `a`
  deriving Repr

def Edit.apply (e : Edit) (s : Store) (cl : ClientObj) : Store × ClientObj :=
  match e with
  | .setInit p => (s, { cl with initPayload := p })
  | .setHeaders h => (s, { cl with wsHeaders := h })
  | .setOrigin o => (s, { cl with origin := o })
  | .setUrl u => (s, { cl with url := u })
  | .write a o => (s.set a o, cl)

/-- an in-place mutation names an object -/
def Edit.inRange (e : Edit) (s : Store) : Bool :=
  match e with
  | .write a _ => a < s.length
  | _ => true

inductive Action where
  | sub (st : Step)
  | edit (e : Edit)
  deriving Repr

/-- subscriptions and owner's edits, in program order, on ONE client object -/
def runActs (v : Variant) (exec : Cfg → Option (List (String × PV)) → List Frame → Trace) :
    Store → ClientObj → List Action → Store × ClientObj × List (Option Obs)
  | s, cl, [] => (s, cl, [])
  | s, cl, .edit e :: rest => runActs v exec (e.apply s cl).1 (e.apply s cl).2 rest
  | s, cl, .sub st :: rest =>
    match runH v.merge exec s cl st.call st.vars st.frames with
    | some (s', cl', tr) =>
      let out := runActs v exec s' cl' rest
      (out.1, out.2.1, some (observe v st.refuse st.take tr) :: out.2.2)
    | none =>
      let out := runActs v exec s cl rest
      (out.1, out.2.1, none :: out.2.2)

/-- the owner's edits alone (what the store and the client object should be afterwards) -/
def editsOnly : Store → ClientObj → List Action → Store × ClientObj
  | s, cl, [] => (s, cl)
  | s, cl, .edit e :: rest => editsOnly (e.apply s cl).1 (e.apply s cl).2 rest
  | s, cl, .sub _ :: rest => editsOnly s cl rest

/-! ### Interleaved subscriptions (schedules)

  An async generator runs only while its consumer awaits `__anext__`; two subscriptions on one client
  interleave at these points.  The only state they share is the client object and the store.
  A task is `todo` until its first `__anext__`, which runs the header statements and opens the socket
  (`opened`: the trace is decided - nothing after the header statements reads a shared object except
  the init payload, which `runH` reads from the store it is given); a later step finishes it. -/

inductive Phase where
  | todo (st : Step)
  | opened (o : Option Obs)
  | done (o : Option Obs)
  deriving Repr

structure World where
  store : Store
  client : ClientObj
  tasks : List Phase

def stepW (v : Variant) (exec : Cfg → Option (List (String × PV)) → List Frame → Trace) (w : World) (i : Nat) : World :=
  match w.tasks[i]? with
  | some (.todo st) =>
    match runH v.merge exec w.store w.client st.call st.vars st.frames with
    | some (s', cl', tr) =>
      { store := s', client := cl', tasks := w.tasks.set i (.opened (some (observe v st.refuse st.take tr))) }
    | none => { w with tasks := w.tasks.set i (.opened none) }
  | some (.opened o) => { w with tasks := w.tasks.set i (.done o) }
  | _ => w

def runSchedule (v : Variant) (exec : Cfg → Option (List (String × PV)) → List Frame → Trace) (w : World)
    (sched : List Nat) : World :=
  sched.foldl (stepW v exec) w

def startW (s : Store) (cl : ClientObj) (steps : List Step) : World :=
  { store := s, client := cl, tasks := steps.map .todo }

end Ariadne.WsHeap
