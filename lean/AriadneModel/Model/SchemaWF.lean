/-
  C16 — the explicit, decidable well-formedness predicate on `SchemaIR` under which the round trip
  is claimed, and the trigger predicates of the known findings.

  `wf S` holds of every `SchemaIR` the harness serialiser reads off a *valid* graphql-core schema
  whose default values are finite (harness/c16.py checks `wf` through the driver on every sampled
  schema and counts the exceptions):
    * type names are distinct, are GraphQL names, and are not the built-in (reserved) names;
    * every reference resolves: to a specified scalar, or to the type of that name AND class in `types`;
    * no `NonNull(NonNull(_))`; field types are output types; argument / input-field types are input types;
    * `interfaces` name interface types, union members name object types, root types resolve;
    * dict keys (field, argument, input-field, enum-value names) are distinct GraphQL names;
    * directive locations are `DirectiveLocation` members;
    * default values and enum values contain only finite floats, i.e. float texts of the shape
      `PyRepr.floatText` (what `repr` gives for a finite float; `inf`, `-inf`, `nan` are not) — the
      domain of `C16.literal_roundtrip`; graphql-core cannot print a source schema with a non-finite
      default either.

  Core Lean only (linked into the driver).
-/
import AriadneModel.Spec.PySchemaEval
import AriadneModel.Model.PyRepr

namespace Ariadne.SchemaWF
open Ariadne.Schema Ariadne.SchemaGen Ariadne.PySchemaEval

mutual
  def finitePV : PyVal → Bool
    | .float r => PyRepr.floatText r
    | .list xs => finiteList xs
    | .dict kvs => finiteKvs kvs
    | _ => true
  def finiteList : List PyVal → Bool
    | [] => true
    | x :: xs => finitePV x && finiteList xs
  def finiteKvs : List (String × PyVal) → Bool
    | [] => true
    | (_, v) :: rest => finitePV v && finiteKvs rest
end

def finiteDefault : Default → Bool
  | .undefined => true
  | .value v => finitePV v

/-- the type map as references see it: key ↦ (class, name) -/
def headsS (ts : List TypeDef) : List (String × Head) := ts.map fun t => (t.name, (t.kind, t.name))

def TypeRef.isNonNull : TypeRef → Bool
  | .nonNull _ => true
  | _ => false

def refOK (hs : List (String × Head)) : TypeRef → Bool
  | .named n k => (k == .scalar && (stdScalarPy n).isSome) || (alookup n hs == some (k, n))
  | .list t => refOK hs t
  | .nonNull t => !(TypeRef.isNonNull t) && refOK hs t

def argOK (hs : List (String × Head)) (a : ArgDef) : Bool :=
  refOK hs a.type && a.type.baseKind.isInput && finiteDefault a.default

def argsOK (hs : List (String × Head)) (as : List ArgDef) : Bool :=
  nodupB (as.map (·.name)) && (as.map (·.name)).all validName && as.all (argOK hs)

def fieldOK (hs : List (String × Head)) (f : FieldDef) : Bool :=
  refOK hs f.type && f.type.baseKind.isOutput && argsOK hs f.args

def fieldsOK (hs : List (String × Head)) (fs : List FieldDef) : Bool :=
  nodupB (fs.map (·.name)) && (fs.map (·.name)).all validName && fs.all (fieldOK hs)

def namesOK (hs : List (String × Head)) (want : Kind) (ns : List Name) : Bool :=
  ns.all fun n => alookup n hs == some (want, n)

def typeOK (hs : List (String × Head)) : TypeDef → Bool
  | .scalar _ _ _ => true
  | .object _ _ is fs => namesOK hs .interface is && fieldsOK hs fs
  | .interface _ _ is fs => namesOK hs .interface is && fieldsOK hs fs
  | .union _ _ ms => namesOK hs .object ms
  | .enum _ _ vs =>
      nodupB (vs.map (·.name)) && (vs.map (·.name)).all validEnumValueName && vs.all fun v => finitePV v.value
  | .input _ _ fs _ => argsOK hs fs

def typeNameOK (t : TypeDef) : Bool :=
  !(Tables.schemaStandardTypes.contains t.name) && !(Tables.gqlReservedTypes.contains t.name) && validName t.name

def rootOK (hs : List (String × Head)) : Option (Name × Kind) → Bool
  | none => true
  | some (n, k) => alookup n hs == some (k, n)

def directiveOK (hs : List (String × Head)) (d : DirectiveDef) : Bool :=
  validName d.name && d.locations.all (fun l => Tables.gqlDirectiveLocations.contains l) && argsOK hs d.args

def wf (S : SchemaIR) : Bool :=
  nodupB (S.types.map TypeDef.name) && S.types.all typeNameOK && S.types.all (typeOK (headsS S.types)) &&
  rootOK (headsS S.types) S.query && rootOK (headsS S.types) S.mutation && rootOK (headsS S.types) S.subscription &&
  S.directives.all (directiveOK (headsS S.types))

/-! ### finding triggers -/

def isOneOf : TypeDef → Bool
  | .input _ _ _ o => o
  | _ => false

/-- C16-F1: some input object type is a `@oneOf` input (`is_one_of=True`) -/
def trigOneOf (S : SchemaIR) : Bool := S.types.any isOneOf

/-- imported names the emitted module still needs *after* the type-map variable is bound -/
def shadowSensitive : List Name :=
  ["DirectiveLocation", "GraphQLArgument", "GraphQLDirective", "GraphQLField", "GraphQLInputField",
   "GraphQLList", "GraphQLNonNull", "GraphQLSchema",
   "GraphQLID", "GraphQLInt", "GraphQLFloat", "GraphQLString", "GraphQLBoolean", "Undefined", "cast", "List"]

/-- C16-F2: the configured type-map variable name shadows one of those imports -/
def trigShadow (tm : Name) : Bool := shadowSensitive.contains tm

end Ariadne.SchemaWF
