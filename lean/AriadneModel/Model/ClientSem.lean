/-
  What a generated client method *does*, read off its AST (Model/PyIR.lean):

    `Shape`/`bodyOf`  the body client.py emits (`_generate_method`, `_generate_async_method`,
              `_generate_subscription_method_def`), possibly after the bundled plugins rewrote it
              (leading in-body imports, operation string replaced by a constant, attribute
              projections behind `model_validate`): in-body imports, operation text or constant
              reference, operationName, variables expression, validated class, projection.
    `shapeOf` recognises it (driver side).
    `sem`     the denotation of a view inside a package: the request it sends and what it makes of a
              response (`data` as handed over by `get_data`, C12), with pydantic (`validate`) and
              attribute access (`getattr`) as parameters.  A name that is not bound when the line
              runs is a `nameError`.
    `annScopedB`, `wellScopedB`  the scoping part of "the package still loads / the call does not
              die with NameError" (CPython's import system itself is oracle-only).
  Core Lean only.
-/
import AriadneModel.Model.Json
import AriadneModel.Model.Plugins

namespace Ariadne.ClientSem
open Ariadne Ariadne.Py Ariadne.Plugins

inductive OpSrc where
  | inline (var : String) (lines : List String)   -- `var = gql('l1\n' 'l2\n' …)` … `query=var`
  | const (name : String)                         -- `query=NAME_GQL`
  deriving Repr, Inhabited

/-- the statements after the `variables` assignment -/
inductive Tail where
  | call (isAwait : Bool) (respVar dataVar : String)            -- query / mutation (async or sync client)
  | sub (dataVar : String) (bodyIsList : Bool) (orelse : Nat)   -- subscription: `async for … : yield …`
  deriving Repr, Inhabited

/-- Everything that determines the body of a generated client method (`bodyOf`): the semantic
    content (in-body imports, operation source, operationName, variables expression, validated class,
    projection) and the incidental names the generator chose. -/
structure Shape where
  imports : List ImportFrom
  op : OpSrc
  opName : String
  varsVar : String
  varsAnn : Ex
  variables : Ex
  kwargs : Ex
  tail : Tail
  retClass : String
  proj : List String
  deriving Repr, Inhabited

def Shape.queryName (s : Shape) : String :=
  match s.op with
  | .inline q _ => q
  | .const c => c

def Shape.dataVar (s : Shape) : String :=
  match s.tail with
  | .call _ _ d => d
  | .sub d _ _ => d

/-- `C.model_validate(d).f1.f2…` -/
def projExpr (c d : String) (fs : List String) : Ex :=
  fs.foldl (fun e f => .attr e f) (.call (.attr (.name c) "model_validate") [.name d] [] [])

/-- `self.<callee>(query=…, operation_name="…", variables=…, **kwargs)` exactly as
    `_generate_execute_call` / `_generate_async_generator_loop` build it -/
def execCall (callee : String) (s : Shape) : Ex :=
  .call (.attr (.name "self") callee) []
    [some "query", some "operation_name", some "variables", none]
    [.name s.queryName, .const s.opName, .name s.varsVar, s.kwargs]

def opStmts (s : Shape) : List Stmt :=
  match s.op with
  | .inline q ls => [.simple (.assign q (.call (.name "gql") [.strs ls] [] []))]
  | .const _ => []

def tailStmts (s : Shape) : List Stmt :=
  match s.tail with
  | .call aw r d =>
    [.simple (.assign r (if aw then .await (execCall "execute" s) else execCall "execute" s)),
     .simple (.assign d (.call (.attr (.name "self") "get_data") [.name r] [] [])),
     .simple (.ret (some (projExpr s.retClass d s.proj)))]
  | .sub d l o =>
    [.asyncFor (.name d) (execCall "execute_ws" s) [.expr (.yield (projExpr s.retClass d s.proj))] l o]

/-- the method body client.py emits for a shape (`_generate_method`, `_generate_async_method`,
    `_generate_subscription_method_def`), with whatever the plugins prepended / projected -/
def bodyOf (s : Shape) : List Stmt :=
  s.imports.map (fun i => Stmt.simple (.importFrom i)) ++ opStmts s ++
    [.simple (.annAssign (.name s.varsVar) s.varsAnn (some s.variables))] ++ tailStmts s

/-! #### recognising a shape (used by the driver; `bodyOf (shapeOf m) = m.body` is checked by the
    harness on every real method) -/

/-- leading `from … import …` statements of a body -/
def splitImports : List Stmt → List ImportFrom × List Stmt
  | .simple (.importFrom i) :: rest =>
    let r := splitImports rest
    (i :: r.1, r.2)
  | rest => ([], rest)

/-- `C.model_validate(d).f1.f2…` -> (C, d, [f1, f2, …]) -/
def projOf : Ex → Option (String × String × List String)
  | .attr e f => (projOf e).map (fun r => (r.1, r.2.1, r.2.2 ++ [f]))
  | .call (.attr (.name c) "model_validate") [.name d] [] [] => some (c, d, [])
  | _ => none

/-- (query name, operation name, variables name, ** value) of an execute call -/
def execArgs (callee : String) : Ex → Option (String × String × String × Ex)
  | .call (.attr (.name "self") f) [] [some "query", some "operation_name", some "variables", none]
      [.name q, .const o, .name v, kw] => if f = callee then some (q, o, v, kw) else none
  | _ => none

def tailOf : List Stmt → Option (Tail × (String × String × String × Ex) × (String × String × List String))
  | [.simple (.assign r e), .simple (.assign d (.call (.attr (.name "self") "get_data") [.name r'] [] [])),
      .simple (.ret (some rv))] =>
    if r = r' then
      match e with
      | .await c =>
        match execArgs "execute" c, projOf rv with
        | some a, some p => if p.2.1 = d then some (.call true r d, a, p) else none
        | _, _ => none
      | c =>
        match execArgs "execute" c, projOf rv with
        | some a, some p => if p.2.1 = d then some (.call false r d, a, p) else none
        | _, _ => none
    else none
  | [.asyncFor (.name d) it [.expr (.yield rv)] l o] =>
    match execArgs "execute_ws" it, projOf rv with
    | some a, some p => if p.2.1 = d then some (.sub d l o, a, p) else none
    | _, _ => none
  | _ => none

def shapeOf (m : Method) : Option Shape :=
  let (imps, rest) := splitImports m.body
  match rest with
  | .simple (.assign q (.call (.name "gql") [.strs lines] [] [])) ::
      .simple (.annAssign (.name v) ann (some dict)) :: tail =>
    match tailOf tail with
    | some (t, (q', o, v', kw), (c, _, fs)) =>
      if q' = q ∧ v' = v then
        some { imports := imps, op := .inline q lines, opName := o, varsVar := v, varsAnn := ann, variables := dict,
               kwargs := kw, tail := t, retClass := c, proj := fs }
      else none
    | none => none
  | .simple (.annAssign (.name v) ann (some dict)) :: tail =>
    match tailOf tail with
    | some (t, (q', o, v', kw), (c, _, fs)) =>
      if v' = v then
        some { imports := imps, op := .const q', opName := o, varsVar := v, varsAnn := ann, variables := dict,
               kwargs := kw, tail := t, retClass := c, proj := fs }
      else none
    | none => none
  | _ => none

/-! ### packages and name resolution -/

structure Pkg where
  client : Module
  ops : Option (String × OpsFile)          -- (module name, content) of the extracted-operations module
  deriving Repr, Inhabited

/-- (qualified module as `"." * level + module`, imported name) for every run-time binding a list of
    import statements creates; the key is the bound name (`asname or name`) -/
def importBindings (is : List ImportFrom) : List (String × (String × String)) :=
  is.flatMap (fun i =>
    match i.module with
    | some mname => i.names.map (fun n => (n.2.getD n.1, (dotted i.level mname, n.1)))
    | none => [])

def topImports (m : Module) : List ImportFrom := m.body.filterMap Top.importFrom?

/-- imports that exist for the type checker only (`if TYPE_CHECKING:` bodies) -/
def typeCheckingImports (m : Module) : List ImportFrom :=
  m.body.flatMap (fun t =>
    match t with
    | .ifStmt (.name "TYPE_CHECKING") body _ =>
      body.filterMap (fun s => match s with | .importFrom i => some i | _ => none)
    | _ => [])

/-- names bound in the module's globals after `import` ran (functions, classes, assignments, imports;
    nothing under `if TYPE_CHECKING:`) -/
def moduleNames (m : Module) : List String :=
  m.body.flatMap (fun t =>
    match t with
    | .simple (.importFrom i) => i.names.map (fun n => n.2.getD n.1)
    | .simple (.assign t _) => [t]
    | .simple (.assignList t _) => [t]
    | .funcDef f => [f.name]
    | .classDef c => [c.name]
    | _ => [])

def builtinNames : List String :=
  ["str", "int", "float", "bool", "object", "bytes", "list", "dict", "None", "True", "False", "self"]

/-- where a name used inside a method body comes from at run time: in-body imports first -/
def resolveRuntime (pkg : Pkg) (v : Shape) (n : String) : Option (String × String) :=
  match alookup n (importBindings v.imports) with
  | some r => some r
  | none => alookup n (importBindings (topImports pkg.client))

/-- the string a constant imported from the operations module holds -/
def constValue (pkg : Pkg) (v : Shape) (c : String) : Option String :=
  match resolveRuntime pkg v c, pkg.ops with
  | some (q, n), some (opsName, f) =>
    if q = "." ++ opsName then (alookup n f.assigns).map String.join else none
  | _, _ => none

structure Request where
  query : String
  opName : String
  variables : Ex
  deriving Repr, Inhabited

inductive Outcome (α : Type) where
  | ok (a : α)
  | invalid (err : String)       -- pydantic ValidationError
  | nameError (n : String)
  deriving Repr, Inhabited

def Outcome.map {α β} (f : α → β) : Outcome α → Outcome β
  | .ok a => .ok (f a)
  | .invalid e => .invalid e
  | .nameError n => .nameError n

def request (pkg : Pkg) (v : Shape) : Outcome Request :=
  match v.op with
  | .inline _ ls =>
    if (moduleNames pkg.client).contains "gql" then .ok ⟨String.join ls, v.opName, v.variables⟩
    else .nameError "gql"
  | .const c =>
    match constValue pkg v c with
    | some s => .ok ⟨s, v.opName, v.variables⟩
    | none => .nameError c

section
variable {PyV : Type}
-- pydantic: `validate (qualified module, class) data`; CPython: `getattr name obj`
variable (validate : String × String → J → Except String PyV) (getattr : String → PyV → PyV)

def respond (pkg : Pkg) (v : Shape) (data : J) : Outcome PyV :=
  match resolveRuntime pkg v v.retClass with
  | none => .nameError v.retClass
  | some cls =>
    match validate cls data with
    | .ok o => .ok (v.proj.foldl (fun o f => getattr f o) o)
    | .error e => .invalid e

/-- request sent, and value returned (per call; per received frame for a subscription) -/
def sem (pkg : Pkg) (v : Shape) : Outcome Request × (J → Outcome PyV) :=
  (request pkg v, respond validate getattr pkg v)
end

/-! ### scoping -/

mutual
  /-- `ast.Name` identifiers an expression evaluates (string constants are not evaluated) -/
  def exNames : Ex → List String
    | .name id => [id]
    | .sub v s => exNames v ++ exNames s
    | .tuple es => exNamesList es
    | .attr v _ => exNames v
    | .call f a _ vs => exNames f ++ exNamesList a ++ exNamesList vs
    | .await e => exNames e
    | .yield e => exNames e
    | .other _ l => l
    | _ => []
  def exNamesList : List Ex → List String
    | [] => []
    | e :: es => exNames e ++ exNamesList es
end

/-- names evaluated when the `def` statement of a method runs (annotations, defaults) -/
def defTimeNames (m : Method) : List String :=
  (m.args.flatMap (fun a => match a.2 with | some e => exNames e | none => [])) ++ exNames m.rest ++
  (match m.returns with | some r => exNames r | none => [])

/-- every name a method signature evaluates at import time is bound at module level -/
def annScopedB (m : Module) : Bool :=
  match m.firstClass? with
  | none => true
  | some c =>
    c.methods.all (fun md => (defTimeNames md).all (fun n => (moduleNames m).contains n || builtinNames.contains n))

/-- names a recognised method body needs at call time, with the reason -/
def runtimeUnresolved (pkg : Pkg) (md : Method) : List String :=
  match shapeOf md with
  | none => []
  | some v =>
    let bound := (importBindings v.imports).map (·.1) ++ moduleNames pkg.client ++ builtinNames ++ md.args.map (·.1) ++ ["kwargs"]
    let need := (match v.op with | .inline _ _ => ["gql"] | .const c => [c]) ++ [v.retClass] ++ exNames v.variables
    let missing := need.filter (fun n => !bound.contains n)
    let constMissing := match v.op with
      | .const c => if (constValue pkg v c).isSome then [] else [c]
      | _ => []
    missing ++ constMissing.filter (fun n => !missing.contains n)

def unresolvedNames (pkg : Pkg) : List String :=
  match pkg.client.firstClass? with
  | none => []
  | some c => c.methods.flatMap (runtimeUnresolved pkg)

def wellScopedB (pkg : Pkg) : Bool := (unresolvedNames pkg).isEmpty

end Ariadne.ClientSem
