/-
  What a generated client method *does*, read off its AST (Model/PyIR.lean):

    `viewOf`  recognises the body shape client.py emits (`_generate_method`, `_generate_async_method`,
              `_generate_subscription_method_def`), possibly after the bundled plugins rewrote it
              (leading in-body imports, operation string replaced by a constant, attribute
              projections behind `model_validate`), as a `MethodView`
              = (kind, in-body imports, operation text or constant reference, operationName,
                 variables expression, validated class, projection).
    `sem`     the denotation of a view inside a package: the request it sends and what it makes of a
              response (`data` as handed over by `get_data`, C12), with pydantic (`validate`) and
              attribute access (`getattr`) as parameters.  A name that is not bound when the line
              runs is a `nameError`.
    `annScopedB`, `wellScopedB`  the scoping part of "the package still loads / the call does not
              die with NameError" (CPython's import system itself is oracle-only).
  Core Lean only.
-/
import AriadneModel.Model.Json
import AriadneModel.Model.Plugins

namespace Ariadne.ClientSem
open Ariadne Ariadne.Py Ariadne.Plugins

inductive Kind where
  | sync | async | subscription
  deriving Repr, DecidableEq, Inhabited

inductive OpSrc where
  | inline (lines : List String)     -- `query = gql('l1\n' 'l2\n' …)`
  | const (name : String)            -- `query=NAME_GQL`
  deriving Repr, DecidableEq, Inhabited

structure MethodView where
  kind : Kind
  bodyImports : List ImportFrom
  op : OpSrc
  opName : String
  variables : Ex
  retClass : String
  proj : List String
  deriving Repr, Inhabited

/-- leading `from … import …` statements of a body -/
def splitImports : List Stmt → List ImportFrom × List Stmt
  | .simple (.importFrom i) :: rest =>
    let r := splitImports rest
    (i :: r.1, r.2)
  | rest => ([], rest)

def kwLookup (k : String) : List (Option String) → List Ex → Option Ex
  | some k' :: ns, v :: vs => if k' = k then some v else kwLookup k ns vs
  | none :: ns, _ :: vs => kwLookup k ns vs
  | _, _ => none

/-- `C.model_validate(d).f1.f2…` -> (C, d, [f1, f2, …]) -/
def projOf : Ex → Option (String × String × List String)
  | .attr e f => (projOf e).map (fun r => (r.1, r.2.1, r.2.2 ++ [f]))
  | .call (.attr (.name c) "model_validate") [.name d] [] [] => some (c, d, [])
  | _ => none

/-- the keyword arguments of `self.execute(...)` / `self.execute_ws(...)`:
    (query variable or constant, operation name, variables variable) -/
def execArgs (callee : String) : Ex → Option (String × String × String)
  | .call (.attr (.name "self") f) [] ns vs =>
    if f = callee then
      match kwLookup "query" ns vs, kwLookup "operation_name" ns vs, kwLookup "variables" ns vs with
      | some (.name q), some (.const o), some (.name v) => some (q, o, v)
      | _, _, _ => none
    else none
  | _ => none

/-- the part of the body after the `variables` assignment -/
def tailView (isAsync : Bool) : List Stmt → Option (Kind × (String × String × String) × (String × String × List String))
  | [.simple (.assign r e), .simple (.assign d (.call (.attr (.name "self") "get_data") [.name r'] [] [])),
      .simple (.ret (some rv))] =>
    if r = r' then
      match e with
      | .await c =>
        if isAsync then
          match execArgs "execute" c, projOf rv with
          | some a, some p => if p.2.1 = d then some (.async, a, p) else none
          | _, _ => none
        else none
      | c =>
        if !isAsync then
          match execArgs "execute" c, projOf rv with
          | some a, some p => if p.2.1 = d then some (.sync, a, p) else none
          | _, _ => none
        else none
    else none
  | [.asyncFor (.name d) it [.expr (.yield rv)] _ _] =>
    if isAsync then
      match execArgs "execute_ws" it, projOf rv with
      | some a, some p => if p.2.1 = d then some (.subscription, a, p) else none
      | _, _ => none
    else none
  | _ => none

def viewOf (m : Method) : Option MethodView :=
  let (imps, rest) := splitImports m.body
  match rest with
  | .simple (.assign q (.call (.name "gql") [.strs lines] [] [])) ::
      .simple (.annAssign (.name v) _ (some dict)) :: tail =>
    match tailView m.isAsync tail with
    | some (k, (q', o, v'), (c, _, fs)) =>
      if q' = q ∧ v' = v then
        some { kind := k, bodyImports := imps, op := .inline lines, opName := o, variables := dict, retClass := c, proj := fs }
      else none
    | none => none
  | .simple (.annAssign (.name v) _ (some dict)) :: tail =>
    match tailView m.isAsync tail with
    | some (k, (q', o, v'), (c, _, fs)) =>
      if v' = v then
        some { kind := k, bodyImports := imps, op := .const q', opName := o, variables := dict, retClass := c, proj := fs }
      else none
    | none => none
  | _ => none

/-! ### packages and name resolution -/

structure Pkg where
  client : Module
  ops : Option (String × OpsFile)          -- (module name, content) of the extracted-operations module
  deriving Repr, Inhabited

/-- (qualified module as `"." * level + module`, imported name) for every run-time binding a list of
    import statements creates; the key is the bound name (`asname or name`) -/
def importBindings (is : List ImportFrom) : List (String × (String × String)) :=
  is.flatMap (fun i =>
    match i.module with
    | some mname => i.names.map (fun n => (n.2.getD n.1, (dotted i.level mname, n.1)))
    | none => [])

def topImports (m : Module) : List ImportFrom := m.body.filterMap Top.importFrom?

/-- imports that exist for the type checker only (`if TYPE_CHECKING:` bodies) -/
def typeCheckingImports (m : Module) : List ImportFrom :=
  m.body.flatMap (fun t =>
    match t with
    | .ifStmt (.name "TYPE_CHECKING") body _ =>
      body.filterMap (fun s => match s with | .importFrom i => some i | _ => none)
    | _ => [])

/-- names bound in the module's globals after `import` ran (functions, classes, assignments, imports;
    nothing under `if TYPE_CHECKING:`) -/
def moduleNames (m : Module) : List String :=
  m.body.flatMap (fun t =>
    match t with
    | .simple (.importFrom i) => i.names.map (fun n => n.2.getD n.1)
    | .simple (.assign t _) => [t]
    | .simple (.assignList t _) => [t]
    | .funcDef f => [f.name]
    | .classDef c => [c.name]
    | _ => [])

def builtinNames : List String :=
  ["str", "int", "float", "bool", "object", "bytes", "list", "dict", "None", "True", "False", "self"]

/-- where a name used inside a method body comes from at run time: in-body imports first -/
def resolveRuntime (pkg : Pkg) (v : MethodView) (n : String) : Option (String × String) :=
  match alookup n (importBindings v.bodyImports) with
  | some r => some r
  | none => alookup n (importBindings (topImports pkg.client))

/-- the string a constant imported from the operations module holds -/
def constValue (pkg : Pkg) (v : MethodView) (c : String) : Option String :=
  match resolveRuntime pkg v c, pkg.ops with
  | some (q, n), some (opsName, f) =>
    if q = "." ++ opsName then (alookup n f.assigns).map String.join else none
  | _, _ => none

structure Request where
  query : String
  opName : String
  variables : Ex
  deriving Repr, Inhabited

inductive Outcome (α : Type) where
  | ok (a : α)
  | invalid (err : String)       -- pydantic ValidationError
  | nameError (n : String)
  deriving Repr, Inhabited

def Outcome.map {α β} (f : α → β) : Outcome α → Outcome β
  | .ok a => .ok (f a)
  | .invalid e => .invalid e
  | .nameError n => .nameError n

def request (pkg : Pkg) (v : MethodView) : Outcome Request :=
  match v.op with
  | .inline ls =>
    if (moduleNames pkg.client).contains "gql" then .ok ⟨String.join ls, v.opName, v.variables⟩
    else .nameError "gql"
  | .const c =>
    match constValue pkg v c with
    | some s => .ok ⟨s, v.opName, v.variables⟩
    | none => .nameError c

section
variable {PyV : Type}
-- pydantic: `validate (qualified module, class) data`; CPython: `getattr name obj`
variable (validate : String × String → J → Except String PyV) (getattr : String → PyV → PyV)

def respond (pkg : Pkg) (v : MethodView) (data : J) : Outcome PyV :=
  match resolveRuntime pkg v v.retClass with
  | none => .nameError v.retClass
  | some cls =>
    match validate cls data with
    | .ok o => .ok (v.proj.foldl (fun o f => getattr f o) o)
    | .error e => .invalid e

/-- request sent, and value returned (per call; per received frame for a subscription) -/
def sem (pkg : Pkg) (v : MethodView) : Outcome Request × (J → Outcome PyV) :=
  (request pkg v, respond validate getattr pkg v)
end

/-! ### scoping -/

mutual
  /-- `ast.Name` identifiers an expression evaluates (string constants are not evaluated) -/
  def exNames : Ex → List String
    | .name id => [id]
    | .sub v s => exNames v ++ exNames s
    | .tuple es => exNamesList es
    | .attr v _ => exNames v
    | .call f a _ vs => exNames f ++ exNamesList a ++ exNamesList vs
    | .await e => exNames e
    | .yield e => exNames e
    | .other _ l => l
    | _ => []
  def exNamesList : List Ex → List String
    | [] => []
    | e :: es => exNames e ++ exNamesList es
end

/-- names evaluated when the `def` statement of a method runs (annotations, defaults) -/
def defTimeNames (m : Method) : List String :=
  (m.args.flatMap (fun a => match a.2 with | some e => exNames e | none => [])) ++ exNames m.rest ++
  (match m.returns with | some r => exNames r | none => [])

/-- every name a method signature evaluates at import time is bound at module level -/
def annScopedB (m : Module) : Bool :=
  match m.firstClass? with
  | none => true
  | some c =>
    c.methods.all (fun md => (defTimeNames md).all (fun n => (moduleNames m).contains n || builtinNames.contains n))

/-- names a recognised method body needs at call time, with the reason -/
def runtimeUnresolved (pkg : Pkg) (md : Method) : List String :=
  match viewOf md with
  | none => []
  | some v =>
    let bound := (importBindings v.bodyImports).map (·.1) ++ moduleNames pkg.client ++ builtinNames ++ md.args.map (·.1) ++ ["kwargs"]
    let need := (match v.op with | .inline _ => ["gql"] | .const c => [c]) ++ [v.retClass] ++ exNames v.variables
    let missing := need.filter (fun n => !bound.contains n)
    let constMissing := match v.op with
      | .const c => if (constValue pkg v c).isSome then [] else [c]
      | _ => []
    missing ++ constMissing.filter (fun n => !missing.contains n)

def unresolvedNames (pkg : Pkg) : List String :=
  match pkg.client.firstClass? with
  | none => []
  | some c => c.methods.flatMap (runtimeUnresolved pkg)

def wellScopedB (pkg : Pkg) : Bool := (unresolvedNames pkg).isEmpty

end Ariadne.ClientSem
