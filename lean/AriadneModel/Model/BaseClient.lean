/-
  Model of the request side of the four bundled base clients
  (dependencies/base_client.py, async_base_client.py, base_client_open_telemetry.py,
  async_base_client_open_telemetry.py — the shared methods are textually identical modulo
  async/await; harness/c11.py re-checks that on every run with `clients.four_way`).

  Python, for reference (async_base_client.py):

      def execute(self, query, operation_name=None, variables=None, **kwargs):
          processed_variables, files, files_map = self._process_variables(variables)
          if files and files_map:
              return self._execute_multipart(query=..., variables=processed_variables,
                                             files=files, files_map=files_map, **kwargs)
          return self._execute_json(query=..., variables=processed_variables, **kwargs)

      def _process_variables(self, variables):
          if not variables: return {}, {}, {}
          serializable_variables = self._convert_dict_to_json_serializable(variables)
          return self._get_files_from_variables(serializable_variables)

      def _convert_dict_to_json_serializable(self, dict_):
          return {key: self._convert_value(value) for key, value in dict_.items() if value is not UNSET}

      def _convert_value(self, value):
          if isinstance(value, BaseModel): return value.model_dump(by_alias=True, exclude_unset=True)
          if isinstance(value, list): return [self._convert_value(item) for item in value]
          return value                                   # NB: dicts are not descended into

      def _get_files_from_variables(self, variables):
          files_map = {}; files_list = []
          def separate_files(path, obj):
              if isinstance(obj, list):  return [separate_files(f"{path}.{index}", v) for index, v in enumerate(obj)]
              if isinstance(obj, dict):  return {key: separate_files(f"{path}.{key}", v) for key, v in obj.items()}
              if isinstance(obj, Upload):
                  if obj in files_list:  file_index = files_list.index(obj); files_map[str(file_index)].append(path)
                  else:                  file_index = len(files_list); files_list.append(obj); files_map[str(file_index)] = [path]
                  return None
              return obj
          nulled_variables = separate_files("variables", variables)
          files = {str(i): (f.filename, f.content, f.content_type) for i, f in enumerate(files_list)}
          return nulled_variables, files, files_map

      def _execute_multipart(self, query, operation_name, variables, files, files_map, **kwargs):
          data = {"operations": json.dumps({"query": query, "operationName": operation_name,
                                            "variables": variables}, default=to_jsonable_python),
                  "map": json.dumps(files_map, default=to_jsonable_python)}
          return self.http_client.post(url=self.url, data=data, files=files, **kwargs)

      def _execute_json(self, query, operation_name, variables, **kwargs):
          headers = {"Content-Type": "application/json"}
          headers.update(kwargs.get("headers", {}))
          merged_kwargs = kwargs.copy(); merged_kwargs["headers"] = headers
          return self.http_client.post(url=self.url, content=json.dumps({...same three keys...},
                                       default=to_jsonable_python), **merged_kwargs)

  The OpenTelemetry twins add `execute` -> `_execute_with_telemetry` when `self.tracer` is truthy;
  that path calls `json.dumps(variables, default=to_jsonable_python)` once more (span attribute)
  before delegating to the same `_execute_json` / `_execute_multipart`.

  What is third-party and therefore an *input* of the model (computed by the harness with the real
  library, validated, not verified):
    * `model_dump(by_alias=True, exclude_unset=True)` of a pydantic model  -> field `dump`
    * `to_jsonable_python(model)` (what `json.dumps(default=…)` makes of a model that was NOT
      dumped because it sits below a raw dict)                             -> field `jsonable`
    * what `json.dumps(default=to_jsonable_python)` makes of any other leaf object (enum member,
      datetime, Decimal, arbitrary object …); `none` = it raises           -> `leaf j`
  httpx's header normalisation and multipart encoding are httpx's: the model stops at the arguments
  of `http_client.post`.
-/
import AriadneModel.Model.Json

namespace Ariadne.BaseClient
open Ariadne

/-- A Python value as the request path of the base client distinguishes it. -/
inductive PV where
  | none                                            -- None
  | unset                                           -- the UNSET singleton
  | bool (b : Bool)
  | num (m : Int) (e : Nat)                         -- int / finite float  (m * 10^-e)
  | str (s : String)
  | list (xs : List PV)
  | dict (kvs : List (String × PV))                 -- insertion order; Python keys are unique
  | model (dump : PV) (jsonable : Option J)         -- a pydantic BaseModel instance (see header)
  | upload (id : Nat)                               -- an `Upload` object; `id` = object identity
  | leaf (j : Option J)                             -- any other object (see header)
  deriving Inhabited

namespace PV
def isUnset : PV → Bool | .unset => true | _ => false
end PV

/-! ### `_convert_value`, `_convert_dict_to_json_serializable` -/

mutual
  def convertValue : PV → PV
    | .model d _ => d
    | .list xs => .list (convertList xs)
    | .none => .none
    | .unset => .unset
    | .bool b => .bool b
    | .num m e => .num m e
    | .str s => .str s
    | .dict kvs => .dict kvs                        -- not descended into
    | .upload i => .upload i
    | .leaf j => .leaf j
  def convertList : List PV → List PV
    | [] => []
    | x :: xs => convertValue x :: convertList xs
end

def convertDict : List (String × PV) → List (String × PV)
  | [] => []
  | (k, v) :: rest => if v.isUnset then convertDict rest else (k, convertValue v) :: convertDict rest

/-! ### `_get_files_from_variables`

  `files_list` and `files_map` always change together (a new key `str(len(files_list))` exactly when
  an Upload is appended), so they are one list of entries here: position = file index,
  `files_list = entries.map id`, `files_map = {str(i): entries[i].paths}`. -/

structure Entry where
  id : Nat
  paths : List String
  deriving Repr, BEq, DecidableEq

/-- `if obj in files_list: files_map[str(files_list.index(obj))].append(path)
     else: files_list.append(obj); files_map[str(len-1)] = [path]` -/
def addPath (id : Nat) (p : String) : List Entry → List Entry
  | [] => [⟨id, [p]⟩]
  | e :: es => if e.id = id then ⟨e.id, e.paths ++ [p]⟩ :: es else e :: addPath id p es

mutual
  /-- `separate_files(path, obj)` threading `(files_list, files_map)`. -/
  def sep (path : String) : PV → List Entry → PV × List Entry
    | .list xs, st => let r := sepList path 0 xs st; (.list r.1, r.2)
    | .dict kvs, st => let r := sepDict path kvs st; (.dict r.1, r.2)
    | .upload i, st => (.none, addPath i path st)
    | .none, st => (.none, st)
    | .unset, st => (.unset, st)
    | .bool b, st => (.bool b, st)
    | .num m e, st => (.num m e, st)
    | .str s, st => (.str s, st)
    | .model d j, st => (.model d j, st)
    | .leaf j, st => (.leaf j, st)
  def sepList (path : String) (i : Nat) : List PV → List Entry → List PV × List Entry
    | [], st => ([], st)
    | x :: xs, st =>
      let r := sep (path ++ "." ++ toString i) x st
      let r2 := sepList path (i + 1) xs r.2
      (r.1 :: r2.1, r2.2)
  def sepDict (path : String) : List (String × PV) → List Entry → List (String × PV) × List Entry
    | [], st => ([], st)
    | (k, x) :: rest, st =>
      let r := sep (path ++ "." ++ k) x st
      let r2 := sepDict path rest r.2
      ((k, r.1) :: r2.1, r2.2)
end

/-- `_process_variables`: `if not variables: return {}, {}, {}`. -/
def processVariables : Option (List (String × PV)) → List (String × PV) × List Entry
  | none => ([], [])
  | some [] => ([], [])
  | some kvs => sepDict "variables" (convertDict kvs) []

/-! ### `json.dumps(..., default=to_jsonable_python)` on what is left -/

mutual
  /-- `none` = json.dumps raises (PydanticSerializationError / TypeError). -/
  def toJson : PV → Option J
    | .none => some .null
    | .unset => none                      -- to_jsonable_python(UNSET): unknown type
    | .bool b => some (.bool b)
    | .num m e => some (.num m e)
    | .str s => some (.str s)
    | .list xs => (toJsonList xs).map .arr
    | .dict kvs => (toJsonKvs kvs).map .obj
    | .model _ j => j
    | .upload _ => none                   -- to_jsonable_python(Upload): unknown type
    | .leaf j => j
  def toJsonList : List PV → Option (List J)
    | [] => some []
    | x :: xs => match toJson x, toJsonList xs with
      | some j, some js => some (j :: js)
      | _, _ => none
  def toJsonKvs : List (String × PV) → Option (List (String × J))
    | [] => some []
    | (k, x) :: rest => match toJson x, toJsonKvs rest with
      | some j, some js => some ((k, j) :: js)
      | _, _ => none
end

/-! ### clients, calls, requests -/

inductive Kind where | sync | async | syncOT | asyncOT
  deriving Repr, DecidableEq

def Kind.isOT : Kind → Bool | .syncOT => true | .asyncOT => true | _ => false

/-- The attributes of a client object that `execute` reads.  (`http_client` is httpx's.) -/
structure Client where
  kind : Kind
  url : String
  tracer : Bool          -- `bool(self.tracer)`; only the OpenTelemetry twins have the attribute
  deriving Repr, DecidableEq

structure Call where
  query : String
  opName : Option String
  variables : Option (List (String × PV))
  headers : Option (List (String × String))   -- kwargs.get("headers"); `none` = not passed
  kwargs : List (String × J)                  -- every other keyword argument (timeout, …)

/-- The arguments of `self.http_client.post(...)`, or the exception escaping before it. -/
inductive Request where
  | json (url : String) (body : J) (headers : List (String × String)) (kwargs : List (String × J))
  | multipart (url : String) (operations : J) (map : J) (files : List (String × Nat))
      (headers : Option (List (String × String))) (kwargs : List (String × J))
  | serializationError

/-- `d[k] = v` on an insertion-ordered dict. -/
def dictSet (k v : String) : List (String × String) → List (String × String)
  | [] => [(k, v)]
  | (k', v') :: rest => if k' = k then (k', v) :: rest else (k', v') :: dictSet k v rest

/-- `base.update(new)`. -/
def dictUpdate (base : List (String × String)) : List (String × String) → List (String × String)
  | [] => base
  | (k, v) :: rest => dictUpdate (dictSet k v base) rest

/-- `operation_name` is `Optional[str]` -/
def opJ (c : Call) : J := match c.opName with | some n => .str n | none => .null

/-- the dict literal `{"query": query, "operationName": operation_name, "variables": variables}` dumped. -/
def body (c : Call) (vars : List (String × PV)) : Option J :=
  (toJsonKvs vars).map fun vs =>
    J.obj [("query", .str c.query), ("operationName", opJ c), ("variables", .obj vs)]

def executeJson (cl : Client) (c : Call) (vars : List (String × PV)) : Request :=
  let headers := dictUpdate [("Content-Type", "application/json")] (c.headers.getD [])
  match body c vars with
  | none => .serializationError
  | some b => .json cl.url b headers c.kwargs

/-- `enumerate(files_list)` / the keys of `files_map`. -/
def filesOf (i : Nat) : List Entry → List (String × Nat)
  | [] => []
  | e :: es => (toString i, e.id) :: filesOf (i + 1) es

def mapOf (i : Nat) : List Entry → List (String × J)
  | [] => []
  | e :: es => (toString i, .arr (e.paths.map .str)) :: mapOf (i + 1) es

def executeMultipart (cl : Client) (c : Call) (vars : List (String × PV)) (st : List Entry) : Request :=
  match body c vars with
  | none => .serializationError
  | some b => .multipart cl.url b (.obj (mapOf 0 st)) (filesOf 0 st) c.headers c.kwargs

/-- `execute` of the plain clients = `_execute` of the OpenTelemetry twins. -/
def executePlain (cl : Client) (c : Call) : Request :=
  let r := processVariables c.variables
  if r.2.isEmpty then executeJson cl c r.1 else executeMultipart cl c r.1 r.2

/-- `_execute_with_telemetry` -> `_execute_{json,multipart}_with_telemetry`: the span attribute
    `json.dumps(variables, default=to_jsonable_python)` is computed (and may raise) first. -/
def executeWithTelemetry (cl : Client) (c : Call) : Request :=
  let r := processVariables c.variables
  match toJsonKvs r.1 with
  | none => .serializationError
  | some _ => if r.2.isEmpty then executeJson cl c r.1 else executeMultipart cl c r.1 r.2

/-- `execute`: returns the client object's state after the call and what was sent. -/
def execute (cl : Client) (c : Call) : Client × Request :=
  if cl.kind.isOT && cl.tracer then (cl, executeWithTelemetry cl c) else (cl, executePlain cl c)

end Ariadne.BaseClient
