/-
  Model/OrderClient.lean — `main.client(config_dict)` as ONE pipeline over the component models of
  Model/Order.lean, OrderEmit.lean and OrderResult.lean (property C10).  Core Lean only.

```python
def client(config_dict):
    settings = get_client_settings(config_dict)
    schema = get_graphql_schema_from_path(settings.schema_path)                    # load_graphql_files_from_path
    plugin_manager = PluginManager(schema=schema, config_dict=config_dict, plugins_types=get_plugins_types(settings.plugins))
    schema = add_mixin_directive_to_schema(schema); schema = plugin_manager.process_schema(schema); assert_valid_schema(schema)
    definitions = get_graphql_queries(settings.queries_path, schema)               # load_graphql_files_from_path + validate
    package_generator = get_package_generator(schema=schema, fragments=fragments, settings=settings, plugin_manager=plugin_manager)
    for query in queries: package_generator.add_operation(query)
    generated_files = package_generator.generate()                                 # ast_to_str + write_text per file
```
Everything that is a deterministic function of the loaded TEXTS and of the configuration is abstract here:
`front` (parse, validate, build the schema, run every `ResultTypesGenerator` up to the points where a set is
turned into an order) and `assemble` (put the files together in write order, every plugin hook applied in the
order of the loaded plugin classes).  What is NOT abstract is every point where an unordered collection
meets an order: the two directory listings, the namespace listing of plugin modules, every set iteration
(`emitPackage`, `emitResult`), the existing target directory and isort's view of it (`runWrites`).
-/
import AriadneModel.Model.OrderEmit
import AriadneModel.Model.OrderResult

namespace Ariadne.Order

inductive ClientErr where
  | loadSchema (e : Err)
  | plugin (msg : String)          -- PluginImportError
  | loadQueries (e : Err)
  | refused (why : String)         -- any documented refusal of the front end (invalid schema / operations, ...)
  | generate (e : Err)             -- KeyError / ValueError out of the modelled generators
  deriving Repr

/-- what the front end hands to the set-fed emission points -/
structure FrontOut where
  pkg : PkgIn
  results : List ResultIn
  closure : Name → Option (List Name)
  baseModel : Name

def clientRun {IR : Type} (e : EnumOracle)
    (dirS dirQ : List Entry → List Entry) (schemaEntries queryEntries : List Entry)
    (nsList : List (Name × Cls) → List (Name × Cls)) (resolve : String → PluginTarget) (pluginsStrs : List String)
    (front : List Cls → String → String → Except String FrontOut)
    (keep : Name → Bool)
    (assemble : List Cls → PkgIR → List ResultIR → List (Name × IR))
    (render : Bool → IR → String) (flag : Nat → Bool) (dir : Dir) : Except ClientErr WriteLog :=
  match loadGraphqlFiles dirS schemaEntries with
  | .error er => .error (.loadSchema er)
  | .ok schemaText =>
    match getPluginsTypes nsList resolve pluginsStrs with
    | .error m => .error (.plugin m)
    | .ok plugins =>
      match loadGraphqlFiles dirQ queryEntries with
      | .error er => .error (.loadQueries er)
      | .ok queriesText =>
        match front plugins schemaText queriesText with
        | .error why => .error (.refused why)
        | .ok f =>
          match f.results.mapM (emitResult e f.pkg.pascal f.baseModel f.closure) with
          | .error er => .error (.generate er)
          | .ok rs =>
            match emitPackage keep e f.pkg with
            | .error er => .error (.generate er)
            | .ok pk => .ok (runWrites render (assemble plugins pk rs) flag dir)

end Ariadne.Order
