/-
  C15: what reaches ShorterResults when it stands in a list with other plugins `L` (ExtractOperations, NoReimports,
  identity): the decidable well-formedness of the generation WITH `L` under which adding ShorterResults anywhere
  in the list is proved to preserve the whole-pipeline statement (`genShapedSR L`; for `L = []` this is `genShapedS`
  plus the condition on operation constants).  Core Lean only.
-/
import AriadneModel.Model.PluginWholeE

namespace Ariadne.C15
open Ariadne Ariadne.Py Ariadne.Plugins Ariadne.ClientSem

def genShapedSR (L : List PState) (x : Input) : Bool :=
  match splitAtClientModule x.events, (runWith L x).1.clientModule? with
  | some (_, cm, post), some B0 =>
    (match cm.payload with | .module _ => true | _ => false) &&
    post.all (fun e => e.call.hook != "generate_client_module" && !recordingHooks.contains e.call.hook) &&
    (moduleNames B0).contains "gql" &&
    (match splitClient B0 with
     | some (_, _, C0) =>
       let st := shorterFacts (fragmentsModuleNameOf x.plugins) x.events
       let pool := leafPool st C0.methods
       let known := knownModules x (runWith L x).1.opsFile?
       st.classDict.all (fun kv => isOkB (nodeAndClass st.classDict kv.1)) &&
       C0.methods.all (fun md =>
         (match singleFieldOf st md with
          | some (_, ann) =>
            kindOKB md && (exNames (newReturns md ann)).all (fun n =>
              ((leavesOf ann).contains n && (ahas n st.importedTypes || ahas n st.classDict)) ||
                (moduleNames B0).contains n || builtinNames.contains n)
          | none => true) &&
         -- no leaf class is called like a validated result class or like the constant of an operation
         (match shapeOf md with
          | some s => !pool.contains s.retClass && (match s.op with | .const c => !pool.contains c | .inline _ _ => true)
          | none => true) &&
         !startsWithDot md.name) &&
       pool.all (fun n =>
         match alookup n st.importedTypes with
         | some v => !startsWithDot v || known.contains v
         | none => true) &&
       (baseMethods x.events).all (fun m =>
         match C0.methods.find? (fun md => md.name == m.name) with
         | some md => returnClassOf md == returnClassOf m
         | none => false)
     | none => false)
  | _, _ => false

end Ariadne.C15
