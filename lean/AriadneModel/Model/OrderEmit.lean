/-
  Model/OrderEmit.lean — what reaches the FILES from the set-fed emission points of Model/Order.lean,
  i.e. the raw modules seen through the formatter pipeline `black ∘ isort ∘ autoflake`
  (`utils.ast_to_str`).  The pipeline is abstract except for the one thing that matters to C10:
  of an import block it sees `Spec.Isort.summary` (names de-duplicated and stably sorted by isort's key,
  unused names dropped by autoflake = `keep`); class definitions and statements keep their order.
  The text of a file is `render ir` for an arbitrary deterministic `render` (oracle-validated).
  Core Lean only.
-/
import AriadneModel.Model.Order
import AriadneModel.Spec.Isort

namespace Ariadne.Order
open Ariadne.Isort

/-- fragments.py and what `generate` contributes to `__init__.py` / enums.py -/
structure FragIR where
  imports : Summary
  classes : List Name
  rebuilds : List Name
  initNames : List Name
  enumsKept : List Name
  deriving DecidableEq, Repr

def fmtFrag (keep : Name → Bool) (schemaEnums : List Name) (o : FragOut) : FragIR :=
  { imports := summary keep o.module.imports, classes := o.module.classes, rebuilds := o.module.rebuilds,
    initNames := isortNames o.publicNames, enumsKept := filterEnums schemaEnums (some o.usedEnums) }

/-- the generated package as far as unordered collections can reach it -/
structure PkgIR where
  opModules : List (Name × Summary)                        -- import block of every operation module
  fragments : Option (Summary × List Name × List Name)    -- fragments.py: imports, class order, rebuild calls
  enums : List Name                                        -- classes of enums.py
  init : Summary                                           -- imports of __init__.py
  all : List Name                                          -- __all__
  deriving DecidableEq, Repr

def fmtPkg (keep : Name → Bool) (r : PkgRaw) : PkgIR :=
  { opModules := r.opModules.map (fun p => (p.1, summary keep p.2)),
    fragments := r.fragments.map (fun o => (summary keep o.module.imports, o.module.classes, o.module.rebuilds)),
    enums := r.enums,
    init := summary (fun _ => true) r.init,          -- __init__.py is formatted without autoflake
    all := initAll r.init }

def emitPackage (keep : Name → Bool) (e : EnumOracle) (x : PkgIn) : Except Err PkgIR :=
  (packageRaw e x).map (fmtPkg keep)

/-- the generators of the fragments that are not unpacked, in dictionary order -/
def liveGens (defs : List (Name × DefGen)) (exclude : List Name) : List (Name × DefGen) :=
  ((defs.map (·.1)).filter (fun n => !exclude.contains n)).map (fun n => (n, (lookup defs n).getD default))

/-- Trigger of finding C10-F2 on the fragments module alone. -/
def fragTie (defs : List (Name × DefGen)) (exclude : List Name) : Bool :=
  summaryTie ((liveGens defs exclude).flatMap (·.2.imports)) || nameTie ((liveGens defs exclude).flatMap (·.2.publicNames))

/-- Trigger of finding C10-F2 on a package: some import statement that receives names from a set
    has two distinct names with the same isort key. -/
def trigIsortTie (x : PkgIn) : Bool :=
  let ex := x.ops.flatMap (·.unpacked)
  x.ops.any (fun o => summaryTie (opImports id x.pascal x.fragmentsModule o.gen))
  || summaryTie ((liveGens x.defs ex).flatMap (·.2.imports))
  || summaryTie (initAdd x.initBefore ((liveGens x.defs ex).flatMap (·.2.publicNames)) x.fragmentsModule ++ x.initAfter)

end Ariadne.Order
