/-
  C06: the decidable class of schemas for which `InputRel.related` (hypothesis `Proved_06` of the
  acceptance theorem) is PROVED to be established by the generator (`Proofs/C06Related.lean`):
  `wf06` — no definition is called like a specified scalar or like a Python builtin the annotations
  use, every field type resolves to an input type, the members of an enum do not collide, and every
  default literal is `plainLit` (no object literal; a list literal only at a list type; an int
  literal not at `ID`; an enum literal only at the field's own enum, not keyword-named).  The driver
  evaluates `wf06` on the generated cases, so that the size of the region where `Proved_06` is still
  a measured hypothesis (object-literal defaults, structured literals on custom scalars) is measured.
  Core Lean only.
-/
import AriadneModel.Model.InputRel

namespace Ariadne.C06Readback
open Ariadne
open Ariadne.InputGen (TypeRef Lit)
open Ariadne.CoerceInput

mutual
  /-- no object literal; a list literal only at a list type; an int literal not at `ID`; an enum
      literal only at the field's own enum type, not keyword-named -/
  def plainLit (s : CSchema) (ft : String) : TypeRef → Lit → Bool
    | _, .null => true
    | t, .list xs =>
      match CoerceInput.unNN t with
      | .list it => plainLits s ft it xs
      | _ => false
    | _, .obj _ => false
    | t, .int _ => listDepth t == 0 && t.base != "ID"
    | t, .enum x =>
      listDepth t == 0 && t.base == ft && ft != "" && !Tables.kwlist.contains x && x.toList.all (· != '.')
        && (match s.find? ft with | some (.enum _ _) => true | _ => false)
        && (coerceBuiltin ft .null).isNone
    | t, _ => listDepth t == 0
  def plainLits (s : CSchema) (ft : String) : TypeRef → List Lit → Bool
    | _, [] => true
    | t, x :: xs => plainLit s ft t x && plainLits s ft t xs
end

end Ariadne.C06Readback

namespace Ariadne.InputWf
open Ariadne
open Ariadne.InputGen (TypeRef Lit InputField TypeDef)
open Ariadne.InputField Ariadne.CoerceInput

/-- names graphql-core reserves (the specified scalars) and the Python builtins the annotations use -/
def reservedNames : List String := InputGen.specifiedScalars ++ ["int", "float", "str", "bool", "Any"]

/-- every non-keyword value of the enum is found again under its own name in the generated class
    (no other member was renamed onto it: `class` / `class_`) -/
def enumMembersOk (n : String) (vs : List String) : Bool :=
  vs.all fun x => Tables.kwlist.contains x || ((InputGen.genEnum n vs).members.find? (fun m => m.1 == x) == some (x, x))

/-- the field's type resolves and its default (if any) is a plain literal -/
def fieldPlain (cfg : Cfg) (defs : List TypeDef) (f : InputField) : Bool :=
  match annOf (kindOf cfg defs) f.type true with
  | none => false
  | some (_, ft) =>
    match f.default with
    | none => true
    | some lit => C06Readback.plainLit (mkSchema defs) ft f.type lit

def wf06 (cfg : Cfg) (defs : List TypeDef) : Bool :=
  defs.all (fun d => !reservedNames.contains d.name)
  && defs.all fun
    | .input _ fs => fs.all (fieldPlain cfg defs)
    | .enum n vs => enumMembersOk n vs
    | _ => true

end Ariadne.InputWf
