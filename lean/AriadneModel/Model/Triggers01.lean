/-
  Decidable trigger predicates of the known findings about result-type generation
  (C01-F2..F12, C08-F1; DESIGN.md §3 C01).  `Supported_01 x := ¬ (trig₁ x ∨ … ∨ trigₙ x)`:
  the partial theorems of C01/C05/C08 are stated on the complement of these regions, and the
  harness asks the compiled driver (op `triggers`) for the very same predicates when it classifies
  a failure of the real code, so the regions exist exactly once.

  Core Lean only.
-/
import AriadneModel.Model.ResultTypes

namespace Ariadne.Triggers01
open Ariadne Ariadne.Gql Ariadne.ResultTypes Ariadne.Util

/-- a whole input of the client generator, as far as result types are concerned -/
structure Input where
  env : ResultTypes.Env
  ops : List Operation

def hasCond (dirs : List Directive) : Bool := hasConditionalDirective dirs

mutual
  /-- some selection anywhere below satisfies `p` -/
  def anySel (p : Selection → Bool) : Selection → Bool
    | s@(.field _ _ _ _ sub) => p s || anySels p sub
    | s@(.spread _ _) => p s
    | s@(.inline _ _ _ sub) => p s || anySels p sub
  def anySels (p : Selection → Bool) : List Selection → Bool
    | [] => false
    | s :: rest => anySel p s || anySels p rest
end

def anyInDoc (inp : Input) (p : Selection → Bool) : Bool :=
  inp.ops.any (fun o => anySels p o.sel) || inp.env.frags.any (fun f => anySels p f.sel)

/-- C01-F7: an inline fragment without type condition -/
def trigInlineNoType (inp : Input) : Bool :=
  anyInDoc inp fun s => match s with | .inline none _ _ _ => true | _ => false

/-- C01-F8: `__typename` selected under an alias -/
def trigTypenameAlias (inp : Input) : Bool :=
  anyInDoc inp fun s => match s with | .field (some _) n _ _ _ => n == typenameField | _ => false

/-- C01-F3: `@skip` / `@include` on a fragment spread or an inline fragment -/
def trigDirOnFragment (inp : Input) : Bool :=
  anyInDoc inp fun s => match s with
    | .spread _ dirs => hasCond dirs
    | .inline _ dirs _ _ => hasCond dirs
    | _ => false

/-- response keys of the composite fields merged at one position: the fields of the list itself,
    of its inline fragments and of the fragments it spreads (transitively; fuel bounds spread chains) -/
def compositeKeys (frags : List Fragment) : Nat → List Selection → List String
  | 0, _ => []
  | fuel + 1, sels =>
    sels.foldl (fun acc s => acc ++ (match s with
      | .field alias name _ _ sub => if sub.isEmpty then [] else [alias.getD name]
      | .inline _ _ _ sub => compositeKeys frags fuel sub
      | .spread n _ => match findFragment? frags n with
        | some f => compositeKeys frags fuel f.sel
        | none => [])) []

def hasDup : List String → Bool
  | [] => false
  | x :: xs => xs.contains x || hasDup xs

mutual
  /-- C01-F2: the same response key selected twice with a sub-selection at one (merged) position -/
  def dupKeySel (frags : List Fragment) (fuel : Nat) : Selection → Bool
    | .field _ _ _ _ sub => hasDup (compositeKeys frags fuel sub) || dupKeySels frags fuel sub
    | .spread _ _ => false
    | .inline _ _ _ sub => dupKeySels frags fuel sub
  def dupKeySels (frags : List Fragment) (fuel : Nat) : List Selection → Bool
    | [] => false
    | s :: rest => dupKeySel frags fuel s || dupKeySels frags fuel rest
end

def trigDupCompositeKey (inp : Input) : Bool :=
  let fr := inp.env.frags
  let fuel := fr.length + 2
  inp.ops.any (fun o => hasDup (compositeKeys fr fuel o.sel) || dupKeySels fr fuel o.sel)
  || fr.any (fun f => hasDup (compositeKeys fr fuel f.sel) || dupKeySels fr fuel f.sel)

mutual
  /-- does the selection (evaluated on `typeName`) contain, at any depth below fields and inline
      fragments, a field of abstract (interface / union) type? -/
  def abstractFieldIn (S : Schema) (typeName : String) : Selection → Bool
    | .field _ name _ _ sub =>
      match S.fieldOf? typeName name with
      | some fd => (!sub.isEmpty && S.isAbstract fd.type.base) || abstractFieldIns S fd.type.base sub
      | none => false
    | .spread _ _ => false
    | .inline on _ _ sub => abstractFieldIns S (on.getD typeName) sub
  def abstractFieldIns (S : Schema) (typeName : String) : List Selection → Bool
    | [] => false
    | s :: rest => abstractFieldIn S typeName s || abstractFieldIns S typeName rest
end

/-- the model's run over a whole input: operations in order (the automatic `__typename` marks are
    threaded, as the fragment ASTs are shared), then every fragment definition by name -/
structure Run where
  ops : List (Except GenErr ModuleOut)
  frags : List (String × Except GenErr ModuleOut)

def fuel : Nat := 100000

def runOps (env : ResultTypes.Env) : List Operation → List Nat → List (Except GenErr ModuleOut)
  | [], _ => []
  | o :: rest, marks =>
    let r := generate env fuel (.op o) marks
    let marks' := match r with
      | .ok out => out.st.marks
      | .error _ => marks
    r :: runOps env rest marks'

def marksAfter (rs : List (Except GenErr ModuleOut)) : List Nat :=
  rs.foldl (fun acc r => match r with
    | .ok out => out.st.marks.foldl (fun a m => if a.contains m then a else a ++ [m]) acc
    | .error _ => acc) []

def run (inp : Input) : Run :=
  let ops := runOps inp.env inp.ops []
  let marks := marksAfter ops
  let names := sortStr (inp.env.frags.map (·.name))
  let frags := names.filterMap fun n => (findFragment? inp.env.frags n).map fun f => (n, generate inp.env fuel (.frag f) marks)
  { ops := ops, frags := frags }

def okOuts (rs : List (Except GenErr ModuleOut)) : List ModuleOut :=
  rs.filterMap fun r => match r with | .ok o => some o | .error _ => none

/-- the object types a value of (named) type `n` can have at run time -/
def runtimeTypes (S : Schema) (n : String) : List String :=
  match S.kindOf? n with
  | some .object => [n]
  | _ => S.possibleTypes n

/-- Ignoring a fragment whose type condition `cond` is an OBJECT type other than the class's type is
    what the generator intends (that object gets its own class).  It loses data when `cond` is an
    abstract type that can apply to an object the class stands for. -/
def harmfulDrop (S : Schema) (d : String × String) : Bool :=
  S.isAbstract d.1 && (runtimeTypes S d.2).any (runtimeTypes S d.1).contains

/-- C01-F5 / F6: `_resolve_selection_set` ignored an inline fragment or a spread on another, overlapping
    abstract type, or a field was looked up in the wrong type (ParsingError for a valid operation) -/
def trigDroppedSelection (S : Schema) (r : Run) : Bool :=
  (okOuts r.ops ++ okOuts (r.frags.map (·.2))).any (fun o => o.st.dropped.any (harmfulDrop S))
  || (r.ops ++ r.frags.map (·.2)).any fun x => match x with
    | .error (.parsing _) => true
    | _ => false

/-- C01-F4: a fragment that is inherited (used as a mixin) contains an abstract-typed field: its
    text is printed before the fragments generator inserts `__typename` into it -/
def trigMixinAbstractField (inp : Input) (r : Run) : Bool :=
  let mixins := (okOuts r.ops ++ okOuts (r.frags.map (·.2))).foldl (fun acc o => setUnion acc o.st.mixins) []
  mixins.any fun m => match findFragment? inp.env.frags m with
    | some f => abstractFieldIns inp.env.schema f.on f.sel
    | none => false

/-- C08-F1: a fragment unpacked by some operation is also inherited somewhere: it is excluded from
    the fragments module although a class needs it as a base -/
def trigMixinAndUnpacked (r : Run) : Bool :=
  let unpacked := (okOuts r.ops).foldl (fun acc o => setUnion acc o.st.unpacked) []
  let fragMixins := (r.frags.filter fun (n, _) => !unpacked.contains n).foldl (fun acc (_, x) => match x with
    | .ok o => setUnion acc o.st.mixins
    | .error _ => acc) []
  let mixins := (okOuts r.ops).foldl (fun acc o => setUnion acc o.st.mixins) fragMixins
  unpacked.any mixins.contains

/-- C01-F10: `__typename` selected with `@skip` / `@include`: `parse_operation_field` returns the `Literal[...]`
    annotation of the typename and ignores the directives, so the field stays required although the server may omit it -/
def trigCondTypename (inp : Input) : Bool :=
  anyInDoc inp fun s => match s with
    | .field _ n dirs _ _ => n == typenameField && hasCond dirs
    | _ => false

/-- names every result module binds itself: the `_imports` of result_types.py (pydantic / typing / base model) and
    the builtins `SIMPLE_TYPE_MAP` annotations refer to -/
def moduleOwnNames : List String :=
  ["BaseModel", "Field", "Optional", "List", "Any", "Literal", "Union", "Annotated", "BeforeValidator", "Upload",
   "str", "int", "float", "bool"]

/-- C01-F11: a name is bound twice in a result module.  Either a generated class is called like something the module
    imports (`query Base { model {..} }` emits `class BaseModel(BaseModel)`; a class named like a schema enum or a
    configured scalar type), or a schema enum is called like one of the module's own names (`enum int {..}`: every `Int`
    field is then annotated with the enum) -/
def trigShadowedName (inp : Input) (r : Run) : Bool :=
  let classes := (okOuts r.ops ++ okOuts (r.frags.map (·.2))).flatMap (·.classes)
  let enums := (inp.env.schema.types.filter (·.kind == .enum)).map (·.name)
  let imported := moduleOwnNames ++ enums ++ inp.env.scalars.map (·.typeName)
  classes.any (fun c => imported.contains c.name) || enums.any moduleOwnNames.contains

/-- C01-F12: `_resolve_selection_set` meets a spread of a fragment on an OBJECT type `t` (or an inline fragment on `t`) while its
    root type is an ABSTRACT type `a ∋ t`: directly inside an inline fragment `... on a { .. }` (below which the generator continues
    with `a` as root), or directly inside a fragment definition on `a` that is used as a base class (mixin).  There the fragment is
    "unpacked" (`t ≠ a`) but is neither on the root type nor on an abstract supertype of it — it is silently dropped, also for the
    class that stands for `t` (only spreads / inline fragments at the TOP LEVEL of a field's selection set give `t` its own class) -/
def objectPartIn (S : Schema) (frags : List Fragment) (a : String) (sub : List Selection) : Bool :=
  sub.any fun x => match x with
    | .inline (some t) _ _ _ => S.kindOf? t == some .object && (S.possibleTypes a).contains t
    | .spread n _ => match findFragment? frags n with
      | some f => S.kindOf? f.on == some .object && (S.possibleTypes a).contains f.on
      | none => false
    | _ => false

def trigObjectInAbstract (inp : Input) (r : Run) : Bool :=
  let S := inp.env.schema
  (anyInDoc inp fun s => match s with
    | .inline (some a) _ _ sub => S.isAbstract a && objectPartIn S inp.env.frags a sub
    | _ => false)
  || (let mixins := (okOuts r.ops ++ okOuts (r.frags.map (·.2))).foldl (fun acc o => setUnion acc o.st.mixins) []
      mixins.any fun m => match findFragment? inp.env.frags m with
        | some f => S.isAbstract f.on && objectPartIn S inp.env.frags f.on f.sel
        | none => false)

def triggers (inp : Input) : List String :=
  let r := run inp
  (if trigInlineNoType inp then ["inlineNoType"] else [])
  ++ (if trigTypenameAlias inp then ["typenameAlias"] else [])
  ++ (if trigDirOnFragment inp then ["dirOnFragment"] else [])
  ++ (if trigDupCompositeKey inp then ["dupCompositeKey"] else [])
  ++ (if trigDroppedSelection inp.env.schema r then ["droppedSelection"] else [])
  ++ (if trigMixinAbstractField inp r then ["mixinAbstractField"] else [])
  ++ (if trigMixinAndUnpacked r then ["mixinAndUnpacked"] else [])
  ++ (if trigCondTypename inp then ["condTypename"] else [])
  ++ (if trigShadowedName inp r then ["shadowedName"] else [])
  ++ (if trigObjectInAbstract inp r then ["objectInAbstract"] else [])

/-- the region where the partial theorems of C01 / C05 / C08 are claimed -/
def Supported_01 (inp : Input) : Prop := triggers inp = []

instance (inp : Input) : Decidable (Supported_01 inp) := by unfold Supported_01; infer_instance

end Ariadne.Triggers01
