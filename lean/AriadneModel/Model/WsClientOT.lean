/-
  Model of the subscription path of the OpenTelemetry twin
  (dependencies/async_base_client_open_telemetry.py): `execute_ws` dispatches on `self.tracer` to
  `_execute_ws` (a textual copy of the plain client's `execute_ws`) or to
  `_execute_ws_with_telemetry`, which wraps every step in a span:
  `_send_connection_init_with_telemetry`, `_send_subscribe_with_telemetry`,
  `_handle_ws_message_with_telemetry` (a *re-implementation* of `_handle_ws_message` inside a
  span, with `span.set_attribute("type", type_)` added before the type check).

  Spans are not part of the observable trace of the property (what is sent, yielded, raised);
  with the opentelemetry API package the spans are non-recording.  `withSpan` marks where the code
  opens one.  The functions below are written out a second time on purpose: they follow the
  second copy of the code, are compared with the real OT client by the correspondence check, and
  `ot_equivalent` (Properties/C13.lean) proves the two models produce the same trace.

  The one observable thing the telemetry wrappers add: `json.dumps(ws_connection_init_payload)` and
  `json.dumps(_convert_dict_to_json_serializable(variables))` are evaluated for span attributes
  *before* the plain send helpers evaluate them again - same value, same `TypeError`, same place
  in the trace (nothing is sent in between).

  Core Lean only.
-/
import AriadneModel.Model.WsClient

namespace Ariadne.WsClientOT
open Ariadne Ariadne.WsClient

/-- `with self.tracer.start_as_current_span(name, context=...) as span:` — no observable effect. -/
@[inline] def withSpan {α : Type} (_name : String) (body : α) : α := body

/-- `_handle_ws_message_with_telemetry`. -/
def handleTel (t : Types) (expected : Option String) (f : Frame) : Handled :=
  withSpan "received message" <|
    match f with
    | .text _ => .raise (.invalidMessage .message)
    | .badBytes => .raise (.internal "UnicodeDecodeError")
    | .json (.obj kvs) =>
      -- span.set_attribute("type", type_)
      match typeCheck t (J.lookup "type" kvs) with
      | .error o => .raise o
      | .ok ty =>
        let payload := (J.lookup "payload" kvs).getD (.obj [])
        let go : Handled :=
          if ty = t.next then nextOf payload
          else if ty = t.complete then .retClose
          else if ty = t.ping then .retPong
          else if ty = t.error then errorOf payload (.obj kvs)
          else .ret none
        match expected with
        | some e => if e != "" && e != ty then .raise (.invalidMessage (.expected e)) else go
        | none => go
    | .json _ => .raise (.internal "AttributeError")

/-- the `async for` loop of `_execute_ws_with_telemetry`. -/
def streamTel (t : Types) : List Frame → List Ev × Outcome
  | [] => ([], .exhausted)
  | f :: fs =>
    match handleTel t none f with
    | .ret (some d) =>
      if d.truthy then (.recv f :: .yield d :: (streamTel t fs).1, (streamTel t fs).2)
      else (.recv f :: (streamTel t fs).1, (streamTel t fs).2)
    | .ret none => (.recv f :: (streamTel t fs).1, (streamTel t fs).2)
    | .retPong => (.recv f :: .send .pong :: (streamTel t fs).1, (streamTel t fs).2)
    | .retClose => ([.recv f, .close], .completed)
    | .raise o => ([.recv f], o)

/-- `_send_subscribe_with_telemetry` (span attributes first, then `_send_subscribe`) and the loop. -/
def afterAckTel (t : Types) (cfg : Cfg) (vars : Option (List (String × PV))) (closed : Bool)
    (fs : List Frame) : List Ev × Outcome :=
  withSpan "subscribe" <|
    match serialise vars with            -- json.dumps(...) for the "variables" attribute
    | .typeError => ([], .internal "TypeError")
    | .absent =>
      if closed then ([], .internal "ConnectionClosedOK")
      else (.send (.subscribe cfg.opId cfg.query cfg.opName none) :: (streamTel t fs).1, (streamTel t fs).2)
    | .present v =>
      if closed then ([], .internal "ConnectionClosedOK")
      else (.send (.subscribe cfg.opId cfg.query cfg.opName (some v)) :: (streamTel t fs).1, (streamTel t fs).2)

/-- `_execute_ws_with_telemetry`. -/
def runTel (t : Types) (subprotocol : String) (cfg : Cfg) (vars : Option (List (String × PV)))
    (frames : List Frame) : Trace :=
  withSpan "GraphQL Subscription" <|
    if J.hasKey "subprotocols" cfg.kwargs then ⟨[], .internal "TypeError"⟩
    else
      let pre := [Ev.connect (connectArgs subprotocol cfg),
                  withSpan "connection init" (.send (.connectionInit (initOf cfg)))]
      match frames with
      | [] => ⟨pre, .internal "ConnectionClosedOK"⟩
      | f :: fs =>
        match handleTel t (some t.ack) f with
        | .raise o => ⟨pre ++ [.recv f], o⟩
        | .ret _ =>
          let r := afterAckTel t cfg vars false fs
          ⟨pre ++ .recv f :: r.1, r.2⟩
        | .retPong =>
          let r := afterAckTel t cfg vars false fs
          ⟨pre ++ .recv f :: .send .pong :: r.1, r.2⟩
        | .retClose =>
          let r := afterAckTel t cfg vars true fs
          ⟨pre ++ .recv f :: .close :: r.1, r.2⟩

/-- `AsyncBaseClientOpenTelemetry.execute_ws`: `if self.tracer:` telemetry variant, else `_execute_ws`
    (the copy of the plain client's `execute_ws`, over the OT module's own enum and constant). -/
def run (tracer : Bool) (tblOT : List (String × String)) (subprotocolOT : String) (cfg : Cfg)
    (vars : Option (List (String × PV))) (frames : List Frame) : Trace :=
  match Types.ofTable tblOT with
  | some t => if tracer then runTel t subprotocolOT cfg vars frames else runT t subprotocolOT cfg vars frames
  | none => ⟨[], .internal "AttributeError"⟩

end Ariadne.WsClientOT
