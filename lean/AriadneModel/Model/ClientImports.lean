/-
  Model of the custom-scalar imports of the generated `client.py` module (property C07: "every needed
  import is emitted"), client_generators/client.py `ClientGenerator.generate`:

      for custom_scalar_name in self.arguments_generator.get_used_custom_scalars():
          scalar_data = self.custom_scalars[custom_scalar_name]          # KeyError branch below
          for import_ in generate_scalar_imports(scalar_data):
              self._add_import(import_)

  `get_used_custom_scalars()` is the list `_used_custom_scalars` of the ONE `ArgumentsGenerator` that
  `add_method` ran for every operation before (Model/Arguments.lean `St.usedScalars`: it grows over all
  `generate` calls; `_get_dict_value` appends the scalar of every variable whose base type is a
  configured custom scalar).  `generate_scalar_imports` is Model/Scalars.lean `scalarImports`.

  Core Lean only.
-/
import AriadneModel.Model.Arguments
import AriadneModel.Model.ResultUnion

namespace Ariadne.ClientImports
open Ariadne Ariadne.Scalars Ariadne.Arguments

/-- `add_method` for every operation of the package, in order: the generator's lists afterwards
    (an exception aborts the whole run) -/
def generateAll (env : Env) : List (List VarDef) → St → Except GenErr St
  | [], st => .ok st
  | defs :: rest, st =>
    match Arguments.generate env defs st with
    | .ok (_, st') => generateAll env rest st'
    | .error e => .error e

/-- the scalar imports `ClientGenerator.generate` adds; `.error sc` = `KeyError` on `custom_scalars[sc]` -/
def clientScalarImports (cfg : ScalarCfg) (used : List String) : Except String (List Import) :=
  ResultUnion.importsOfNames cfg used

end Ariadne.ClientImports
