/-
  JSON values as the models see them.  Core Lean only (no Mathlib, no `Lean.Data.Json`),
  so that model files can be linked into the compiled drivers and stay cheap to build.

  `num m e` is the decimal number `m * 10^(-e)` (same representation as `Lean.JsonNumber`);
  objects are association lists in *insertion order* (Python dict order), the harness never
  produces duplicate keys.
-/
namespace Ariadne

inductive J where
  | null
  | bool (b : Bool)
  | num (m : Int) (e : Nat)
  | str (s : String)
  | arr (xs : List J)
  | obj (kvs : List (String × J))
  deriving Repr, Inhabited

namespace J

/-- `dict.get(k)` / `k in dict` on an association list (first binding). -/
def lookup (k : String) : List (String × J) → Option J
  | [] => none
  | (k', v) :: rest => if k' = k then some v else lookup k rest

def hasKey (k : String) (kvs : List (String × J)) : Bool := (lookup k kvs).isSome

/-- Python `dict.get(k)` with the default `None`, rendered as JSON `null`. -/
def getD (k : String) (kvs : List (String × J)) : J := (lookup k kvs).getD .null

/-- Python truthiness of a decoded JSON value (`bool(x)`). -/
def truthy : J → Bool
  | .null => false
  | .bool b => b
  | .num m _ => m != 0
  | .str s => s != ""
  | .arr xs => !xs.isEmpty
  | .obj kvs => !kvs.isEmpty

def isObj : J → Bool | .obj _ => true | _ => false
def isArr : J → Bool | .arr _ => true | _ => false
def isNull : J → Bool | .null => true | _ => false

mutual
  /-- Structural equality (decidable by computation; `J` is a nested inductive). -/
  def beq : J → J → Bool
    | .null, .null => true
    | .bool a, .bool b => a == b
    | .num m e, .num m' e' => m == m' && e == e'
    | .str a, .str b => a == b
    | .arr xs, .arr ys => beqList xs ys
    | .obj xs, .obj ys => beqKvs xs ys
    | _, _ => false
  def beqList : List J → List J → Bool
    | [], [] => true
    | x :: xs, y :: ys => beq x y && beqList xs ys
    | _, _ => false
  def beqKvs : List (String × J) → List (String × J) → Bool
    | [], [] => true
    | (k, x) :: xs, (k', y) :: ys => k == k' && beq x y && beqKvs xs ys
    | _, _ => false
end

instance : BEq J := ⟨beq⟩

mutual
  /-- equality of JSON values where the order of object members does not matter: same number of
      members, and every member of the left object is bound to an equivalent value on the right
      (keys are unique on both sides).  Structural recursion on the LEFT value. -/
  def eqv : J → J → Bool
    | .null, y => (match y with | .null => true | _ => false)
    | .bool a, y => (match y with | .bool b => a == b | _ => false)
    | .num m e, y => (match y with | .num m' e' => m == m' && e == e' | _ => false)
    | .str a, y => (match y with | .str b => a == b | _ => false)
    | .arr xs, y => (match y with | .arr ys => eqvList xs ys | _ => false)
    | .obj xs, y => (match y with | .obj ys => xs.length == ys.length && eqvKvs xs ys | _ => false)
  def eqvList : List J → List J → Bool
    | [], ys => ys.isEmpty
    | x :: xs, ys => (match ys with | y :: ys' => eqv x y && eqvList xs ys' | [] => false)
  def eqvKvs : List (String × J) → List (String × J) → Bool
    | [], _ => true
    | (k, x) :: xs, ys => (match lookup k ys with | some y => eqv x y | none => false) && eqvKvs xs ys
end

end J
end Ariadne
