/-
  C14 — model of the custom operation builder (`enable_custom_operations = true`).  Core Lean only.

  Python modelled
  ---------------
  client_generators/dependencies/base_operation.py  (copied verbatim into every generated package)

      class GraphQLField:
        __init__(field_name, arguments=None):  _field_name, _variables = arguments or {},
              formatted_variables = {}, _subfields = [], _alias = None, _inline_fragments = {}
        alias(a):                 self._alias = a; return self
        _build_field_name():      f"{alias}: {name}" if self._alias else name          # truthiness
        _format_variable_name(idx, var_name, used):
              base = f"{var_name}_{idx}"; unique = base; counter = 1
              while unique in used: unique = f"{base}_{counter}"; counter += 1
              used.add(unique); return unique
        _collect_all_variables(idx, used):
              self.formatted_variables = {}
              for k, v in self._variables.items():
                  u = self._format_variable_name(idx, k, used)
                  self.formatted_variables[u] = {"name": k, "type": v["type"], "value": v["value"]}
        to_ast(idx, used=None):   used = set() if None; self._collect_all_variables(idx, used)
              FieldNode(name=_build_field_name(),
                        arguments=[Argument(v["name"], Variable(k)) for k, v in formatted_variables.items()],
                        selection_set=SelectionSet(_build_selections(idx, used)) if _subfields or _inline_fragments else None)
        _build_selections(idx, used):  [s.to_ast(idx, used) for s in _subfields]
              + [InlineFragment(T, [s.to_ast(idx, used) for s in subs]) for T, subs in _inline_fragments.items()]
        get_formatted_variables():
              d = self.formatted_variables.copy()
              for s in _subfields:            d.update(s.get_formatted_variables())
              for subs in _inline_fragments.values():
                  for s in subs:              d.update(s.get_formatted_variables())
              return d                         # (since dfbc7ef; before, the recursive result was discarded
                                               #  and only depth <= 2 survived - finding C14-F2, fixed)

  generated classes (custom_fields.py / custom_typing_fields.py / custom_queries.py / custom_mutations.py)

      class XFields(GraphQLField):
          leaf: "XGraphQLField" = XGraphQLField("orgName")          # class-level, ONE shared object
          @classmethod
          def method(cls, req, *, opt=None) -> "YFields":            # a fresh object per call
              arguments = {"argName": {"type": "T!", "value": req}, ...}
              cleared_arguments = {k: v for k, v in arguments.items() if v["value"] is not None}
              return YFields("python_name", arguments=cleared_arguments)
          def fields(self, *subfields): self._subfields.extend(subfields); return self
          def alias(self, alias):       self._alias = alias; return self
          def on(self, type_name, *subfields): self._inline_fragments[type_name] = subfields; return self   # Interface/Union

  generated client (client_generators/client.py: create_*_method)

      execute_custom_operation(*fields, operation_type, operation_name):
          selections = [field.to_ast(idx) for idx, field in enumerate(fields)]      # fresh `used` set per top-level field
          for field in fields: fv = field.get_formatted_variables()
                               types.update({k: v["type"]}); values.update({k: v["value"]})
          variable_definitions = [VariableDefinition(Variable(k), NamedType(Name(t))) for k, t in types.items()]
          Document([OperationDefinition(operation_type, Name(operation_name), variable_definitions, SelectionSet(selections))])
          self.execute(print_ast(doc), variables=values, operation_name=operation_name)

  Representation
  --------------
  The Python heap is split in two.  Objects returned by a generated *classmethod* are fresh and, in a
  tree-shaped builder expression, referenced exactly once: they are kept BY VALUE inside their unique
  owner (`Node.obj`).  Class-level objects are shared by every expression and every operation of the
  process: they live in the `Store` (object id ↦ record) and are referenced BY ID (`Node.ref id`), so
  that aliasing and history are expressible (an `alias`/`on` applied to a reference mutates the store
  entry, and every later use of the same accessor sees it).  `to_ast` writes `formatted_variables`
  back into the objects it visits; the model returns the updated node / store.

  A cycle through shared objects (`UserFields.pet.on("Dog", DogFields.owner().fields(UserFields.pet))`)
  makes the real `to_ast` raise RecursionError; the model's fuel (= number of nodes reachable + 1) runs
  out exactly then (`Err.recursion`).

  Ghost data: `Rec.gqlName`, `Var.exactTy` (what the schema says) are carried along for the statement of
  the property only; no model function reads them when producing a document.
-/
import AriadneModel.Model.Json

namespace Ariadne.Builder
open Ariadne

inductive Err where
  | recursion                 -- RecursionError (cyclic object graph)
  | attribute                 -- AttributeError (no such accessor / no `fields` / no `on` on that class)
  | typeErr                   -- TypeError (bad keyword arguments, calling a non-callable)
  | internal (what : String)  -- model-internal guard, proved/argued unreachable
  deriving Repr, DecidableEq

/-- one entry of `_variables`: `key -> {"type": ty, "value": value}` (+ ghost exact type) -/
structure Var where
  key : String
  ty : String
  value : J
  exactTy : String := ""
  deriving Repr

/-- one entry of `formatted_variables`: `uname -> {"name": key, "type": ty, "value": value}` -/
structure FVar where
  uname : String
  key : String
  ty : String
  value : J
  deriving Repr

structure Rec where
  cls : String
  fieldName : String
  gqlName : String := ""
  vars : List Var := []
  formatted : List FVar := []
  alias : Option String := none
  deriving Repr

mutual
  inductive Node where
    | obj (r : Rec) (subs : List Node) (frags : List Frag)
    | ref (id : Nat)
  inductive Frag where
    | mk (ty : String) (nodes : List Node)
end

abbrev Store := List Node

/-- document IR: a selection -/
inductive Sel where
  | field (alias : Option String) (name : String) (args : List (String × String)) (hasSet : Bool) (sels : List Sel)
  | frag (ty : String) (sels : List Sel)

structure Doc where
  opType : String
  name : String
  varDefs : List (String × String)        -- variable name, type string as put into NamedTypeNode
  sels : List Sel
  values : List (String × J)              -- the `variables` mapping passed to `execute`

/-! ### `_format_variable_name` -/

/-- the k-th name tried by the loop: `base`, `base_1`, `base_2`, … -/
def candidate (base : String) : Nat → String
  | 0 => base
  | k + 1 => base ++ "_" ++ toString (k + 1)

/-- the `while unique_name in used_names` loop, `fuel` iterations starting at candidate `k` -/
def firstFree (base : String) (used : List String) : Nat → Nat → Option String
  | 0, _ => none
  | fuel + 1, k =>
    if candidate base k ∈ used then firstFree base used fuel (k + 1) else some (candidate base k)

/-- `_format_variable_name(idx, var_name, used_names)`; the set is a list used for membership, the new
    name is appended.  `|used| + 1` candidates always contain a free one (pigeonhole), so the error
    branch is unreachable (`Proofs`: `formatVarName_ok`). -/
def formatVarName (idx : Nat) (varName : String) (used : List String) : Except Err (String × List String) :=
  match firstFree (varName ++ "_" ++ toString idx) used (used.length + 1) 0 with
  | some u => .ok (u, used ++ [u])
  | none => .error (.internal "_format_variable_name: no free name")

/-- `_collect_all_variables` -/
def collectVars (idx : Nat) : List Var → List String → Except Err (List FVar × List String)
  | [], used => .ok ([], used)
  | v :: vs, used =>
    match formatVarName idx v.key used with
    | .error e => .error e
    | .ok (u, used1) =>
      match collectVars idx vs used1 with
      | .error e => .error e
      | .ok (fs, used2) => .ok ({ uname := u, key := v.key, ty := v.ty, value := v.value } :: fs, used2)

/-! ### `to_ast` -/

abbrev Visit := Store → List String → Node → Except Err (Sel × Node × Store × List String)

/-- `[s.to_ast(idx, used) for s in nodes]`, threading store and used-names -/
def mapAcc (f : Visit) : Store → List String → List Node → Except Err (List Sel × List Node × Store × List String)
  | st, used, [] => .ok ([], [], st, used)
  | st, used, n :: ns =>
    match f st used n with
    | .error e => .error e
    | .ok (s, n', st1, u1) =>
      match mapAcc f st1 u1 ns with
      | .error e => .error e
      | .ok (ss, ns', st2, u2) => .ok (s :: ss, n' :: ns', st2, u2)

/-- the loop over `_inline_fragments.items()` -/
def mapFrags (f : Visit) : Store → List String → List Frag → Except Err (List Sel × List Frag × Store × List String)
  | st, used, [] => .ok ([], [], st, used)
  | st, used, .mk ty ns :: fs =>
    match mapAcc f st used ns with
    | .error e => .error e
    | .ok (ss, ns', st1, u1) =>
      match mapFrags f st1 u1 fs with
      | .error e => .error e
      | .ok (rest, fs', st2, u2) => .ok (.frag ty ss :: rest, .mk ty ns' :: fs', st2, u2)

/-- `_build_field_name` keeps the alias only when it is truthy -/
def aliasOf : Option String → Option String
  | some a => if a = "" then none else some a
  | none => none

def toAst : Nat → Nat → Visit
  | 0, _, _, _, _ => .error .recursion
  | fuel + 1, idx, st, used, .obj r subs frags =>
    match collectVars idx r.vars used with
    | .error e => .error e
    | .ok (fv, u1) =>
      match mapAcc (toAst fuel idx) st u1 subs with
      | .error e => .error e
      | .ok (ss, subs', st1, u2) =>
        match mapFrags (toAst fuel idx) st1 u2 frags with
        | .error e => .error e
        | .ok (fs, frags', st2, u3) =>
          .ok (.field (aliasOf r.alias) r.fieldName (fv.map fun v => (v.key, v.uname))
                 (!(subs.isEmpty && frags.isEmpty)) (ss ++ fs),
               .obj { r with formatted := fv } subs' frags', st2, u3)
  | fuel + 1, idx, st, used, .ref id =>
    match st[id]? with
    | none => .error (.internal "dangling shared object id")
    | some n =>
      match toAst fuel idx st used n with
      | .error e => .error e
      | .ok (s, n', st1, u1) => .ok (s, .ref id, st1.set id n', u1)

/-! ### `get_formatted_variables`, `_combine_variables` -/

/-- `d.update({x.uname: ...})` on an insertion-ordered dict -/
def dictUpdate (d : List FVar) (x : FVar) : List FVar :=
  if d.any (fun y => y.uname == x.uname) then d.map (fun y => if y.uname == x.uname then x else y)
  else d ++ [x]

def dictUpdateAll (d : List FVar) (xs : List FVar) : List FVar := xs.foldl dictUpdate d

abbrev GVisit := Node → Except Err (List FVar)

/-- `for s in nodes: d.update(s.get_formatted_variables())` -/
def gfvList (f : GVisit) : List FVar → List Node → Except Err (List FVar)
  | d, [] => .ok d
  | d, n :: ns =>
    match f n with
    | .error e => .error e
    | .ok x => gfvList f (dictUpdateAll d x) ns

/-- the loop over `_inline_fragments.values()` -/
def gfvFrags (f : GVisit) : List FVar → List Frag → Except Err (List FVar)
  | d, [] => .ok d
  | d, .mk _ ns :: fs =>
    match gfvList f d ns with
    | .error e => .error e
    | .ok d1 => gfvFrags f d1 fs

/-- `get_formatted_variables()`: own `formatted_variables`, then - recursively - those of every sub-field
    and of every member of every inline fragment, merged with `dict.update`.  The recursion follows
    references into the store, hence the fuel (same accounting as `toAst`: it runs out only on a cyclic
    object graph, on which `to_ast` has already raised RecursionError). -/
def getFormatted : Nat → Store → GVisit
  | 0, _, _ => .error .recursion
  | fuel + 1, st, .obj r subs frags =>
    match gfvList (getFormatted fuel st) r.formatted subs with
    | .error e => .error e
    | .ok d1 => gfvFrags (getFormatted fuel st) d1 frags
  | fuel + 1, st, .ref id =>
    match st[id]? with
    | none => .error (.internal "dangling shared object id")
    | some n => getFormatted fuel st n

/-- `_combine_variables`: `for field in fields: fv = field.get_formatted_variables(); ….update(fv)` -/
def combine (fuel : Nat) (st : Store) (nodes : List Node) : Except Err (List FVar) :=
  gfvList (getFormatted fuel st) [] nodes

/-! ### the client: `_build_selection_set`, `execute_custom_operation` -/

mutual
  def Node.size : Node → Nat
    | .obj _ subs frags => 1 + Node.sizeList subs + Frag.sizeList frags
    | .ref _ => 1
  def Node.sizeList : List Node → Nat
    | [] => 0
    | n :: ns => Node.size n + Node.sizeList ns
  def Frag.sizeList : List Frag → Nat
    | [] => 0
    | .mk _ ns :: fs => Node.sizeList ns + Frag.sizeList fs
end

def buildSelections (fuel : Nat) : Nat → Store → List Node → Except Err (List Sel × List Node × Store)
  | _, st, [] => .ok ([], [], st)
  | idx, st, n :: ns =>
    match toAst fuel idx st [] n with
    | .error e => .error e
    | .ok (s, n', st1, _) =>
      match buildSelections fuel (idx + 1) st1 ns with
      | .error e => .error e
      | .ok (ss, ns', st2) => .ok (s :: ss, n' :: ns', st2)

def opFuel (st : Store) (nodes : List Node) : Nat := Node.sizeList st + Node.sizeList nodes + 1

def execOp (opType name : String) (st : Store) (nodes : List Node) : Except Err (Doc × Store) :=
  match buildSelections (opFuel st nodes) 0 st nodes with
  | .error e => .error e
  | .ok (sels, nodes', st') =>
    match combine (opFuel st nodes) st' nodes' with
    | .error e => .error e
    | .ok fv =>
      .ok ({ opType := opType, name := name, varDefs := fv.map fun v => (v.uname, v.ty), sels := sels,
             values := fv.map fun v => (v.uname, v.value) }, st')

/-- what `execute_custom_operation` hands to `self.execute`:
      self.execute(print_ast(operation_ast), variables=combined_variables["values"], operation_name=operation_name)
    (the document is printed by graphql-core; the JSON body built from these three is the base client's, C11) -/
structure Request where
  query : Doc
  variables : List (String × J)
  operationName : String

def Doc.request (d : Doc) : Request := { query := d, variables := d.values, operationName := d.name }

/-! ### generated accessors and builder expressions -/

structure ArgSpec where
  key : String          -- GraphQL argument name (dict key, used as the document's argument name)
  ty : String           -- the "type" string the generator recorded
  param : String        -- python parameter name
  required : Bool       -- positional (no default) vs keyword-only `= None`
  exactTy : String := ""  -- ghost: exact GraphQL type of the argument
  deriving Repr

inductive AccKind where
  | shared   -- class-level attribute holding ONE GraphQLField object
  | method   -- classmethod returning a fresh object per call
  deriving Repr, DecidableEq

structure Accessor where
  attr : String         -- python attribute name on the class
  kind : AccKind
  cls : String          -- class of the object it yields
  fieldName : String    -- the constant passed as `field_name`
  args : List ArgSpec
  gqlName : String := ""  -- ghost: GraphQL name of the schema field
  deriving Repr

structure ClassDef where
  name : String
  accessors : List Accessor
  hasFields : Bool
  hasOn : Bool
  hasAlias : Bool
  deriving Repr

structure Package where
  classes : List ClassDef
  deriving Repr

def Package.findClass (p : Package) (c : String) : Option ClassDef := p.classes.find? (·.name == c)
def ClassDef.findAcc (c : ClassDef) (a : String) : Option Accessor := c.accessors.find? (·.attr == a)

/-- all class-level objects, in definition order; the position is the object id -/
def Package.sharedList (p : Package) : List (String × Accessor) :=
  p.classes.flatMap fun c => (c.accessors.filter (·.kind == .shared)).map fun a => (c.name, a)

def Package.sharedId (p : Package) (cls attr : String) : Option Nat :=
  let l := p.sharedList
  let i := l.findIdx (fun ca => ca.1 == cls && ca.2.attr == attr)
  if i < l.length then some i else none

/-- the state of the process right after importing the generated package -/
def Package.initStore (p : Package) : Store :=
  p.sharedList.map fun ca => .obj { cls := ca.2.cls, fieldName := ca.2.fieldName, gqlName := ca.2.gqlName } [] []

inductive Expr where
  | attr (cls a : String)                           -- `Cls.a`
  | call (cls a : String) (kw : List (String × J))  -- `Cls.a(**kw)`   (J.null = None)
  | alias (e : Expr) (al : String)                  -- `e.alias(al)`
  | fields (e : Expr) (cs : List Expr)              -- `e.fields(*cs)`
  | on (e : Expr) (ty : String) (cs : List Expr)    -- `e.on(ty, *cs)`

def lookupKw (k : String) : List (String × J) → Option J
  | [] => none
  | (k', v) :: rest => if k' = k then some v else lookupKw k rest

/-- binding `**kw` to the generated signature, then `arguments` / `cleared_arguments` -/
def bindArgs (specs : List ArgSpec) (kw : List (String × J)) : Except Err (List Var) :=
  if kw.any (fun kv => !(specs.any (fun s => s.param == kv.1))) then .error .typeErr          -- unexpected keyword
  else if specs.any (fun s => s.required && (lookupKw s.param kw).isNone) then .error .typeErr -- missing positional
  else
    .ok (specs.filterMap fun s =>
      match (lookupKw s.param kw).getD .null with
      | .null => none
      | v => some { key := s.key, ty := s.ty, value := v, exactTy := s.exactTy })

def mkNode (a : Accessor) (vars : List Var) : Node :=
  .obj { cls := a.cls, fieldName := a.fieldName, gqlName := a.gqlName, vars := vars } [] []

def nodeCls (st : Store) : Node → Option String
  | .obj r _ _ => some r.cls
  | .ref id =>
    match st[id]? with
    | some (.obj r _ _) => some r.cls
    | _ => none

def classHas (p : Package) (sel : ClassDef → Bool) (c : Option String) : Bool :=
  match c with
  | none => false
  | some c =>
    match p.findClass c with
    | some d => sel d
    | none => false

def setAlias (al : String) : Node → Node
  | .obj r subs frags => .obj { r with alias := some al } subs frags
  | n => n

def extendSubs (cs : List Node) : Node → Node
  | .obj r subs frags => .obj r (subs ++ cs) frags
  | n => n

/-- `_inline_fragments[ty] = cs` on an insertion-ordered dict -/
def setFragList (ty : String) (cs : List Node) : List Frag → List Frag
  | [] => [.mk ty cs]
  | .mk t ns :: fs => if t = ty then .mk ty cs :: fs else .mk t ns :: setFragList ty cs fs

def setFrag (ty : String) (cs : List Node) : Node → Node
  | .obj r subs frags => .obj r subs (setFragList ty cs frags)
  | n => n

/-- apply a mutation to the object a node denotes (in place for owned objects, in the store for shared) -/
def mutate (f : Node → Node) (n : Node) (st : Store) : Node × Store :=
  match n with
  | .obj r subs frags => (f (.obj r subs frags), st)
  | .ref id =>
    match st[id]? with
    | some o => (.ref id, st.set id (f o))
    | none => (.ref id, st)

mutual
  /-- Python evaluation order: receiver, attribute lookup, arguments left to right, call. -/
  def evalExpr (p : Package) : Expr → Store → Except Err Node × Store
    | .attr cls a, st =>
      match p.findClass cls with
      | none => (.error .attribute, st)
      | some c =>
        match c.findAcc a with
        | none => (.error .attribute, st)
        | some acc =>
          match acc.kind with
          | .method => (.error (.internal "bound method used as a field"), st)
          | .shared =>
            match p.sharedId cls a with
            | some id => (.ok (.ref id), st)
            | none => (.error (.internal "shared accessor without id"), st)
    | .call cls a kw, st =>
      match p.findClass cls with
      | none => (.error .attribute, st)
      | some c =>
        match c.findAcc a with
        | none => (.error .attribute, st)
        | some acc =>
          match acc.kind with
          | .shared => (.error .typeErr, st)        -- 'XGraphQLField' object is not callable
          | .method =>
            match bindArgs acc.args kw with
            | .error e => (.error e, st)
            | .ok vars => (.ok (mkNode acc vars), st)
    | .alias e al, st =>
      match evalExpr p e st with
      | (.error x, st1) => (.error x, st1)
      | (.ok n, st1) =>
        if classHas p (·.hasAlias) (nodeCls st1 n) then
          let (n', st2) := mutate (setAlias al) n st1
          (.ok n', st2)
        else (.error .attribute, st1)
    | .fields e cs, st =>
      match evalExpr p e st with
      | (.error x, st1) => (.error x, st1)
      | (.ok n, st1) =>
        if classHas p (·.hasFields) (nodeCls st1 n) then
          match evalList p cs st1 with
          | (.error x, st2) => (.error x, st2)
          | (.ok ns, st2) =>
            let (n', st3) := mutate (extendSubs ns) n st2
            (.ok n', st3)
        else (.error .attribute, st1)
    | .on e ty cs, st =>
      match evalExpr p e st with
      | (.error x, st1) => (.error x, st1)
      | (.ok n, st1) =>
        if classHas p (·.hasOn) (nodeCls st1 n) then
          match evalList p cs st1 with
          | (.error x, st2) => (.error x, st2)
          | (.ok ns, st2) =>
            let (n', st3) := mutate (setFrag ty ns) n st2
            (.ok n', st3)
        else (.error .attribute, st1)
  def evalList (p : Package) : List Expr → Store → Except Err (List Node) × Store
    | [], st => (.ok [], st)
    | e :: es, st =>
      match evalExpr p e st with
      | (.error x, st1) => (.error x, st1)
      | (.ok n, st1) =>
        match evalList p es st1 with
        | (.error x, st2) => (.error x, st2)
        | (.ok ns, st2) => (.ok (n :: ns), st2)
end

/-- one call `client.query(*fields, operation_name=name)` / `client.mutation(...)` -/
structure Op where
  opType : String
  name : String
  fields : List Expr

/-- An operation either sends a document or raises; either way the process state carries on. -/
def runOp (p : Package) (op : Op) (st : Store) : Except Err Doc × Store :=
  match evalList p op.fields st with
  | (.error x, st1) => (.error x, st1)
  | (.ok nodes, st1) =>
    match execOp op.opType op.name st1 nodes with
    | .error x => (.error x, st1)
    | .ok (d, st2) => (.ok d, st2)

/-- a whole history, from the state after import -/
def runOpsFrom (p : Package) : List Op → Store → List (Except Err Doc)
  | [], _ => []
  | op :: ops, st =>
    let (r, st1) := runOp p op st
    r :: runOpsFrom p ops st1

def runOps (p : Package) (ops : List Op) : List (Except Err Doc) := runOpsFrom p ops p.initStore

end Ariadne.Builder
