/-
  Model/Package.lean — the COMPOSITION: `PackageGenerator` (client_generators/package.py),
  `InitFileGenerator` (init_file.py), `EnumsGenerator` (enums.py), the import lists of every emitted
  module, `main.client`'s driving loop, and `utils.ast_to_str` as an abstract formatter (property C04).

  Everything below is BUILT ON the component models and changes none of them:
    Model/ResultTypes.lean   one `ResultTypesGenerator` (classes, rebuild calls, used enums / scalars, mixins)
    Model/Fragments.lean     `FragmentsGenerator.generate` (order, classes, rebuild calls of fragments.py)
    Model/ClientMethod.lean  `ClientGenerator.add_method` / `ArgumentsGenerator.generate` (signatures)
    Model/InputField.lean    the classes of input_types.py;  Model/Prune.lean: which of them are kept
    Model/Names.lean         `process_name` (method = module = file name), `str_to_pascal_case`
    Model/Scalars.lean       `generate_scalar_imports`

  Modelled Python, quoted next to each definition:
    package.py    PackageGenerator.__init__ (files_to_include, base_operation.py), add_operation,
                  generate (order!), _include_exceptions, _validate_unique_file_names, _generate_*,
                  _copy_files, `_generated_files` and the returned `sorted(...)`
    init_file.py  InitFileGenerator.add_import / generate
    enums.py      EnumsGenerator (class per enum, `name if not iskeyword(name) else name + "_"`)
    result_types.py / input_types.py / client.py   the `_imports` lists
    codegen.py    model_has_forward_refs (rebuild placement)
    main.py       client(): `for query in queries: add_operation(query)`, then `generate()`
    utils.py      ast_to_str = unparse → autoflake (remove unused imports; NOT for __init__) → isort → black.
                  The formatter is a PARAMETER (`FmtOracle`): deterministic, semantics preserving, and it may
                  refuse its input (`black.InvalidInput`, an undocumented exception) — that is how several
                  findings surface.  What autoflake does to the import list is modelled (`effectiveImports`).

  The result is a package-level IR (`PackageIR`): per module its imports, class statements (name, bases,
  names evaluated when the statement runs, quoted forward references, field / member names), methods of the
  client class, `model_rebuild()` calls and `__all__`; plus the file write log and the reported list.
  `Run.written` is kept also when generation fails, so that "refused before any write" can be stated.

  Core Lean only (the driver links this file).
-/
import AriadneModel.Model.ResultTypes
import AriadneModel.Model.Fragments
import AriadneModel.Model.ClientMethod
import AriadneModel.Model.InputField
import AriadneModel.Model.Prune
import AriadneModel.Model.Scalars
import AriadneModel.Generated.Tables

namespace Ariadne.Package
open Ariadne Ariadne.Gql Ariadne.Util
open Ariadne.ResultTypes (GenErr ModuleOut pascal)

/-! ### configuration (`ClientSettings` as `get_package_generator` reads it) -/

structure Config where
  clientName : String := "Client"
  clientFile : String := "client"                       -- client_file_name
  baseClientName : String := "AsyncBaseClient"
  baseClientFile : String := "async_base_client.py"     -- Path(base_client_file_path).name
  /-- `self.base_client_file_path in (the four DEFAULT_*_PATH)`: a comparison of whole paths -/
  defaultBaseClient : Bool := true
  enumsModule : String := "enums"
  inputsModule : String := "input_types"
  fragmentsModule : String := "fragments"
  async : Bool := true
  snake : Bool := true
  allInputs : Bool := true
  allEnums : Bool := true
  customOps : Bool := false
  filesToInclude : List String := []                    -- `Path(f).name` of every configured file
  scalars : Scalars.ScalarCfg := []
  /-- `ExtractOperationsPlugin` enabled: the name of its operations module (`operations` by default) -/
  extractOps : Option String := none
  deriving Repr

/-- one operation as `main.client` hands it to `add_operation` -/
structure OpIn where
  op : Operation
  vars : List Arguments.VarDef := []
  text : String := ""              -- the printed operation (only the text triggers look at it)
  deriving Repr

/-- the whole input.  `schema` and `defs` describe the same `type_map` in the vocabularies of the
    result-type model and of the input-type model (the harness derives both from one graphql-core schema). -/
structure Input where
  schema : Schema
  frags : List Fragment
  ops : List OpIn
  defs : List InputGen.TypeDef
  deriving Repr

/-! ### the package IR -/

/-- `ast.ImportFrom` -/
structure Import where
  level : Nat
  module : String
  names : List String
  deriving Repr, DecidableEq, Inhabited

/-- a class statement, as far as scoping is concerned -/
structure ClassIR where
  name : String
  bases : List String
  fields : List String := []      -- annotated fields / enum members, in order
  uses : List String := []        -- names evaluated when the class statement executes (annotations, defaults)
  fwd : List String := []         -- quoted forward references (resolved when `model_rebuild()` runs)
  /-- names mentioned only inside a `lambda:` body (`Field(default_factory=lambda: …)`): pyflakes counts them as uses
      (autoflake keeps their import), CPython evaluates them when the factory is CALLED, not when the class statement runs -/
  lazy : List String := []
  deriving Repr, DecidableEq, Inhabited

/-- a method of the client class -/
structure MethodIR where
  name : String
  params : List String            -- `self`, the variables, `kwargs`
  uses : List String := []        -- names evaluated when the `def` executes (annotations, defaults)
  deriving Repr, DecidableEq, Inhabited

inductive ModKind where
  | result | fragments | inputs | enums | client | init
  | copied      -- a file copied verbatim (base client, base_model.py, exceptions.py, files_to_include …)
  | custom      -- custom_queries.py / custom_mutations.py / custom_fields.py / custom_typing_fields.py (Model/CustomGen.lean, C14)
  deriving Repr, DecidableEq, Inhabited

structure ModuleIR where
  file : String
  kind : ModKind
  imports : List Import := []     -- as handed to the formatter
  prune : Bool := true            -- `remove_unused_imports` (false for `__init__`)
  funcs : List String := []       -- module-level functions (`gql`)
  classes : List ClassIR := []
  methods : List MethodIR := []   -- methods of the client class (the last class of a client module)
  rebuilds : List String := []
  all : Option (List String) := none
  /-- copied modules: the names the generator relies on them to define (`none`: unknown, user file) -/
  provides : Option (List String) := some []
  deriving Repr, Inhabited

structure PackageIR where
  modules : List ModuleIR         -- one per file on disk (a file written twice: the last content)
  writeLog : List String          -- `_generated_files`, in write order
  reported : List String          -- what `generate()` returns
  extraWrites : List String := [] -- files written by a plugin behind the generator's back
  deriving Repr

/-- what a run leaves behind, also when it fails -/
structure Run where
  mkdir : Bool := false
  written : List String := []
  outcome : Except GenErr PackageIR

/-- `utils.ast_to_str` may refuse a module (black.InvalidInput): `true` = formatted -/
abbrev FmtOracle := ModuleIR → Bool

/-! ### small helpers -/

/-- `Path(name).stem` -/
def stem (f : String) : String :=
  let b := Scalars.beforeLastDot f.toList
  if b.isEmpty then f else String.ofList b

def pyFile (moduleName : String) : String := moduleName ++ ".py"

/-- `from .x.y import n` is emitted by `generate_import_from(names, from_=".x.y")` with level 0 and the dots
    inside the module string; the unparsed text is the same as `level = #dots` -/
def normImport (i : Import) : Import :=
  let dots := (i.module.toList.takeWhile (· == '.')).length
  ⟨i.level + dots, String.ofList (i.module.toList.dropWhile (· == '.')), i.names⟩

def ofScalarImport (i : Scalars.Import) : Import := ⟨0, i.module, i.names⟩

def scalarImportsOf (cfg : Config) (used : List String) : List Import :=
  used.flatMap fun n => match Scalars.lookupScalar cfg.scalars n with
    | some d => (Scalars.scalarImports d).map ofScalarImport
    | none => []

/-- names bound by the import statements of a module -/
def importedNames (is : List Import) : List String := is.flatMap (·.names)

def ModuleIR.usedNames (m : ModuleIR) : List String :=
  m.classes.flatMap (fun c => c.bases ++ c.uses ++ c.fwd ++ c.lazy) ++ m.methods.flatMap (·.uses) ++ m.rebuilds

/-- autoflake `remove_all_unused_imports`: an imported name survives iff the module mentions it
    (pyflakes also reads quoted annotations, hence `fwd`) - or REDEFINES it by a class / function statement
    (pyflakes reports that as a redefinition, not as an unused import, and autoflake leaves it alone) -/
def ModuleIR.effectiveImports (m : ModuleIR) : List Import :=
  let is := m.imports.map normImport
  let keep := m.usedNames ++ m.classes.map (·.name) ++ m.funcs
  if m.prune then
    (is.map fun i => { i with names := i.names.filter keep.contains }).filter (!·.names.isEmpty)
  else is

/-- the names a module binds at top level -/
def ModuleIR.defines (m : ModuleIR) : List String :=
  importedNames m.effectiveImports ++ m.funcs ++ m.classes.map (·.name)

/-! ### result-type modules (one per operation; fragments.py) -/

mutual
  def annUses : ResultTypes.Ann → List String
    | .name n => [n]
    | .cls _ => []
    | .optional a => "Optional" :: annUses a
    | .list a => "List" :: annUses a
    | .union as => "Union" :: annsUses as
    | .disc a => "Annotated" :: "Field" :: annUses a
    | .literal _ => ["Literal"]
    | .before t p => ["Annotated", "BeforeValidator", t, p]
  def annsUses : List ResultTypes.Ann → List String
    | [] => []
    | a :: as => annUses a ++ annsUses as
end

mutual
  def annFwd : ResultTypes.Ann → List String
    | .cls n => [n]
    | .optional a => annFwd a
    | .list a => annFwd a
    | .union as => annsFwd as
    | .disc a => annFwd a
    | .name _ => []
    | .literal _ => []
    | .before _ _ => []
  def annsFwd : List ResultTypes.Ann → List String
    | [] => []
    | a :: as => annFwd a ++ annsFwd as
end

/-- `model_has_forward_refs` (codegen.py): the class mentions a quoted name outside `Literal[...]`
    (the same predicate as `ResultTypes.classHasForwardRefs`, by structural recursion so that the kernel evaluates it) -/
def classHasFwd (c : ResultTypes.ClassDecl) : Bool := c.fields.any fun f => !(annFwd f.ann).isEmpty

def fieldUses (f : ResultTypes.FieldDecl) : List String :=
  annUses f.ann ++ (if f.alias.isSome || f.discriminator then ["Field"] else [])

def resultClassIR (c : ResultTypes.ClassDecl) : ClassIR :=
  { name := c.name, bases := c.bases, fields := c.fields.map (·.py),
    uses := c.fields.flatMap fieldUses, fwd := c.fields.flatMap fun f => annFwd f.ann }

/-- `ResultTypesGenerator.__init__`: the three fixed imports -/
def resultBaseImports : List Import :=
  [⟨0, "typing", ["Optional", "Union", "Any", "List", "Literal", "Annotated"]⟩,
   ⟨0, "pydantic", ["Field", "BeforeValidator"]⟩,
   ⟨1, "base_model", ["BaseModel"]⟩]

/--
```python
# _get_extra_bases_from_mixin_directives: self._imports.append(generate_import_from([import], from_))
def _add_enums_scalars_fragments_imports(self):
    if self._used_enums: self._imports.append(generate_import_from(self._used_enums, self.enums_module_name, 1))
    for scalar_name in self._used_scalars: self._imports.extend(generate_scalar_imports(self.custom_scalars[scalar_name]))
    if isinstance(self.operation_definition, OperationDefinitionNode) and self._fragments_used_as_mixins and self.fragments_module_name:
        self._imports.append(generate_import_from([str_to_pascal_case(f) for f in self._fragments_used_as_mixins], self.fragments_module_name, 1))
```
-/
def generatorImports (cfg : Config) (isOp : Bool) (st : ResultTypes.St) : List Import :=
  resultBaseImports
  ++ st.mixinImports.map (fun (fr, im) => (⟨0, fr, [im]⟩ : Import))
  ++ (if st.usedEnums.isEmpty then [] else [⟨1, cfg.enumsModule, st.usedEnums⟩])
  ++ scalarImportsOf cfg st.usedScalars
  ++ (if isOp && !st.mixins.isEmpty then [⟨1, cfg.fragmentsModule, st.mixins.map pascal⟩] else [])

/-- the module `ResultTypesGenerator.generate()` returns for an operation -/
def resultModule (cfg : Config) (file : String) (out : ModuleOut) : ModuleIR :=
  { file := file, kind := .result, imports := generatorImports cfg true out.st,
    classes := out.classes.map resultClassIR,
    -- `generate()`: `model_rebuild()` for every class with a forward reference, in class order
    rebuilds := (out.classes.filter classHasFwd).map (·.name) }

/-! ### enums.py -/

/-- `name = val_name if not iskeyword(val_name) else val_name + "_"` -/
def enumMember (v : String) : String := if Tables.kwlist.contains v then v ++ "_" else v

def schemaEnums (s : Schema) : List TypeDef := s.types.filter (·.kind == .enum)

def enumClassIR (t : TypeDef) : ClassIR :=
  { name := t.name, bases := ["str", "Enum"], fields := t.values.map enumMember }

/--
```python
def _generate_enums(self):
    module = self.enums_generator.generate() if self.include_all_enums else self.enums_generator.generate(types_to_include=self._used_enums)
# EnumsGenerator._filter_class_defs: [c for c in self._class_defs if c.name in types_to_include]
```
-/
def enumsModule (cfg : Config) (s : Schema) (usedEnums : List String) : ModuleIR :=
  let all := schemaEnums s
  let kept := if cfg.allEnums then all else all.filter fun t => usedEnums.contains t.name
  { file := pyFile cfg.enumsModule, kind := .enums, imports := [⟨0, "enum", ["Enum"]⟩], classes := kept.map enumClassIR }

/-! ### input_types.py -/

def inputCfg (cfg : Config) : InputField.Cfg :=
  { snake := cfg.snake,
    scalars := cfg.scalars.map fun (n, d) => ⟨n, d.typeName, d.serializeName⟩ }

def inAnnUses : InputField.Ann → List String
  | .name s => [s]
  | .fwd _ => []
  | .optional a => "Optional" :: inAnnUses a
  | .list a => "List" :: inAnnUses a
  | .annotated ty ser => ["Annotated", "PlainSerializer", ty, ser]

def inAnnFwd : InputField.Ann → List String
  | .fwd s => [s]
  | .optional a => inAnnFwd a
  | .list a => inAnnFwd a
  | _ => []

/-- `Color.RED` evaluates the name `Color` -/
def dottedHead (s : String) : String := String.ofList (s.toList.takeWhile (· != '.'))

mutual
  def exprUses : InputGen.PyExpr → List String
    | .name s => [dottedHead s]
    | .list xs => exprsUses xs
    | .dict kvs => kvsUses kvs
    | .fieldFactory b => "Field" :: exprUses b
    | .fieldFactoryModel _ a => "Field" :: exprUses a
    | _ => []
  def exprsUses : List InputGen.PyExpr → List String
    | [] => []
    | x :: xs => exprUses x ++ exprsUses xs
  def kvsUses : List (String × InputGen.PyExpr) → List String
    | [] => []
    | (_, v) :: rest => exprUses v ++ kvsUses rest
end

mutual
  /-- names an emitted default expression evaluates when the class statement executes: everything outside `lambda:` bodies -/
  def exprEager : InputGen.PyExpr → List String
    | .name s => [dottedHead s]
    | .list xs => exprsEager xs
    | .dict kvs => kvsEager kvs
    | .fieldFactory _ => ["Field"]
    | .fieldFactoryModel _ _ => ["Field"]
    | _ => []
  def exprsEager : List InputGen.PyExpr → List String
    | [] => []
    | x :: xs => exprEager x ++ exprsEager xs
  def kvsEager : List (String × InputGen.PyExpr) → List String
    | [] => []
    | (_, v) :: rest => exprEager v ++ kvsEager rest
end

mutual
  /-- names an emitted default expression mentions inside `lambda:` bodies only -/
  def exprLazy : InputGen.PyExpr → List String
    | .list xs => exprsLazy xs
    | .dict kvs => kvsLazy kvs
    | .fieldFactory b => exprUses b
    | .fieldFactoryModel _ a => exprUses a
    | _ => []
  def exprsLazy : List InputGen.PyExpr → List String
    | [] => []
    | x :: xs => exprLazy x ++ exprsLazy xs
  def kvsLazy : List (String × InputGen.PyExpr) → List String
    | [] => []
    | (_, v) :: rest => exprLazy v ++ kvsLazy rest
end

/-- names the value of an emitted `AnnAssign` evaluates when the class statement runs -/
def valueUses : InputField.Value → List String
  | .absent => []
  | .expr e => exprEager e
  | .field _ .none => ["Field"]
  | .field _ (.default e) => "Field" :: exprEager e
  | .field _ (.factory _) => ["Field"]
  | .field _ (.factoryModel _ _) => ["Field"]

/-- names the value mentions inside a `lambda:` only.  The body of a `lambda:` is not evaluated when the class statement
    runs (`Field(default_factory=lambda: globals()["In2"].model_validate({"c": In2.B}))` imports whether or not `In2` is
    defined yet), but pyflakes counts it as a use (autoflake keeps the import). -/
def valueLazy : InputField.Value → List String
  | .absent => []
  | .expr e => exprLazy e
  | .field _ .none => []
  | .field _ (.default e) => exprLazy e
  | .field _ (.factory b) => exprUses b
  | .field _ (.factoryModel _ a) => exprUses a

def inputClassIR (c : InputField.ClassDecl) : ClassIR :=
  let fs := c.fields.filterMap id
  { name := c.name, bases := ["BaseModel"], fields := fs.map (·.py),
    uses := fs.flatMap fun f => inAnnUses f.ann ++ valueUses f.value,
    fwd := fs.flatMap fun f => inAnnFwd f.ann,
    lazy := fs.flatMap fun f => valueLazy f.value }

/-- the abstraction Model/Prune.lean works on, derived from the input definitions:
    `_save_dependencies(root_type, field_type)` classifies the named type of every field -/
def pruneRef (cfg : Config) (defs : List InputGen.TypeDef) (t : InputGen.TypeRef) : Option Prune.Ref :=
  let n := t.base
  match InputGen.findDef defs n with
  | some (.input _ _) => some (.input n)
  | some (.enum _ _) => some (.enum n)
  | some (.scalar _) =>
    -- `parse_input_field_type` returns field_type "" unless the scalar is configured
    if (Tables.inputScalarsMap.lookup n).isNone && (Scalars.lookupScalar cfg.scalars n).isSome then some (.scalar n) else none
  | _ => none

def pruneTable (cfg : Config) (defs : List InputGen.TypeDef) : List Prune.InputDef :=
  defs.filterMap fun
    | .input n fs => some { name := n, fields := fs.filterMap fun f => pruneRef cfg defs f.type }
    | _ => none

/-- `self._used_scalars` of the input generator: appended for every field of EVERY input type -/
def inputUsedScalars (tbl : List Prune.InputDef) : List String :=
  tbl.flatMap fun d => d.fields.filterMap fun | .scalar n => some n | _ => none

structure InputsOut where
  module : ModuleIR
  publicNames : List String
  usedEnums : List String

/--
```python
def _generate_input_types(self):
    module = self.input_types_generator.generate() if self.include_all_inputs else \
             self.input_types_generator.generate(types_to_include=self.client_generator.arguments_generator.get_used_inputs())
# InputTypesGenerator.generate: class_defs = self._filter_class_defs(types_to_include); _generated_public_names = names
#   imports + get_used_enums() import + scalar imports; model_rebuild() for every class with a forward reference
```
A field whose type is not an input type (`ParsingError("Invalid input field type.")`, raised while the
generator object is built) cannot occur for a schema graphql-core accepts.
-/
def inputsOut (cfg : Config) (tbl : List Prune.InputDef) (classes : List InputField.ClassDecl) (kept : List Prune.InputDef) : InputsOut :=
  let names := kept.map (·.name)
  let cs := classes.filter fun c => names.contains c.name
  let irs := cs.map inputClassIR
  let enums := Prune.inputsUsedEnums tbl names
  -- `if self._used_enums:` tests the DICT of all input types; the import lists `get_used_enums()` of the
  -- classes kept.  Some input type uses an enum but no kept class does: `from .enums import ` with no name
  -- is emitted - not Python, autoflake gives up (NO import is pruned), isort drops the broken line.
  let brokenEnumImport := enums.isEmpty && tbl.any fun d => !(Prune.enumRefs d).isEmpty
  let imports : List Import :=
    [⟨0, "typing", ["Optional", "Any", "Union", "List", "Annotated"]⟩, ⟨0, "pydantic", ["Field", "PlainSerializer"]⟩,
     ⟨1, "base_model", ["BaseModel"]⟩, ⟨1, "base_model", [Tables.uploadClassName]⟩]
    ++ (if enums.isEmpty then [] else [⟨1, cfg.enumsModule, enums⟩])
    ++ scalarImportsOf cfg (inputUsedScalars tbl)
  { module := { file := pyFile cfg.inputsModule, kind := .inputs, imports := imports, classes := irs,
                prune := !brokenEnumImport,
                rebuilds := (irs.filter fun c => !c.fwd.isEmpty).map (·.name) },
    publicNames := cs.map (·.name), usedEnums := enums }

def inputsModule (cfg : Config) (defs : List InputGen.TypeDef) (usedInputs : List String) : Except GenErr InputsOut :=
  if (InputField.classes (inputCfg cfg) defs).any (fun c => c.fields.any Option.isNone) then .error (.parsing "Invalid input field type.")
  else
    match Prune.filterInputDefs (pruneTable cfg defs) (if cfg.allInputs then none else some usedInputs) with
    | none => .error .fuel
    | some kept => .ok (inputsOut cfg (pruneTable cfg defs) (InputField.classes (inputCfg cfg) defs) kept)

/-! ### the client module -/

def leafUses : Scalars.Leaf → List String
  | .name n => [n]
  | .fwd _ => []
  | .before t p => ["Annotated", "BeforeValidator", t, p]
  | .ser t f => ["Annotated", "PlainSerializer", t, f]

def nannUses : Scalars.NAnn → List String
  | .leaf l o => (if o then ["Optional"] else []) ++ leafUses l
  | .list i o => (if o then ["Optional"] else []) ++ "List" :: nannUses i

def argUses (a : Arguments.Arg) : List String :=
  nannUses a.ann ++ (if a.optional then ["Union", "UnsetType", Tables.unsetName] else [])

def dictValUses : Arguments.DictVal → List String
  | .name _ => []
  | .call fn _ => [fn]

def methodIR (m : ClientMethod.Method) : MethodIR :=
  { name := m.name,
    params := m.argNames ++ [Tables.kwargsName],
    uses := m.out.params.flatMap argUses ++ ["Any", "Dict", "gql", m.returnType]
            ++ (if m.kind == .subscription then ["AsyncIterator"] else [])
            ++ m.out.dict.flatMap fun kv => dictValUses kv.2 }

/-- the methods `add_execute_custom_operation_method` / `create_custom_operation_method` append (fixed text) -/
def customMethods (hasQuery hasMutation : Bool) : List MethodIR :=
  let u := ["Any", "Dict", "List", "Tuple", "GraphQLField", "DocumentNode", "OperationDefinitionNode", "NameNode", "SelectionSetNode",
            "print_ast", "VariableDefinitionNode", "VariableNode", "NamedTypeNode", "SelectionNode"]
  [{ name := "execute_custom_operation", params := ["self", "fields", "operation_type", "operation_name"], uses := u },
   { name := "_combine_variables", params := ["self", "fields"], uses := [] },
   { name := "_build_variable_definitions", params := ["self", "variables_types_combined"], uses := [] },
   { name := "_build_operation_ast", params := ["self", "selections", "operation_type", "operation_name", "variable_definitions"], uses := [] },
   { name := "_build_selection_set", params := ["self", "fields"], uses := [] }]
  ++ (if hasQuery then [{ name := "query", params := ["self", "fields", "operation_name"], uses := ["OperationType"] }] else [])
  ++ (if hasMutation then [{ name := "mutation", params := ["self", "fields", "operation_name"], uses := ["OperationType"] }] else [])

def customClientImports (hasQuery hasMutation : Bool) : List Import :=
  [⟨0, "graphql", ["DocumentNode", "OperationDefinitionNode", "NameNode", "SelectionSetNode", "print_ast", "VariableDefinitionNode",
                   "VariableNode", "NamedTypeNode", "SelectionNode"]⟩,
   ⟨1, "base_operation", ["GraphQLField"]⟩,
   ⟨0, "typing", ["Dict", "Tuple", "List", "Any"]⟩]
  ++ (if hasQuery || hasMutation then [⟨0, "graphql", ["OperationType"]⟩] else [])

/-- what `add_operation` leaves in the client generator for one operation -/
structure ClientEntry where
  method : ClientMethod.Method
  module : String                -- `from .<module> import <ReturnType>`
  deriving Repr

/--
```python
# ClientGenerator.__init__: typing import, base_client_import, unset_import, upload_import
# add_method: ... self._add_import(generate_import_from(names=[return_type], from_=return_type_module, level=1))
# generate(): used inputs from the input types module, used enums from the enums module, scalar imports; gql(); class
# _add_import: `if import_.names and import_.module: self._imports.append(import_)`
```
The methods added for custom operations are appended by `PackageGenerator.generate` BEFORE `_generate_client`,
i.e. after all operation methods. -/
def clientModule (cfg : Config) (s : Schema) (entries : List ClientEntry) (argSt : Arguments.St) : ModuleIR :=
  let base : List Import :=
    [⟨0, "typing", ["Optional", "List", "Dict", "Any", "Union", "AsyncIterator"]⟩,
     ⟨1, stem cfg.baseClientFile, [cfg.baseClientName]⟩,
     ⟨1, "base_model", [Tables.unsetName, "UnsetType"]⟩,
     ⟨1, "base_model", [Tables.uploadClassName]⟩]
  let perOp := entries.map fun e => (⟨1, e.module, [e.method.returnType]⟩ : Import)
  let custom := if cfg.customOps then customClientImports s.query.isSome s.mutation.isSome else []
  let late : List Import :=
    [⟨1, cfg.inputsModule, argSt.usedInputs⟩, ⟨1, cfg.enumsModule, argSt.usedEnums⟩] ++ scalarImportsOf cfg argSt.usedScalars
  let methods := entries.map (fun e => methodIR e.method)
    ++ (if cfg.customOps then customMethods s.query.isSome s.mutation.isSome else [])
  { file := pyFile cfg.clientFile, kind := .client,
    imports := (base ++ perOp ++ custom ++ late).filter fun i => !i.names.isEmpty && i.module != "",
    funcs := ["gql"],
    classes := [{ name := cfg.clientName, bases := [cfg.baseClientName] }],
    methods := methods }

/-! ### `__init__.py` -/

/--
```python
def add_import(self, names, from_, level=0):
    if not names: return
    self.imports.append(generate_import_from(names=names, from_=from_, level=level))
```
-/
def initAdd (imports : List Import) (names : List String) (from_ : String) : List Import :=
  if names.isEmpty then imports else imports ++ [⟨1, from_, names⟩]

/--
```python
def generate(self):
    module = ast.Module(body=self.imports, type_ignores=[])
    if self.imports:
        constants_names = []
        for import_ in self.imports: constants_names.extend([n.name for n in import_.names])
        constants_names.sort()
        module.body.append(__all__ = [...constants_names...])
```
Duplicates are kept (a name imported twice is listed twice). -/
def initAll (imports : List Import) : Option (List String) :=
  if imports.isEmpty then none else some (sortStr (importedNames imports))

def initModule (imports : List Import) : ModuleIR :=
  { file := "__init__.py", kind := .init, imports := imports, prune := false, all := initAll imports }

/-! ### copied files -/

def baseModelFile : String := "base_model.py"
def exceptionsFile : String := "exceptions.py"
def baseOperationFile : String := "base_operation.py"
def customFiles (s : Schema) : List String :=
  ["custom_typing_fields.py", "custom_fields.py"]
  ++ (if s.query.isSome then ["custom_queries.py"] else []) ++ (if s.mutation.isSome then ["custom_mutations.py"] else [])

def copiedModule (cfg : Config) (file : String) : ModuleIR :=
  let provides : Option (List String) :=
    if file == baseModelFile then some ["BaseModel", Tables.uploadClassName, Tables.unsetName, "UnsetType"]
    else if file == exceptionsFile then some Tables.exceptionsNames
    else if file == baseOperationFile then some ["GraphQLField"]
    else if file == cfg.baseClientFile then some [cfg.baseClientName]
    else none
  { file := file, kind := .copied, prune := false, provides := provides }

/--
```python
# __init__:  self.files_to_include = [Path(f) for f in files_to_include]; if enable_custom_operations: append(base_schema_root_file_path)
# _include_exceptions (first step of generate): the four bundled base clients come with exceptions.py
```
-/
def filesToCopy (cfg : Config) : List String :=
  cfg.filesToInclude ++ (if cfg.customOps then [baseOperationFile] else []) ++ (if cfg.defaultBaseClient then [exceptionsFile] else [])

/-! ### `add_operation` -/

/-- a Python dict `file name ↦ module` (assignment to an existing key keeps its position) -/
def dictSet (d : List (String × ModuleIR)) (k : String) (v : ModuleIR) : List (String × ModuleIR) :=
  match d with
  | [] => [(k, v)]
  | (k', v') :: rest => if k' == k then (k, v) :: rest else (k', v') :: dictSet rest k v

/-- `PackageGenerator` state while `main.client` feeds it the operations -/
structure St where
  marks : List Nat := []                       -- selection sets carrying an automatic `__typename` by now
  unpacked : List String := []                 -- _unpacked_fragments
  usedEnums : List String := []                -- _used_enums
  files : List (String × ModuleIR) := []       -- _result_types_files
  init : List Import := []                     -- init_generator.imports
  entries : List ClientEntry := []             -- methods of the client class
  argSt : Arguments.St := {}                   -- the shared ArgumentsGenerator
  outs : List Fragments.DefGen := []           -- the ResultTypesGenerator results (for the triggers)

def rtEnv (cfg : Config) (inp : Input) : ResultTypes.Env :=
  { schema := inp.schema, frags := inp.frags, snake := cfg.snake,
    scalars := cfg.scalars.map fun (n, d) => ⟨n, d.typeName, d.parseName⟩ }

def argEnv (cfg : Config) (inp : Input) : Arguments.Env :=
  { kind := inp.schema.kindOf?, scalars := cfg.scalars, snake := cfg.snake }

def ofArgErr : Arguments.GenErr → GenErr
  | .parsing m => .parsing m
  | .notSupported m => .notSupported m

def opType : OpKind → ClientMethod.OpType
  | .query => .query
  | .mutation => .mutation
  | .subscription => .subscription

/-- `process_name(name.value, convert_to_snake_case=True, …)`: method = module = file stem -/
def methodName (n : String) : String := String.ofList (Names.pyName true .operation n.toList)

def fuel : Nat := 100000

/--
```python
def add_operation(self, definition):
    name = definition.name
    if not name: raise ParsingError("Query without name.")
    return_type_name = str_to_pascal_case(name.value)
    method_name = process_name(name.value, convert_to_snake_case=True, ...); module_name = method_name; file_name = f"{module_name}.py"
    query_types_generator = ResultTypesGenerator(...)
    self._unpacked_fragments = self._unpacked_fragments.union(query_types_generator.get_unpacked_fragments())
    self._used_enums.extend(query_types_generator.get_used_enums())
    self._result_types_files[file_name] = query_types_generator.generate()
    self.init_generator.add_import(query_types_generator.get_generated_public_names(), module_name, 1)
    self.client_generator.add_method(definition=definition, name=method_name, return_type=return_type_name,
                                     return_type_module=module_name, operation_str=operation_str, async_=self.async_client)
```
-/
def addOperation (cfg : Config) (inp : Input) (fl : Nat) (st : St) (o : OpIn) : Except GenErr St :=
  match o.op.name with
  | none => .error (.parsing "Query without name.")
  | some n =>
    let mname := methodName n
    match ResultTypes.generate (rtEnv cfg inp) fl (.op o.op) st.marks with
    | .error e => .error e
    | .ok out =>
      match ClientMethod.addMethod (argEnv cfg inp) (opType o.op.kind) o.op.name o.vars mname (pascal n) o.text cfg.async st.argSt with
      | .error e => .error (ofArgErr e)
      | .ok (m, argSt) =>
        .ok { marks := out.st.marks,
              unpacked := setUnion st.unpacked out.st.unpacked,
              usedEnums := st.usedEnums ++ out.st.usedEnums,
              files := dictSet st.files (pyFile mname) (resultModule cfg (pyFile mname) out),
              init := initAdd st.init out.st.publicNames mname,
              entries := st.entries ++ [⟨m, mname⟩],
              argSt := argSt,
              outs := st.outs ++ [⟨n, out⟩] }

/-- `for query in queries: package_generator.add_operation(query)` -/
def addOperations (cfg : Config) (inp : Input) (fl : Nat) : St → List OpIn → Except GenErr St
  | st, [] => .ok st
  | st, o :: rest =>
    match addOperation cfg inp fl st o with
    | .error e => .error e
    | .ok st' => addOperations cfg inp fl st' rest

/-! ### `generate` -/

/--
```python
def _validate_unique_file_names(self):
    file_names = [f"{self.client_file_name}.py", self.base_client_file_path.name, self.base_model_file_path.name,
                  f"{self.enums_module_name}.py", f"{self.input_types_module_name}.py", f"{self.fragments_module_name}.py"] \
                 + list(self._result_types_files.keys()) + [f.name for f in self.files_to_include]
    if len(file_names) != len(set(file_names)): raise ParsingError(f"Duplicated file names: ...")
```
`__init__.py` and the four custom-operation files are NOT in the list. -/
def checkedFileNames (cfg : Config) (resultFiles : List String) : List String :=
  [pyFile cfg.clientFile, cfg.baseClientFile, baseModelFile, pyFile cfg.enumsModule, pyFile cfg.inputsModule,
   pyFile cfg.fragmentsModule] ++ resultFiles ++ filesToCopy cfg

def hasDup : List String → Bool
  | [] => false
  | x :: xs => xs.contains x || hasDup xs

def ofFragErr : Fragments.Err → GenErr
  | .gen e => e
  | .order (.keyError _) => .internal "KeyError"
  | .order (.valueError _) => .internal "ValueError"
  | .order (.isADirectory _) => .internal "IsADirectoryError"
  | .order .fuel => .fuel

/-- fragments.py as `FragmentsGenerator.generate` returns it -/
def fragmentsModuleIR (cfg : Config) (fo : Fragments.FragmentsOut) (gens : List Fragments.DefGen) : ModuleIR :=
  { file := pyFile cfg.fragmentsModule, kind := .fragments,
    imports := gens.flatMap fun g => generatorImports cfg false g.out.st,
    classes := fo.classes.map resultClassIR, rebuilds := fo.rebuilds }

/-- replace-or-append by file name: what is on disk after `write_text` -/
def putModule (ms : List ModuleIR) (m : ModuleIR) : List ModuleIR :=
  if ms.any (·.file == m.file) then ms.map fun x => if x.file == m.file then m else x else ms ++ [m]

/-- the state of `generate()` between two writes -/
structure GenSt where
  modules : List ModuleIR := []
  log : List String := []
  init : List Import
  usedEnums : List String

/-- one step of `generate()`: the new state, or the state at the failure together with the exception
    (the write log survives a failure: that is what "refused before any write" is stated on) -/
abbrev Step := GenSt → Except (GenSt × GenErr) GenSt

def Step.andThen (a b : Step) : Step := fun g =>
  match a g with
  | .error x => .error x
  | .ok g' => b g'

/-- format (may be refused), write, append to `_generated_files` -/
def emit (fmt : FmtOracle) (m : ModuleIR) : Step := fun g =>
  if fmt m then .ok { g with modules := putModule g.modules m, log := g.log ++ [m.file] }
  else .error (g, .internal "InvalidInput")

/-- write a generated module, then update the bookkeeping (`_used_enums`, the init imports) -/
def emitThen (fmt : FmtOracle) (m : ModuleIR) (f : GenSt → GenSt) : Step := fun g =>
  match emit fmt m g with
  | .error x => .error x
  | .ok g1 => .ok (f g1)

def emitAll (fmt : FmtOracle) : List ModuleIR → Step
  | [] => fun g => .ok g
  | m :: rest => (emit fmt m).andThen (emitAll fmt rest)

/-- `write_text` without formatting (copied files, the custom-operation modules) -/
def writeRaw (m : ModuleIR) (g : GenSt) : GenSt := { g with modules := putModule g.modules m, log := g.log ++ [m.file] }

def copyAll (cfg : Config) (g : GenSt) (files : List String) : GenSt :=
  files.foldl (fun g f => writeRaw (copiedModule cfg f) g) g

def customModule (file : String) : ModuleIR := { file := file, kind := .custom, prune := false, provides := none }

/-- `_generate_input_types` -/
def stepInputs (fmt : FmtOracle) (cfg : Config) (inp : Input) (st : St) : Step := fun g =>
  match inputsModule cfg inp.defs st.argSt.usedInputs with
  | .error err => .error (g, err)
  | .ok io =>
    emitThen fmt io.module (fun g1 => { g1 with usedEnums := g1.usedEnums ++ io.usedEnums, init := initAdd g1.init io.publicNames cfg.inputsModule }) g

/-- `_generate_result_types` -/
def stepResults (fmt : FmtOracle) (st : St) : Step := emitAll fmt (st.files.map (·.2))

/-- `_generate_fragments` -/
def stepFragments (fmt : FmtOracle) (e : Order.EnumOracle) (cfg : Config) (inp : Input) (fl : Nat) (st : St) : Step := fun g =>
  let rem := Fragments.remaining (rtEnv cfg inp) st.unpacked
  if rem.isEmpty then .ok g
  else
    match Fragments.genFragments (rtEnv cfg inp) fl (e rem) st.marks, Fragments.generateFragments e (rtEnv cfg inp) fl (e rem) st.marks with
    | .ok gens, .ok fo =>
      emitThen fmt (fragmentsModuleIR cfg fo gens)
        (fun g' => { g' with usedEnums := g'.usedEnums ++ fo.usedEnums, init := initAdd g'.init fo.publicNames cfg.fragmentsModule }) g
    | .error err, _ => .error (g, ofFragErr err)
    | _, .error err => .error (g, ofFragErr err)

/-- `_copy_files` (never fails in the model: the files exist, `Settings` checked that) -/
def stepCopy (cfg : Config) : Step := fun g =>
  let g4 := copyAll cfg g (filesToCopy cfg ++ [cfg.baseClientFile, baseModelFile])
  .ok { g4 with init := initAdd (initAdd g4.init [cfg.baseClientName] (stem cfg.baseClientFile))
                          ["BaseModel", Tables.uploadClassName] (stem baseModelFile) }

/-- custom operations: four more files (their content is Model/CustomGen.lean's business) -/
def stepCustom (cfg : Config) (inp : Input) : Step := fun g =>
  .ok (if cfg.customOps then (customFiles inp.schema).foldl (fun g f => writeRaw (customModule f) g) g else g)

/-- `_generate_client` -/
def stepClient (fmt : FmtOracle) (cfg : Config) (inp : Input) (st : St) : Step :=
  emitThen fmt (clientModule cfg inp.schema st.entries st.argSt)
    (fun g6 => { g6 with usedEnums := g6.usedEnums ++ st.argSt.usedEnums, init := initAdd g6.init [cfg.clientName] cfg.clientFile })

/-- `_generate_enums` -/
def stepEnums (fmt : FmtOracle) (cfg : Config) (inp : Input) : Step := fun g =>
  emitThen fmt (enumsModule cfg inp.schema g.usedEnums)
    (fun g7 => { g7 with init := initAdd g7.init ((enumsModule cfg inp.schema g.usedEnums).classes.map (·.name)) cfg.enumsModule }) g

/-- `_generate_init` -/
def stepInit (fmt : FmtOracle) : Step := fun g => emit fmt (initModule g.init) g

/-- the steps of `generate()` after the unique-name check, in the order of the Python; every step may abort,
    the write log survives -/
def generateSteps (fmt : FmtOracle) (e : Order.EnumOracle) (cfg : Config) (inp : Input) (fl : Nat) (st : St) : Step :=
  (stepInputs fmt cfg inp st).andThen <| (stepResults fmt st).andThen <| (stepFragments fmt e cfg inp fl st).andThen <|
    (stepCopy cfg).andThen <| (stepCustom cfg inp).andThen <| (stepClient fmt cfg inp st).andThen <|
      (stepEnums fmt cfg inp).andThen (stepInit fmt)

/-- `ExtractOperationsPlugin.generate_client_module` writes its operations module itself -/
def extraWritesOf (cfg : Config) : List String :=
  match cfg.extractOps with
  | some m => [pyFile m]
  | none => []

/-- `_include_exceptions`: the init imports `generate()` starts from -/
def init0 (cfg : Config) (st : St) : List Import :=
  if cfg.defaultBaseClient then initAdd st.init Tables.exceptionsNames (stem exceptionsFile) else st.init

def genSt0 (cfg : Config) (st : St) : GenSt := { init := init0 cfg st, usedEnums := st.usedEnums }

def packageOf (cfg : Config) (g : GenSt) : PackageIR :=
  { modules := g.modules, writeLog := g.log, reported := sortStr g.log, extraWrites := extraWritesOf cfg }

/--
```python
def generate(self) -> List[str]:
    self._include_exceptions()
    self._validate_unique_file_names()
    if not self.package_path.exists(): self.package_path.mkdir()
    self._generate_input_types(); self._generate_result_types(); self._generate_fragments(); self._copy_files()
    if self.enable_custom_operations: ...
    self._generate_client(); self._generate_enums(); self._generate_init()
    return sorted(self._generated_files)
```
`main.client`: all `add_operation` calls first (nothing is written by them), then `generate()`. -/
def runPackage (fmt : FmtOracle) (e : Order.EnumOracle) (cfg : Config) (inp : Input) (fl : Nat := fuel) : Run :=
  match addOperations cfg inp fl {} inp.ops with
  | .error err => { outcome := .error err }
  | .ok st =>
    -- _validate_unique_file_names (after _include_exceptions)
    if hasDup (checkedFileNames cfg (st.files.map (·.1))) then { outcome := .error (.parsing "Duplicated file names") }
    else
      match generateSteps fmt e cfg inp fl st (genSt0 cfg st) with
      | .error (g, err) => { mkdir := true, written := g.log, outcome := .error err }
      | .ok g => { mkdir := true, written := g.log ++ extraWritesOf cfg, outcome := .ok (packageOf cfg g) }

def generatePackage (fmt : FmtOracle) (e : Order.EnumOracle) (cfg : Config) (inp : Input) (fl : Nat := fuel) : Except GenErr PackageIR :=
  (runPackage fmt e cfg inp fl).outcome

/-- the directory listing after a successful run -/
def PackageIR.onDisk (p : PackageIR) : List String := sortedSet (p.writeLog ++ p.extraWrites)

/-- the four refusals the property documents -/
def documentedRefusal : GenErr → Bool
  | .parsing m => m == "Query without name." || m == "Duplicated file names"
                  || m == "Arguments passed to mixin have to be strings." || m == "Required arguments (from, import) not found."
  | .notSupported m => m == "Operations without name are not supported."
                       || m == "Subscriptions are only available when using async client."
  | _ => false

end Ariadne.Package
