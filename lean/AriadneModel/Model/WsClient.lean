/-
  Model of the subscription path of the bundled async base client
  (ariadne_codegen/client_generators/dependencies/async_base_client.py):
  `execute_ws`, `_send_connection_init`, `_send_subscribe`, `_handle_ws_message`,
  `_convert_dict_to_json_serializable`, `_convert_value`, and of the exceptions it raises
  (dependencies/exceptions.py).  The OpenTelemetry twin is Model/WsClientOT.lean.

  Python, for reference (abridged, comments = model function):

      async def execute_ws(self, query, operation_name=None, variables=None, **kwargs):
          headers = self.ws_headers.copy(); headers.update(kwargs.get("extra_headers", {}))   -- connectArgs
          merged_kwargs = {"origin": self.ws_origin}; merged_kwargs.update(kwargs)
          merged_kwargs["extra_headers"] = headers
          operation_id = str(uuid4())                                                           -- Cfg.opId
          async with ws_connect(self.ws_url, subprotocols=[Subprotocol(GRAPHQL_TRANSPORT_WS)],
                                **merged_kwargs) as websocket:                                  -- Ev.connect
              await self._send_connection_init(websocket)                                       -- Ev.send (.connectionInit _)
              await self._handle_ws_message(await websocket.recv(), websocket,
                                            expected_type=GraphQLTransportWSMessageType.CONNECTION_ACK)
              await self._send_subscribe(websocket, operation_id=..., query=..., operation_name=..., variables=...)
              async for message in websocket:                                                   -- stream
                  data = await self._handle_ws_message(message, websocket)
                  if data:
                      yield data

      async def _handle_ws_message(self, message, websocket, expected_type=None):               -- handle
          try: message_dict = json.loads(message)
          except json.JSONDecodeError as exc: raise GraphQLClientInvalidMessageFormat(message=message) from exc
          type_ = message_dict.get("type"); payload = message_dict.get("payload", {})
          if not type_ or type_ not in {t.value for t in GraphQLTransportWSMessageType}:       -- typeCheck
              raise GraphQLClientInvalidMessageFormat(message=message)
          if expected_type and expected_type != type_:
              raise GraphQLClientInvalidMessageFormat(f"Invalid message received. Expected: {expected_type.value}")
          if type_ == GraphQLTransportWSMessageType.NEXT:                                        -- nextOf
              if "data" not in payload: raise GraphQLClientInvalidMessageFormat(message=message)
              return payload["data"]
          if type_ == GraphQLTransportWSMessageType.COMPLETE: await websocket.close()
          elif type_ == GraphQLTransportWSMessageType.PING:
              await websocket.send(json.dumps({"type": GraphQLTransportWSMessageType.PONG.value}))
          elif type_ == GraphQLTransportWSMessageType.ERROR:                                     -- errorOf
              raise GraphQLClientGraphQLMultiError.from_errors_dicts(errors_dicts=payload, data=message_dict)
          return None

  External parts are parameters (DESIGN.md §1.2): `ws_connect` is abstract (the model records the
  arguments it is called with; whether the installed library accepts them is Spec/WsConnect.lean +
  the loopback oracle), `uuid4()` is `Cfg.opId`, pydantic's `model_dump(by_alias=True,
  exclude_unset=True)` of a model instance is the `dump` carried by `PV.model`.  The server is the
  list of frames; the socket delivers them in order, `recv()` on an exhausted socket raises
  `ConnectionClosedOK`, the async iterator ends when the frames run out or after `close()`.

  Core Lean only.
-/
import AriadneModel.Model.Json
import AriadneModel.Model.GetData

namespace Ariadne.WsClient
open Ariadne

/-! ### The message-type table (`GraphQLTransportWSMessageType`) -/

/-- The eight members the code refers to by name, resolved against the extracted table, plus all
    values (`{t.value for t in GraphQLTransportWSMessageType}`). -/
structure Types where
  init : String
  ack : String
  ping : String
  pong : String
  subscribe : String
  next : String
  error : String
  complete : String
  values : List String
  deriving Repr, DecidableEq

def lookupS (k : String) : List (String × String) → Option String
  | [] => none
  | (k', v) :: rest => if k' = k then some v else lookupS k rest

/-- Resolve the member names used by the code in a `(member name, value)` table.  `none` = the
    code would die with `AttributeError` on first use of the missing member. -/
def Types.ofTable (tbl : List (String × String)) : Option Types :=
  match lookupS "CONNECTION_INIT" tbl, lookupS "CONNECTION_ACK" tbl, lookupS "PING" tbl,
        lookupS "PONG" tbl, lookupS "SUBSCRIBE" tbl, lookupS "NEXT" tbl, lookupS "ERROR" tbl,
        lookupS "COMPLETE" tbl with
  | some i, some a, some pi, some po, some s, some n, some e, some c =>
    some { init := i, ack := a, ping := pi, pong := po, subscribe := s, next := n, error := e,
           complete := c, values := tbl.map (·.2) }
  | _, _, _, _, _, _, _, _ => none

/-! ### Python values in `variables` and their serialisation -/

/-- A Python value as it can occur in the `variables` dict of a generated subscription method:
    JSON scalars, `UNSET`, a pydantic model instance (represented by what pydantic's
    `model_dump(by_alias=True, exclude_unset=True)` returns for it), lists and dicts of those.

    `foreign` is a Python object that is not one of `json`'s native types - a `datetime`, `Decimal`,
    `UUID` (custom scalars whose `type` pydantic knows, README "type supported by pydantic"), an
    `Upload`: `json.dumps` without `default=` raises `TypeError` on it.  It carries what
    `pydantic_core.to_jsonable_python` (the `default=` of the HTTP path, `_execute_json`) makes of
    it, `none` when that refuses too (`Upload`).
    `modelPy` is a model instance whose python-mode dump is not plain JSON (a field holds a `foreign`
    value): `model_dump` returns this dict, `foreign` leaves included. -/
inductive PV where
  | null
  | bool (b : Bool)
  | num (m : Int) (e : Nat)
  | str (s : String)
  | unset
  | model (dump : J)
  | list (xs : List PV)
  | dict (kvs : List (String × PV))
  | foreign (jsonable : Option J)
  | modelPy (dump : List (String × PV))
  deriving Repr, Inhabited

mutual
  /-- `json.dumps` of a value *as it is*: `UNSET` and `BaseModel` instances are not serialisable
      (`json.dumps` is called without `default=`) — `none` = `TypeError`. -/
  def rawJson : PV → Option J
    | .null => some .null
    | .bool b => some (.bool b)
    | .num m e => some (.num m e)
    | .str s => some (.str s)
    | .unset => none
    | .model _ => none
    | .foreign _ => none
    | .modelPy _ => none
    | .list xs => (rawJsonList xs).map .arr
    | .dict kvs => (rawJsonKvs kvs).map .obj
  def rawJsonList : List PV → Option (List J)
    | [] => some []
    | x :: xs =>
      match rawJson x, rawJsonList xs with
      | some j, some js => some (j :: js)
      | _, _ => none
  def rawJsonKvs : List (String × PV) → Option (List (String × J))
    | [] => some []
    | (k, x) :: xs =>
      match rawJson x, rawJsonKvs xs with
      | some j, some js => some ((k, j) :: js)
      | _, _ => none
end

mutual
  /-- `_convert_value` (models dumped, lists mapped, everything else — dicts included — untouched)
      followed by `json.dumps`. -/
  def convJson : PV → Option J
    | .model d => some d
    | .list xs => (convJsonList xs).map .arr
    | .null => some .null
    | .bool b => some (.bool b)
    | .num m e => some (.num m e)
    | .str s => some (.str s)
    | .unset => none
    | .foreign _ => none
    | .modelPy kvs => (rawJsonKvs kvs).map .obj   -- `model_dump(...)` returned this dict; `json.dumps` takes it as it is
    | .dict kvs => (rawJsonKvs kvs).map .obj
  def convJsonList : List PV → Option (List J)
    | [] => some []
    | x :: xs =>
      match convJson x, convJsonList xs with
      | some j, some js => some (j :: js)
      | _, _ => none
end

/-- `_convert_dict_to_json_serializable`: top-level `UNSET` values are dropped, the others
    converted (`none` = the later `json.dumps` raises `TypeError`). -/
def convDict : List (String × PV) → Option (List (String × J))
  | [] => some []
  | (_, .unset) :: rest => convDict rest
  | (k, v) :: rest =>
    match convJson v, convDict rest with
    | some j, some r => some ((k, j) :: r)
    | _, _ => none

/-- The `variables` member of the subscribe payload. -/
inductive Ser where
  | absent                 -- `if variables:` false (None or {}): no "variables" member
  | present (j : J)
  | typeError              -- json.dumps(payload) raises TypeError
  deriving Repr

def serialise : Option (List (String × PV)) → Ser
  | none => .absent
  | some [] => .absent
  | some kvs =>
    match convDict kvs with
    | some o => .present (.obj o)
    | none => .typeError

/-! ### Configuration, connect arguments, messages, frames -/

/-- Everything `execute_ws` reads from `self` and from its arguments (but `variables`). -/
structure Cfg where
  url : String
  headers : List (String × J)                -- `ws_headers or {}`
  origin : Option String                     -- the `ws_origin` constructor argument
  initPayload : Option J                     -- the `ws_connection_init_payload` constructor argument
  query : String
  opName : Option String
  extraHeaders : Option (List (String × J))  -- `kwargs.get("extra_headers")` (a dict when given)
  kwargs : List (String × J)                 -- the other `**kwargs` (no `extra_headers` key)
  opId : String                              -- `str(uuid4())`
  deriving Repr

/-- `dict.update`: an existing key keeps its position and gets the new value, new keys are appended. -/
def dictSet (k : String) (v : J) : List (String × J) → List (String × J)
  | [] => [(k, v)]
  | (k', v') :: rest => if k' = k then (k, v) :: rest else (k', v') :: dictSet k v rest

def dictUpdate (a : List (String × J)) : List (String × J) → List (String × J)
  | [] => a
  | (k, v) :: rest => dictUpdate (dictSet k v a) rest

/-- What `ws_connect` is called with. -/
structure ConnectArgs where
  url : String
  subprotocols : List String
  origin : J                                 -- `merged_kwargs["origin"]`
  extraHeaders : List (String × J)           -- `merged_kwargs["extra_headers"]`
  kwargs : List (String × J)                 -- every other keyword argument
  deriving Repr

/-- `self.ws_origin = Origin(ws_origin) if ws_origin else None`, overridden by `kwargs["origin"]`. -/
def originOf (cfg : Cfg) : J :=
  match J.lookup "origin" cfg.kwargs with
  | some o => o
  | none =>
    match cfg.origin with
    | some s => if s = "" then .null else .str s
    | none => .null

def connectArgs (subprotocol : String) (cfg : Cfg) : ConnectArgs :=
  { url := cfg.url
    subprotocols := [subprotocol]
    origin := originOf cfg
    extraHeaders := dictUpdate cfg.headers (cfg.extraHeaders.getD [])
    kwargs := cfg.kwargs.filter (fun kv => kv.1 != "origin") }

/-- `if self.ws_connection_init_payload:` -/
def initOf (cfg : Cfg) : Option J :=
  match cfg.initPayload with
  | some p => if p.truthy then some p else none
  | none => none

/-- A message the client sends. -/
inductive Msg where
  | connectionInit (payload : Option J)
  | subscribe (id : String) (query : String) (opName : Option String) (vars : Option J)
  | pong
  deriving Repr

def optStr : Option String → J
  | some s => .str s
  | none => .null

/-- The JSON text the client puts on the wire (as the decoded value, key order included). -/
def Msg.render (t : Types) : Msg → J
  | .connectionInit none => .obj [("type", .str t.init)]
  | .connectionInit (some p) => .obj [("type", .str t.init), ("payload", p)]
  | .subscribe id q op none =>
    .obj [("id", .str id), ("type", .str t.subscribe),
          ("payload", .obj [("query", .str q), ("operationName", optStr op)])]
  | .subscribe id q op (some v) =>
    .obj [("id", .str id), ("type", .str t.subscribe),
          ("payload", .obj [("query", .str q), ("operationName", optStr op), ("variables", v)])]
  | .pong => .obj [("type", .str t.pong)]

/-- A frame delivered by the socket. -/
inductive Frame where
  | text (s : String)      -- a text (or decodable binary) message that `json.loads` rejects (JSONDecodeError)
  | badBytes               -- a binary message that is not valid UTF-8/16/32: `json.loads` raises UnicodeDecodeError
  | json (j : J)           -- a message that decodes to the JSON value `j`
  deriving Repr

/-- The argument of `GraphQLClientInvalidMessageFormat`. -/
inductive InvalidArg where
  | message                -- `message=<the raw frame being handled>`
  | expected (v : String)  -- `"Invalid message received. Expected: " ++ v`
  deriving Repr

inductive Outcome where
  | completed                                          -- the generator finished after `complete` (socket closed by the client)
  | exhausted                                          -- the generator finished because the socket's iterator ended
  | invalidMessage (arg : InvalidArg)                  -- GraphQLClientInvalidMessageFormat
  | multiError (errs : List GetData.GqlErr) (data : J) -- GraphQLClientGraphQLMultiError(errors, data=<whole message>)
  | internal (exc : String)                            -- any other exception escaping
  deriving Repr

/-- Observable events, in program order. -/
inductive Ev where
  | connect (a : ConnectArgs)
  | send (m : Msg)
  | recv (f : Frame)       -- the socket handed this frame to the client (`recv()` / `__anext__`)
  | yield (d : J)          -- the async generator yielded `d` to its consumer
  | close                  -- `await websocket.close()` called by `_handle_ws_message`
  deriving Repr

structure Trace where
  events : List Ev
  outcome : Outcome
  deriving Repr

/-! ### `_handle_ws_message` -/

/-- What one call of `_handle_ws_message` does. -/
inductive Handled where
  | ret (d : Option J)     -- returns `payload["data"]` (`some`) or `None`
  | retClose               -- `await websocket.close()`, returns `None`
  | retPong                -- `await websocket.send(pong)`, returns `None`
  | raise (o : Outcome)
  deriving Repr

/-- `not type_ or type_ not in {t.value for t in GraphQLTransportWSMessageType}` on the result of
    `message_dict.get("type")`.  A non-empty list/dict is truthy and unhashable: the set membership
    test raises `TypeError`. -/
def typeCheck (t : Types) : Option J → Except Outcome String
  | none => .error (.invalidMessage .message)
  | some (.str s) =>
    if s = "" then .error (.invalidMessage .message)
    else if t.values.contains s then .ok s
    else .error (.invalidMessage .message)
  | some (.arr (_ :: _)) => .error (.internal "TypeError")
  | some (.obj (_ :: _)) => .error (.internal "TypeError")
  | some _ => .error (.invalidMessage .message)

def isInfixChars (p : List Char) : List Char → Bool
  | [] => p.isEmpty
  | c :: cs => p.isPrefixOf (c :: cs) || isInfixChars p cs

def isDataStr : J → Bool
  | .str s => s = "data"
  | _ => false

/-- the `NEXT` branch: `if "data" not in payload: raise ...; return payload["data"]` for every
    kind of `payload` (`in` is a key test on dicts, a substring test on strings, an element test on
    lists, a `TypeError` on `None`/numbers/booleans; subscripting a str/list with "data" is a `TypeError`). -/
def nextOf : J → Handled
  | .obj kvs =>
    match J.lookup "data" kvs with
    | some d => .ret (some d)
    | none => .raise (.invalidMessage .message)
  | .str s => if isInfixChars "data".toList s.toList then .raise (.internal "TypeError")
              else .raise (.invalidMessage .message)
  | .arr xs => if xs.any isDataStr then .raise (.internal "TypeError")
               else .raise (.invalidMessage .message)
  | _ => .raise (.internal "TypeError")

/-- the `ERROR` branch: `from_errors_dicts(errors_dicts=payload, data=message_dict)` iterates
    `payload` whatever it is. -/
def errorOf (payload msg : J) : Handled :=
  match payload with
  | .arr es =>
    match GetData.fromDicts es with
    | .ok gs => .raise (.multiError gs msg)
    | .error x => .raise (.internal x)
  | .obj [] => .raise (.multiError [] msg)          -- the default `{}` when there is no payload
  | .obj (_ :: _) => .raise (.internal "TypeError") -- iterating a dict yields its keys: `"k"["message"]`
  | .str s => if s = "" then .raise (.multiError [] msg) else .raise (.internal "TypeError")
  | _ => .raise (.internal "TypeError")             -- None / numbers / booleans are not iterable

def handle (t : Types) (expected : Option String) : Frame → Handled
  | .text _ => .raise (.invalidMessage .message)
  | .badBytes => .raise (.internal "UnicodeDecodeError")
  | .json (.obj kvs) =>
    match typeCheck t (J.lookup "type" kvs) with
    | .error o => .raise o
    | .ok ty =>
      match expected with
      | some e =>
        -- `expected_type and expected_type != type_` (a str-enum member with value "" is falsy)
        if e != "" && e != ty then .raise (.invalidMessage (.expected e))
        else dispatch ty kvs
      | none => dispatch ty kvs
  | .json _ => .raise (.internal "AttributeError")   -- `message_dict.get` on a non-dict
where
  dispatch (ty : String) (kvs : List (String × J)) : Handled :=
    let payload := (J.lookup "payload" kvs).getD (.obj [])
    if ty = t.next then nextOf payload
    else if ty = t.complete then .retClose
    else if ty = t.ping then .retPong
    else if ty = t.error then errorOf payload (.obj kvs)
    else .ret none

/-! ### `execute_ws` -/

/-- The `async for message in websocket:` loop on an open socket. -/
def stream (t : Types) : List Frame → List Ev × Outcome
  | [] => ([], .exhausted)
  | f :: fs =>
    match handle t none f with
    | .ret (some d) =>
      if d.truthy then (.recv f :: .yield d :: (stream t fs).1, (stream t fs).2)
      else (.recv f :: (stream t fs).1, (stream t fs).2)
    | .ret none => (.recv f :: (stream t fs).1, (stream t fs).2)
    | .retPong => (.recv f :: .send .pong :: (stream t fs).1, (stream t fs).2)
    | .retClose => ([.recv f, .close], .completed)
    | .raise o => ([.recv f], o)

/-- `_send_subscribe` and what follows it, on a socket that is open (`closed = false`) or was
    closed by the handling of the first frame (`send` on a closed socket raises ConnectionClosedOK;
    only reachable when the table maps CONNECTION_ACK and COMPLETE to the same value). -/
def afterAck (t : Types) (cfg : Cfg) (vars : Option (List (String × PV))) (closed : Bool)
    (fs : List Frame) : List Ev × Outcome :=
  match serialise vars with
  | .typeError => ([], .internal "TypeError")
  | .absent =>
    if closed then ([], .internal "ConnectionClosedOK")
    else (.send (.subscribe cfg.opId cfg.query cfg.opName none) :: (stream t fs).1, (stream t fs).2)
  | .present v =>
    if closed then ([], .internal "ConnectionClosedOK")
    else (.send (.subscribe cfg.opId cfg.query cfg.opName (some v)) :: (stream t fs).1, (stream t fs).2)

def runT (t : Types) (subprotocol : String) (cfg : Cfg) (vars : Option (List (String × PV)))
    (frames : List Frame) : Trace :=
  if J.hasKey "subprotocols" cfg.kwargs then
    -- `ws_connect(url, subprotocols=[...], **merged_kwargs)`: duplicate keyword argument
    ⟨[], .internal "TypeError"⟩
  else
    let pre := [Ev.connect (connectArgs subprotocol cfg), .send (.connectionInit (initOf cfg))]
    match frames with
    | [] => ⟨pre, .internal "ConnectionClosedOK"⟩   -- `await websocket.recv()` on a closed socket
    | f :: fs =>
      match handle t (some t.ack) f with
      | .raise o => ⟨pre ++ [.recv f], o⟩
      | .ret _ =>
        let r := afterAck t cfg vars false fs
        ⟨pre ++ .recv f :: r.1, r.2⟩
      | .retPong =>
        let r := afterAck t cfg vars false fs
        ⟨pre ++ .recv f :: .send .pong :: r.1, r.2⟩
      | .retClose =>
        let r := afterAck t cfg vars true fs
        ⟨pre ++ .recv f :: .close :: r.1, r.2⟩

/-- Everything inside `async with ws_connect(...) as websocket:` (the part of `runT` after the
    socket was opened; `runT_session` in Proofs/WsClient.lean). -/
def session (t : Types) (cfg : Cfg) (vars : Option (List (String × PV))) (frames : List Frame) :
    List Ev × Outcome :=
  let pre := [Ev.send (.connectionInit (initOf cfg))]
  match frames with
  | [] => (pre, .internal "ConnectionClosedOK")
  | f :: fs =>
    match handle t (some t.ack) f with
    | .raise o => (pre ++ [.recv f], o)
    | .ret _ =>
      let r := afterAck t cfg vars false fs
      (pre ++ .recv f :: r.1, r.2)
    | .retPong =>
      let r := afterAck t cfg vars false fs
      (pre ++ .recv f :: .send .pong :: r.1, r.2)
    | .retClose =>
      let r := afterAck t cfg vars true fs
      (pre ++ .recv f :: .close :: r.1, r.2)

/-- The model of `AsyncBaseClient.execute_ws` against the extracted tables. -/
def run (tbl : List (String × String)) (subprotocol : String) (cfg : Cfg)
    (vars : Option (List (String × PV))) (frames : List Frame) : Trace :=
  match Types.ofTable tbl with
  | some t => runT t subprotocol cfg vars frames
  | none => ⟨[], .internal "AttributeError"⟩

/-! ### Projections of a trace -/

def Ev.sent? : Ev → Option Msg
  | .send m => some m
  | _ => none
def Ev.yielded? : Ev → Option J
  | .yield d => some d
  | _ => none
def Ev.recv? : Ev → Option Frame
  | .recv f => some f
  | _ => none
def Ev.isClose : Ev → Bool
  | .close => true
  | _ => false
def Ev.connect? : Ev → Option ConnectArgs
  | .connect a => some a
  | _ => none

def Trace.sent (tr : Trace) : List Msg := tr.events.filterMap Ev.sent?
def Trace.yielded (tr : Trace) : List J := tr.events.filterMap Ev.yielded?
def Trace.received (tr : Trace) : List Frame := tr.events.filterMap Ev.recv?

end Ariadne.WsClient
