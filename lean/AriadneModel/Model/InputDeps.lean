/-
  C06: which classes `input_types.py` contains and which enum names it imports, under every
  configuration (`include_all_inputs` true / false) and for both schema sources.  A generated input
  class can be built only if the module it lives in imports: every name its annotations and default
  expressions mention must be bound.  Modelled Python (client_generators/input_types.py):

      # __init__
      self._dependencies = defaultdict(list); self._used_enums = defaultdict(list); self._used_scalars = []
      self._class_defs = [self._parse_input_definition(d) for d in self._filter_input_types()]
      # _parse_input_definition, per field, after the AnnAssign was built:
          self._save_dependencies(root_type=definition.name, field_type=field_type)

      def _save_dependencies(self, root_type, field_type=""):
          if not field_type: return
          if isinstance(self.schema.type_map[field_type], GraphQLInputObjectType):
              self._dependencies[root_type].append(field_type)
          elif isinstance(self.schema.type_map[field_type], GraphQLEnumType):
              self._used_enums[root_type].append(field_type)
          elif isinstance(self.schema.type_map[field_type], GraphQLScalarType):
              self._used_scalars.append(field_type)

      def generate(self, types_to_include=None):
          class_defs = self._filter_class_defs(types_to_include=types_to_include)
          self._generated_public_names = [class_def.name for class_def in class_defs]
          if self._used_enums:
              self._imports.append(generate_import_from(self.get_used_enums(), self.enums_module, 1))
          ...
      def get_used_enums(self):
          enums = []
          for input_name in self._generated_public_names: enums.extend(self._used_enums[input_name])
          return enums

  `field_type` is the second component of `parse_input_field_type` (`InputField.annOf`).  The class
  filter (`_filter_class_defs`, `_get_dependencies_of_type`: DFS over `_dependencies`) and
  `get_used_enums` are C09's model `Model/Prune.lean`, REUSED (`Prune.filterInputDefs`,
  `Prune.inputsUsedEnums`); what is new here is the table they run on, computed from the same
  definitions and by the same `annOf` as the class bodies, so that theorems can speak about the names a
  class body mentions.  package.py `_generate_input_types`: `generate()` when `include_all_inputs`,
  `generate(types_to_include=arguments_generator.get_used_inputs())` otherwise (`rootsFor`).
  Core Lean only.
-/
import AriadneModel.Model.InputSource
import AriadneModel.Model.Prune

namespace Ariadne.InputDeps
open Ariadne
open Ariadne.InputGen (TypeRef Lit PyExpr InputField TypeDef Mode)
open Ariadne.InputField
open Ariadne.InputSource

/-- `_save_dependencies(root_type, field_type)`: which of the three tables gets `field_type`.
    `composite` / `unknown` cannot come out of `parse_input_field_type` (it raised ParsingError before):
    `Proofs/C06Source.lean: annOf_ft_kind`. -/
def refOf (kinds : String → Kind) (ft : String) : Option Prune.Ref :=
  if ft == "" then none
  else match kinds ft with
    | .input => some (.input ft)
    | .enum => some (.enum ft)
    | .custom _ _ => some (.scalar ft)
    | .builtin _ => some (.scalar ft)
    | .any => some (.scalar ft)
    | .composite => none
    | .unknown => none

/-- what one field records -/
def fieldRef (kinds : String → Kind) (f : InputField) : Option Prune.Ref :=
  match annOf kinds f.type true with
  | some (_, ft) => refOf kinds ft
  | none => none

def defOf (m : Mode) (kinds : String → Kind) : TypeDef → Option Prune.InputDef
  | .input n fs => some { name := n, fields := (InputGen.visibleFields m fs).filterMap (fieldRef kinds) }
  | _ => none

/-- `_dependencies` / `_used_enums` / `_used_scalars` after `__init__`, as C09's table -/
def tableOf (m : Mode) (cfg : Cfg) (defs : List TypeDef) : List Prune.InputDef :=
  defs.filterMap (defOf m (kindOf cfg defs))

/-- what C06 reads off the generated module besides the class bodies -/
structure Module where
  classes : List ClassDecl
  enumImport : List String          -- `from .enums import <these>` (`get_used_enums()`)
  deriving Repr

/-- `InputTypesGenerator(schema, …).generate(types_to_include=roots)`; `none` = the fuelled DFS of
    `Prune` ran dry (never: `C06.generate_total`) -/
def generate (m : Mode) (cfg : Cfg) (defs : List TypeDef) (roots : Option (List String)) : Option Module :=
  let tbl := tableOf m cfg defs
  match Prune.filterInputDefs tbl roots with
  | none => none
  | some cds =>
    let names := cds.map (·.name)
    some ⟨(classesSrc m cfg defs).filter (fun c => names.contains c.name), Prune.inputsUsedEnums tbl names⟩

/-- `package.py _generate_input_types` -/
def rootsFor (includeAllInputs : Bool) (usedInputs : List String) : Option (List String) :=
  if includeAllInputs then none else some usedInputs

/-! ### the names a class body mentions -/

mutual
  /-- the dotted names (`Color.RED`) of an emitted default expression -/
  def exprNames : PyExpr → List String
    | .name s => [s]
    | .list xs => exprNamesL xs
    | .dict kvs => exprNamesKv kvs
    | .fieldFactory b => exprNames b
    | .fieldFactoryModel _ a => exprNames a
    | _ => []
  def exprNamesL : List PyExpr → List String
    | [] => []
    | x :: xs => exprNames x ++ exprNamesL xs
  def exprNamesKv : List (String × PyExpr) → List String
    | [] => []
    | (_, v) :: rest => exprNames v ++ exprNamesKv rest
end

mutual
  /-- the enum literals of a default literal, in order -/
  def litEnums : Lit → List String
    | .enum v => [v]
    | .list xs => litEnumsL xs
    | .obj kvs => litEnumsKv kvs
    | _ => []
  def litEnumsL : List Lit → List String
    | [] => []
    | x :: xs => litEnums x ++ litEnumsL xs
  def litEnumsKv : List (String × Lit) → List String
    | [] => []
    | (_, v) :: rest => litEnums v ++ litEnumsKv rest
end

/-! ### the schema a pruned `input_types.py` is the module of -/

/-- the definitions without the input types `generate(types_to_include=roots)` leaves out.  The emitted
    classes never refer to a class that was left out (`C06.dependency_emitted`), so the module of the
    emitted classes is the module generated for these definitions; that identity is validated by the
    `construct` correspondence on pruned packages, not proved. -/
def emittedDefs (m : Mode) (cfg : Cfg) (defs : List TypeDef) (roots : Option (List String)) : List TypeDef :=
  match generate m cfg defs roots with
  | none => defs
  | some mod =>
    let names := mod.classes.map (·.name)
    defs.filter fun
      | .input n _ => names.contains n
      | _ => true

end Ariadne.InputDeps
