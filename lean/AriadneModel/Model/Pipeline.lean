/-
  Model of the phase sequence of `ariadne_codegen.main.client` / `main.graphql_schema` with an
  EFFECT LOG (C17): which phase raises what, and what has been written to the target by then.

  main.client:
      settings = get_client_settings(config_dict)                                  -- settings
      schema = get_graphql_schema_from_path(...) | get_graphql_schema_from_url(...) -- loadSchema
      plugin_manager = PluginManager(..., plugins_types=get_plugins_types(...))     -- plugins
      schema = add_mixin_directive_to_schema(schema); schema = plugin_manager.process_schema(schema)
      assert_valid_schema(schema)                                                   -- assertValid
      definitions = get_graphql_queries(settings.queries_path, schema)  (if queries_path) -- loadQueries
      package_generator = get_package_generator(...)
      for query in queries: package_generator.add_operation(query)                  -- addOperation
      generated_files = package_generator.generate()                                -- generatePre / generateWrite

  PackageGenerator.generate:
      _include_exceptions(); _validate_unique_file_names()                          -- generatePre
      if not package_path.exists(): package_path.mkdir()                            -- first effect
      _generate_input_types(); _generate_result_types(); _generate_fragments(); _copy_files()
      [custom operations files]; _generate_client(); _generate_enums(); _generate_init()

  The loading of `schema_path` / `queries_path` (file or directory tree, sorted walk, suffix filter,
  per-file syntax check, concatenation, the unguarded second `parse`) is Model/SourceLoad.lean; the
  resolution of the `plugins` list (`plugins/explorer.py`) is modelled here over what the import
  system answers.

  Third-party behaviour is an ORACLE, i.e. an input of the model: which texts graphql-core's
  `parse` accepts (`Source.parses`), whether `build_ast_schema(..., assume_valid=True)` raises, how many errors
  `validate_schema` would report, what `validate(schema, document, rules)` reports, what
  ResultTypesGenerator raises for an operation/fragment, whether black refuses an emitted module.
  What is modelled (and proved) is WHETHER AND WHEN ariadne-codegen consults them and what has
  been written by then.  `assume_valid=True` is modelled as the code has it: the schema's
  validation cache (`schema._validation_errors`) is pre-filled with "no errors".
  Core Lean only.
-/
import AriadneModel.Model.Settings
import AriadneModel.Model.SourceLoad

namespace Ariadne.Pipeline
open Ariadne Ariadne.Settings Ariadne.SourceLoad

/-- an exception escaping `main.client` / `main.graphql_schema` -/
inductive PyErr where
  | config (e : ConfigError)                  -- from get_client_settings / get_graphql_schema_settings
  | codegen (cls : String) (msg : String)     -- another subclass of ariadne_codegen.exceptions.CodeGenException
  | raw (cls : String)                        -- anything else (graphql-core's TypeError / GraphQLSyntaxError, black's InvalidInput, OSError ...)
  deriving Repr, DecidableEq, Inhabited

/-- is it one of ariadne-codegen's own exception classes? -/
def PyErr.typed : PyErr → Bool
  | .config e => e.typed
  | .codegen _ _ => true
  | .raw _ => false

def PyErr.cls : PyErr → String
  | .config e => e.pyClass
  | .codegen c _ => c
  | .raw c => c

def PyErr.msg : PyErr → String
  | .config e => e.message
  | .codegen _ m => m
  | .raw _ => ""

inductive Phase where
  | settings | loadSchema | plugins | assertValid | loadQueries | addOperation
  | generatePre      -- inside generate(), before the first effect (_validate_unique_file_names)
  | generateWrite    -- inside generate(), at or after `package_path.mkdir()`
  | writeSchema      -- graphqlschema strategy: generating / writing the target file
  deriving Repr, DecidableEq, Inhabited

inductive Effect where
  | mkdir                      -- the target package directory is created
  | write (file : String)      -- a file of the target package / the target schema file is (over)written
  deriving Repr, DecidableEq

structure Outcome where
  result : Except (Phase × PyErr) (List String)    -- sorted list of generated file names
  log : List Effect
  deriving Repr

/-! ## oracles -/

/-- what `schema_path` / `queries_path` points at (a file or a directory tree, Model/SourceLoad.lean)
    and graphql-core's `parse` as a predicate on texts ("parses on its own") -/
structure Source where
  root : Root
  parses : String → Bool

/-- the graphql files of the source in reading order: (path, content) -/
def Source.files (s : Source) : List (String × Content) := filesRead s.root

/-- graphql-core's view of a schema object: the cache `schema._validation_errors`
    (`some n` = a cached list of n errors, `none` = not validated yet) and the number of errors
    `validate_schema` computes when the cache is empty -/
structure SchemaState where
  cache : Option Nat
  trueErrors : Nat
  hasQuery : Bool := true
  hasMutation : Bool := false
  deriving Repr, DecidableEq

/-- the `assume_valid` argument of `build_ast_schema` / `build_client_schema` in schema.py -/
def codeAssumeValid : Bool := true

inductive RemoteOutcome where
  | ok
  | introspectionError (msg : String)      -- IntrospectionError
  | raw (cls : String)                     -- transport failure etc. (C19's subject)
  deriving Repr, DecidableEq

structure SchemaOracle where
  src : Source                          -- when settings.schema_path is set
  remote : RemoteOutcome := .ok         -- when it is not
  buildError : Option String := none    -- TypeError raised by build_ast_schema(assume_valid=True) / build_client_schema
  trueErrors : Nat := 0                 -- errors validate_schema would find
  hasQuery : Bool := true
  hasMutation : Bool := false

/-- what the import system answers for one configured plugin string -/
inductive PluginLookup where
  | module                   -- `importlib.util.find_spec(s)` finds a module: its Plugin subclasses are taken
  | classOk                  -- no such module; `s = m.c`, `m` imports and `m.c` is a Plugin subclass
  | noModule                 -- ... `import_module(m)` raises ModuleNotFoundError
  | noAttribute              -- ... `getattr(module, c)` raises AttributeError
  | notPlugin                -- ... the object is not a proper Plugin subclass
  | raises (cls : String)    -- the import system itself raises something else (relative name, broken module)
  deriving Repr, DecidableEq

structure PluginsOracle where
  lookup : String → PluginLookup := fun _ => .classOk
  replaces : Option SchemaState := none         -- a process_schema hook returns a different schema object

structure OpInfo where
  name : Option String                 -- `definition.name`
  moduleName : String                  -- process_name(name, convert_to_snake_case=True)  (C18)
  isSubscription : Bool := false
  resultTypesError : Option PyErr := none    -- raised by ResultTypesGenerator for this operation
  deriving Repr

structure FragInfo where
  name : String
  unpacked : Bool := false             -- in `_unpacked_fragments` after every add_operation
  genError : Option PyErr := none      -- raised by ResultTypesGenerator for this fragment definition
  deriving Repr

structure QueriesOracle where
  src : Source
  validationErrors : List String := []     -- messages of validate(schema, document, specified_rules \ NoUnusedFragments)
  ops : List OpInfo := []
  frags : List FragInfo := []

inductive GenStep where
  | inputTypes | resultTypes (file : String) | fragments | copyFile (file : String)
  | customTyping | customFields | customQueries | customMutations | client | enums | init
  deriving Repr, DecidableEq

def GenStep.label : GenStep → String
  | .inputTypes => "inputTypes" | .resultTypes f => "resultTypes:" ++ f | .fragments => "fragments"
  | .copyFile f => "copyFile:" ++ f | .customTyping => "customTyping" | .customFields => "customFields"
  | .customQueries => "customQueries" | .customMutations => "customMutations" | .client => "client"
  | .enums => "enums" | .init => "init"

structure ClientRun where
  env : Env
  cfg : Dict
  schema : SchemaOracle
  plugins : PluginsOracle := {}
  queries : QueriesOracle
  pkgDirExists : Bool                          -- `package_path.exists()` before the run
  codeError : GenStep → Option PyErr := fun _ => none   -- ast_to_str/black/plugin refusing the text of a module

/-! ## phases -/

def ofLoadErr : LoadErr → PyErr
  | .invalidSyntax f => .codegen "InvalidGraphqlSyntax" ("Invalid graphql syntax in file " ++ f)
  | .raw cls => .raw cls

/-- `parse(load_graphql_files_from_path(Path(p)))`: `read_graphql_file` per file in sorted order (the
    first file that does not parse on its own raises InvalidGraphqlSyntax naming it), then the
    unguarded `parse` of the concatenation (bare GraphQLSyntaxError) -/
def loadSource (s : Source) : Except PyErr Unit :=
  match loadDocument s.parses s.root with
  | .error e => .error (ofLoadErr e)
  | .ok _ => .ok ()

/-- `get_graphql_schema_from_path` / `get_graphql_schema_from_url` -/
def loadSchema (fromPath : Bool) (o : SchemaOracle) : Except PyErr SchemaState := do
  if fromPath then loadSource o.src
  else match o.remote with
    | .ok => pure ()
    | .introspectionError m => throw (.codegen "IntrospectionError" m)
    | .raw c => throw (.raw c)
  match o.buildError with
  | some _ => throw (.raw "TypeError")
  | none => pure { cache := if codeAssumeValid then some 0 else none, trueErrors := o.trueErrors,
                   hasQuery := o.hasQuery, hasMutation := o.hasMutation }

/-- `class_str.rfind(".")` split: `(class_str[:i], class_str[i+1:])`, `none` when there is no dot -/
def rsplitDot (s : String) : Option (String × String) :=
  match rfindDot s.toList with
  | none => none
  | some i => some (String.ofList (s.toList.take i), String.ofList (s.toList.drop (i + 1)))

/-- one configured plugin string: `is_module_str` / `get_plugins_types_from_module` / `get_plugin_type` -/
def resolvePlugin (look : String → PluginLookup) (s : String) : Except PyErr Unit :=
  match look s with
  | .module => .ok ()
  | .raises cls => .error (.raw cls)
  | l =>
    match rsplitDot s with
    | none => .error (.codegen "PluginImportError" "Incorrect plugin path. Use an absolute import path.")
    | some (m, c) =>
      match l with
      | .noModule => .error (.codegen "PluginImportError" ("Incorrect plugin module. Cannot import from " ++ m))
      | .noAttribute => .error (.codegen "PluginImportError" ("Class " ++ c ++ " not found in module " ++ m))
      | .notPlugin => .error (.codegen "PluginImportError" ("Selected object " ++ s ++ " is not a plugin class."))
      | _ => .ok ()

/-- `for plugin_str in plugins_strs` over the items Python iterates; `find_spec(x)` on a non-str is an
    `AttributeError` (`x.startswith`) -/
def resolvePluginItems (look : String → PluginLookup) : List TV → Except PyErr Unit
  | [] => .ok ()
  | .str s :: rest =>
    match resolvePlugin look s with
    | .error e => .error e
    | .ok () => resolvePluginItems look rest
  | _ :: _ => .error (.raw "AttributeError")

/-- `get_plugins_types(settings.plugins)` -/
def resolvePlugins (plugins : TV) (p : PluginsOracle) : Except PyErr Unit :=
  match plugins.pyIter with
  | none => .error (.raw "TypeError")
  | some items => resolvePluginItems p.lookup items

/-- `plugin_manager.process_schema(add_mixin_directive_to_schema(schema))` -/
def processSchema (p : PluginsOracle) (s : SchemaState) : SchemaState := p.replaces.getD s

/-- graphql-core `assert_valid_schema`: `validate_schema` returns the cached list when there is one -/
def validationErrorsSeen (s : SchemaState) : Nat :=
  match s.cache with
  | some n => n
  | none => s.trueErrors

def assertValid (s : SchemaState) : Except PyErr Unit :=
  if validationErrorsSeen s == 0 then .ok () else .error (.raw "TypeError")

/-- `get_graphql_queries` -/
def loadQueries (q : QueriesOracle) : Except PyErr Unit := do
  loadSource q.src
  if q.validationErrors.isEmpty then pure ()
  else throw (.codegen "InvalidOperationForSchema" ("\n\n".intercalate q.validationErrors))

/-- `PackageGenerator.add_operation` for one operation -/
def addOperation (isAsync : Bool) (op : OpInfo) : Except PyErr String :=
  match op.name with
  | none => .error (.codegen "ParsingError" "Query without name.")
  | some _ =>
    match op.resultTypesError with
    | some e => .error e
    | none =>
      if op.isSubscription && !isAsync then
        .error (.codegen "NotSupported" "Subscriptions are only available when using async client.")
      else .ok (op.moduleName ++ ".py")

/-- the loop over the operations: keys of `_result_types_files` in first-insertion order -/
def addOperations (isAsync : Bool) : List OpInfo → List String → Except PyErr (List String)
  | [], acc => .ok acc
  | op :: rest, acc =>
    match addOperation isAsync op with
    | .error e => .error e
    | .ok f => addOperations isAsync rest (if acc.contains f then acc else acc ++ [f])

def pkgFile (key : String) : String := ((Tables.packageFileNames.find? (·.1 == key)).map (·.2)).getD ""

def isDefaultClientPath (env : Env) (p : String) : Bool :=
  ["async", "asyncOT", "sync", "syncOT"].any (fun k => env.defaultPath k == p)

/-- the items of `files_to_include` as strings (accepted settings: every item Python iterates is a
    `str` naming a file, `accepted_files_ok` in Properties/C17.lean) -/
def filesList (s : ClientSettings) : List String :=
  match s.filesToInclude.pyIter with
  | some items => items.map TV.pyStr
  | none => []

/-- `self.files_to_include` when `generate` checks names: user files, base_operation.py when custom
    operations are enabled, exceptions.py when a bundled base client is used -/
def includedFiles (env : Env) (s : ClientSettings) : List String :=
  (filesList s).map (fun f => String.ofList (pathName f))
  ++ (if s.enableCustomOperations.truthy then [pkgFile "base_operation"] else [])
  ++ (if isDefaultClientPath env s.baseClientFilePath.pyStr then [pkgFile "exceptions"] else [])

/-- the list `_validate_unique_file_names` builds -/
def allFileNames (env : Env) (s : ClientSettings) (resultFiles : List String) : List String :=
  [s.clientFileName.pyStr ++ ".py", String.ofList (pathName s.baseClientFilePath.pyStr), pkgFile "base_model",
   s.enumsModuleName.pyStr ++ ".py", s.inputTypesModuleName.pyStr ++ ".py", s.fragmentsModuleName.pyStr ++ ".py"]
  ++ resultFiles ++ includedFiles env s

def duplicates : List String → List String
  | [] => []
  | x :: xs => if xs.contains x then x :: (duplicates xs).filter (· != x) else duplicates xs

/-- what the fragments step does: nothing when every fragment was unpacked, an error when a remaining
    fragment cannot be generated, otherwise the module is written -/
def fragmentsStep (frags : List FragInfo) : Option (Option PyErr) :=
  let remaining := frags.filter (fun f => !f.unpacked)
  if remaining.isEmpty then none else some (remaining.findSome? (·.genError))

/-- the steps of `generate` after the directory exists: (step, file written, error raised by the
    generator itself before writing) -/
def plannedSteps (env : Env) (s : ClientSettings) (sch : SchemaState) (resultFiles : List String)
    (frags : List FragInfo) : List (GenStep × String × Option PyErr) :=
  [(.inputTypes, s.inputTypesModuleName.pyStr ++ ".py", none)]
  ++ resultFiles.map (fun f => (.resultTypes f, f, none))
  ++ (match fragmentsStep frags with
      | none => []
      | some err => [(.fragments, s.fragmentsModuleName.pyStr ++ ".py", err)])
  ++ ((includedFiles env s ++ [String.ofList (pathName s.baseClientFilePath.pyStr), pkgFile "base_model"]).map
        (fun f => (.copyFile f, f, none)))
  ++ (if s.enableCustomOperations.truthy then
        [(.customTyping, "custom_typing_fields.py", none), (.customFields, "custom_fields.py", none)]
        ++ (if sch.hasQuery then [(.customQueries, "custom_queries.py", none)] else [])
        ++ (if sch.hasMutation then [(.customMutations, "custom_mutations.py", none)] else [])
      else [])
  ++ [(.client, s.clientFileName.pyStr ++ ".py", none), (.enums, s.enumsModuleName.pyStr ++ ".py", none),
      (.init, "__init__.py", none)]

/-- run the steps in order: a step either raises (nothing more is written) or writes its file -/
def runSteps (codeError : GenStep → Option PyErr) :
    List (GenStep × String × Option PyErr) → List Effect → Option PyErr × List Effect
  | [], log => (none, log)
  | (st, file, intrinsic) :: rest, log =>
    match intrinsic with
    | some e => (some e, log)
    | none =>
      match codeError st with
      | some e => (some e, log)
      | none => runSteps codeError rest (log ++ [.write file])

/-- insertion sort on file names (`sorted(self._generated_files)`) -/
def insertSorted (x : String) : List String → List String
  | [] => [x]
  | y :: ys => if x < y || x == y then x :: y :: ys else y :: insertSorted x ys
def sortNames (xs : List String) : List String := xs.foldr insertSorted []

/-- everything `main.client` has done when `package_generator.generate()` is entered -/
structure Prepared where
  settings : ClientSettings
  schema : SchemaState
  resultFiles : List String

/-- all phases of `main.client` before `generate()`: none of them can write (the type has no log) -/
def prepare (r : ClientRun) : Except (Phase × PyErr) Prepared := do
  let s ← match (getClientSettings r.env r.cfg).result with
    | .error e => throw (Phase.settings, PyErr.config e)
    | .ok s => pure s
  let sch ← match loadSchema s.schemaPath.truthy r.schema with
    | .error e => throw (Phase.loadSchema, e)
    | .ok sch => pure sch
  match resolvePlugins s.plugins r.plugins with
    | .error e => throw (Phase.plugins, e)
    | .ok () => pure ()
  let sch := processSchema r.plugins sch
  match assertValid sch with
    | .error e => throw (Phase.assertValid, e)
    | .ok () => pure ()
  let ops ← if s.queriesPath.truthy then
      match loadQueries r.queries with
      | .error e => throw (Phase.loadQueries, e)
      | .ok () => pure r.queries.ops
    else pure []
  let files ← match addOperations s.asyncClient.truthy ops [] with
    | .error e => throw (Phase.addOperation, e)
    | .ok fs => pure fs
  pure { settings := s, schema := sch, resultFiles := files }

/-- `PackageGenerator.generate` -/
def generate (r : ClientRun) (p : Prepared) : Outcome :=
  let dups := duplicates (allFileNames r.env p.settings p.resultFiles)
  if !dups.isEmpty then
    { result := .error (.generatePre, .codegen "ParsingError" ("Duplicated file names: " ++ ",".intercalate dups)),
      log := [] }
  else
    let log0 : List Effect := if r.pkgDirExists then [] else [.mkdir]
    let frags := if p.settings.queriesPath.truthy then r.queries.frags else []
    match runSteps r.codeError (plannedSteps r.env p.settings p.schema p.resultFiles frags) log0 with
    | (some e, log) => { result := .error (.generateWrite, e), log := log }
    | (none, log) =>
      { result := .ok (sortNames (log.filterMap fun | .write f => some f | .mkdir => none)), log := log }

/-- `main.client(config_dict)` -/
def client (r : ClientRun) : Outcome :=
  match prepare r with
  | .error e => { result := .error e, log := [] }
  | .ok p => generate r p

/-! ## the graphqlschema strategy -/

structure SchemaRun where
  env : Env
  cfg : Dict
  schema : SchemaOracle
  plugins : PluginsOracle := {}
  writeError : Option PyErr := none     -- raised while generating the text / by `Path.write_text` (e.g. missing parent directory)

/-- `main.graphql_schema(config_dict)` -/
def graphqlSchema (r : SchemaRun) : Outcome :=
  match (getSchemaSettings r.env r.cfg).result with
  | .error e => { result := .error (.settings, .config e), log := [] }
  | .ok s =>
    match loadSchema s.schemaPath.truthy r.schema with
    | .error e => { result := .error (.loadSchema, e), log := [] }
    | .ok sch =>
      match resolvePlugins s.plugins r.plugins with
      | .error e => { result := .error (.plugins, e), log := [] }
      | .ok () =>
        match assertValid (processSchema r.plugins sch) with
        | .error e => { result := .error (.assertValid, e), log := [] }
        | .ok () =>
          match r.writeError with
          | some e => { result := .error (.writeSchema, e), log := [] }
          | none => { result := .ok [s.targetFilePath.pyStr], log := [.write s.targetFilePath.pyStr] }

/-! ## trigger predicates of the known findings (decidable; twins of harness/c17.py `triggers`) -/

/- (C17-F2 `fragmentsModuleNameUnchecked` was repaired by /repo 0686a80: its trigger predicate is
   gone, `fragments_module_name` is check 16 of `ClientSettings.__post_init__` now.) -/

/-- C17-F7: the base client class check is a substring test -/
def trigClassSubstring (env : Env) (cfg : Dict) : Bool :=
  match (getClientSettings env cfg).result with
  | .ok s => !classDeclared env s.baseClientFilePath.pyStr s.baseClientName.pyStr
  | .error _ => false

/-- C17-F3: the schema is invalid but was built with assume_valid (and no plugin replaced it) -/
def trigInvalidSchemaAssumed (o : SchemaOracle) (p : PluginsOracle) : Bool :=
  o.buildError.isNone && o.trueErrors != 0 && p.replaces.isNone && codeAssumeValid

/-- C17-F4: `build_ast_schema` itself raises TypeError -/
def trigSchemaBuildTypeError (o : SchemaOracle) : Bool := o.buildError.isSome

/-- C17-F5: a fragment that ends up in the fragments module cannot be generated -/
def trigFragmentGenError (q : QueriesOracle) : Bool :=
  match fragmentsStep q.frags with
  | some (some _) => true
  | _ => false

/-- C17-F6: a schema / queries directory without any graphql file -/
def trigNoGraphqlFiles (r : ClientRun) : Bool :=
  match (getClientSettings r.env r.cfg).result with
  | .ok s => (s.schemaPath.truthy && r.schema.src.files.isEmpty) || (s.queriesPath.truthy && r.queries.src.files.isEmpty)
  | .error _ => false

/-- every graphql file of the source is readable text that parses on its own -/
def allFilesParse (s : Source) : Bool :=
  s.files.all fun pc => match pc.2 with
    | .text t => s.parses t
    | .unreadable _ => false

/-- the files each parse on their own, there is at least one, and their concatenation does not parse -/
def joinedBroken (s : Source) : Bool :=
  !s.files.isEmpty && allFilesParse s &&
    (match loadText s.parses s.root with
     | .ok t => !s.parses t
     | .error _ => false)

/-- C17-F9: graphql files that each parse on their own but whose concatenation does not (the second,
    unguarded `parse`) -/
def trigJoinedNotParsable (r : ClientRun) : Bool :=
  match (getClientSettings r.env r.cfg).result with
  | .ok s => (s.schemaPath.truthy && joinedBroken r.schema.src) || (s.queriesPath.truthy && joinedBroken r.queries.src)
  | .error _ => false

/-- C17-F8: an option value of a kind the option is not documented to take makes the settings code die
    with a bare Python exception (`AttributeError` / `KeyError` / `TypeError`) -/
def trigIllTypedInternal (env : Env) (cfg : Dict) : Bool :=
  match (getClientSettings env cfg).result with
  | .error (.internal _) => true
  | _ => false

def trigIllTypedInternalS (env : Env) (cfg : Dict) : Bool :=
  match (getSchemaSettings env cfg).result with
  | .error (.internal _) => true
  | _ => false

def clientTriggers (r : ClientRun) : List String :=
  (if trigInvalidSchemaAssumed r.schema r.plugins then ["invalidSchemaAssumedValid"] else [])
  ++ (if trigSchemaBuildTypeError r.schema then ["schemaBuildTypeError"] else [])
  ++ (if trigFragmentGenError r.queries then ["fragmentGenErrorAfterWrites"] else [])
  ++ (if trigNoGraphqlFiles r then ["noGraphqlFiles"] else [])
  ++ (if trigClassSubstring r.env r.cfg then ["baseClassSubstring"] else [])
  ++ (if trigIllTypedInternal r.env r.cfg then ["illTypedOptionInternal"] else [])
  ++ (if trigJoinedNotParsable r then ["joinedNotParsable"] else [])

def schemaTriggers (r : SchemaRun) : List String :=
  (if trigInvalidSchemaAssumed r.schema r.plugins then ["invalidSchemaAssumedValid"] else [])
  ++ (if trigSchemaBuildTypeError r.schema then ["schemaBuildTypeError"] else [])
  ++ (match (getSchemaSettings r.env r.cfg).result with
      | .ok s => (if s.schemaPath.truthy && r.schema.src.files.isEmpty then ["noGraphqlFiles"] else [])
                 ++ (if s.schemaPath.truthy && joinedBroken r.schema.src then ["joinedNotParsable"] else [])
      | .error _ => [])
  ++ (if trigIllTypedInternalS r.env r.cfg then ["illTypedOptionInternal"] else [])

end Ariadne.Pipeline
