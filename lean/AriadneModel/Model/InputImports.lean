/-
  Model of the custom-scalar imports of the generated `input_types.py` module (property C07: "every
  needed import is emitted"), client_generators/input_types.py `InputTypesGenerator`:

      __init__:   self._used_scalars: List[str] = []
                  self._class_defs = [self._parse_input_definition(d) for d in self._filter_input_types()]
                  #   per field:  annotation, field_type = parse_input_field_type(field.type, custom_scalars=…)
                  #               self._save_dependencies(root_type=definition.name, field_type=field_type)
      _save_dependencies(root_type, field_type=""):
                  if not field_type: return
                  if   isinstance(type_map[field_type], GraphQLInputObjectType): self._dependencies[root_type].append(field_type)
                  elif isinstance(type_map[field_type], GraphQLEnumType):        self._used_enums[root_type].append(field_type)
                  elif isinstance(type_map[field_type], GraphQLScalarType):      self._used_scalars.append(field_type)
      generate(types_to_include=None):
                  class_defs = self._filter_class_defs(types_to_include=types_to_include)
                  …
                  for scalar_name in self._used_scalars:                      # of ALL input types, emitted or not
                      scalar_data = self.custom_scalars[scalar_name]          # KeyError branch below
                      self._imports.extend(generate_scalar_imports(scalar_data))

  and the second component of client_generators/input_fields.py `parse_input_field_type`:

      scalar:  name in INPUT_SCALARS_MAP -> ""      |  name in custom_scalars -> name  |  else -> ""
      input object -> name        enum -> name       list / non-null -> that of the inner type

  package.py `_generate_input_types` calls `generate()` when `include_all_inputs` and
  `generate(types_to_include=arguments_generator.get_used_inputs())` otherwise; the class filter
  (`_filter_class_defs`, the dependency closure) is C09's model `Prune.filterInputDefs`, reused here.

  Input types are `Spec.Coerce.ISchema` entries (type_map order, user types only).  Core Lean only.
-/
import AriadneModel.Model.InputFields
import AriadneModel.Model.Prune

namespace Ariadne.InputImports
open Ariadne Ariadne.Scalars Ariadne.Coerce Ariadne.InputFields

/-- the named type under the list / non-null wrappers -/
def baseName : GT → String
  | .named n _ => n
  | .list it _ => baseName it

/-- second component of `parse_input_field_type` for a named type -/
def namedFieldType (scalars : ScalarCfg) (kind : String → TKind) (n : String) : String :=
  match kind n with
  | .scalar =>
    match Util.lookupStr n Tables.inputScalarsMap with
    | some _ => ""
    | none =>
      match lookupScalar scalars n with
      | some _ => n
      | none => ""
  | .input => n
  | .enum => n
  | .other => ""                     -- ParsingError in the generator; not an input type

/-- second component of `parse_input_field_type` -/
def fieldType (scalars : ScalarCfg) (kind : String → TKind) : GT → String
  | .named n _ => namedFieldType scalars kind n
  | .list it _ => fieldType scalars kind it

/-- `_save_dependencies(root_type, field_type)`: which of the three tables gets `field_type` -/
def refOf (kind : String → TKind) (ft : String) : Option Prune.Ref :=
  if ft == "" then none
  else match kind ft with
    | .input => some (.input ft)
    | .enum => some (.enum ft)
    | .scalar => some (.scalar ft)
    | .other => none

/-- `_class_defs` with what `_save_dependencies` recorded per field (C09's abstraction of an input type) -/
def inputDefsOf (s : ISchema) (scalars : ScalarCfg) : List Prune.InputDef :=
  s.types.filterMap fun p =>
    match p.2 with
    | .input fs => some { name := p.1, fields := fs.filterMap (fun f => refOf (kindOf s) (fieldType scalars (kindOf s) f.type)) }
    | _ => none

def scalarRefs (d : Prune.InputDef) : List String :=
  d.fields.filterMap fun | .scalar n => some n | _ => none

/-- `self._used_scalars` after `__init__`: appended for every field of EVERY input type, in order -/
def usedScalars (tbl : List Prune.InputDef) : List String := tbl.flatMap scalarRefs

inductive GenError where
  | keyError (scalar : String)       -- `self.custom_scalars[scalar_name]`
  | recursion                        -- `_get_dependencies_of_type` (never: `Prune.typesNames_spec`)
  deriving Repr, DecidableEq

/-- the loop `for scalar_name in self._used_scalars: … self._imports.extend(generate_scalar_imports(…))` -/
def scalarImportsOf (cfg : ScalarCfg) : List String → Except GenError (List Import)
  | [] => .ok []
  | sc :: rest =>
    match lookupScalar cfg sc with
    | none => .error (.keyError sc)
    | some d =>
      match scalarImportsOf cfg rest with
      | .ok is => .ok (scalarImports d ++ is)
      | .error e => .error e

/-- what C07 reads off the generated module: the emitted classes and the scalar imports -/
structure InputsModule where
  classes : List String
  usedScalars : List String
  scalarImports : List Import
  deriving Repr, DecidableEq

/-- `InputTypesGenerator(schema, custom_scalars=cfg).generate(types_to_include=roots)` -/
def generate (s : ISchema) (cfg : ScalarCfg) (roots : Option (List String)) : Except GenError InputsModule :=
  let tbl := inputDefsOf s cfg
  match Prune.filterInputDefs tbl roots with
  | none => .error .recursion
  | some cds =>
    match scalarImportsOf cfg (usedScalars tbl) with
    | .ok is => .ok ⟨cds.map (·.name), usedScalars tbl, is⟩
    | .error e => .error e

/-- `package.py _generate_input_types`: the roots are the arguments generator's used inputs unless
    `include_all_inputs` -/
def rootsFor (includeAllInputs : Bool) (usedInputs : List String) : Option (List String) :=
  if includeAllInputs then none else some usedInputs

end Ariadne.InputImports
