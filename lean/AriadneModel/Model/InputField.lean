/-
  Model of input-class generation for property C06 (`Model.InputField` + `Model.InputClass` of
  DESIGN.md §3 C06).  It EXTENDS the model written for C19 (`Model/InputGen.lean`: `TypeRef`, `Lit`,
  `PyExpr`, `constValue` = `parse_input_const_value_node`, `fieldDefault` =
  `parse_input_field_default_value`) with what C19 left out: configured custom scalars, Python field
  names (`process_name`, C18's `Model/Names.lean`) and the alias/default merge of
  `InputTypesGenerator._process_field_value`.  `annOf_eq_inputGen` (Proofs/InputField.lean) states that
  without configured scalars the annotation function here is the one of `InputGen`.

  Modelled Python (ariadne_codegen/client_generators/input_fields.py, input_types.py), quoted:

      def parse_input_field_type(type_, nullable=True, custom_scalars=None):
          if isinstance(type_, GraphQLScalarType):
              if type_.name in INPUT_SCALARS_MAP:
                  return generate_annotation_name(INPUT_SCALARS_MAP[type_.name], nullable), ""
              if custom_scalars and type_.name in custom_scalars:
                  annotation = generate_input_scalar_annotation(custom_scalars[type_.name])
                  if nullable: annotation = generate_nullable_annotation(annotation)
                  return (annotation, type_.name)
              return generate_annotation_name(ANY, nullable), ""
          if isinstance(type_, GraphQLInputObjectType):
              return generate_annotation_name('"' + type_.name + '"', nullable), type_.name
          if isinstance(type_, GraphQLEnumType):
              return generate_annotation_name(type_.name, nullable), type_.name
          if isinstance(type_, GraphQLList):
              slice_, type_name = parse_input_field_type(type_.of_type, nullable, custom_scalars)   # sic
              return generate_list_annotation(slice_, nullable), type_name
          if isinstance(type_, GraphQLNonNull):
              return parse_input_field_type(type_.of_type, False, custom_scalars)
          raise ParsingError("Invalid input field type.")

      def generate_input_scalar_annotation(data):        # scalars.py
          name_annotation = generate_name(data.type_name)
          if data.serialize_name:
              return Annotated[name_annotation, PlainSerializer(data.serialize_name)]
          return name_annotation

      # InputTypesGenerator._parse_input_definition, per field:
          name = process_name(org_name, convert_to_snake_case=self.convert_to_snake_case, ...,
                              trim_leading_underscore=True, handle_pydantic_resrved_field_names=True)
          annotation, field_type = parse_input_field_type(field.type, custom_scalars=self.custom_scalars)
          field_implementation = generate_ann_assign(target=name, annotation=annotation,
              value=parse_input_field_default_value(node=field.ast_node, annotation=annotation, field_type=field_type))
          if name != org_name:
              field_implementation.value = self._process_field_value(field_implementation, alias=org_name)

      def _process_field_value(self, field_implementation, alias):
          field_with_alias = generate_pydantic_field({ALIAS_KEYWORD: generate_constant(alias)})
          if field_implementation.value:
              if <value is a call of the name `Field`>:
                  field_with_alias.keywords.extend(field_implementation.value.keywords)
              else:
                  field_with_alias.keywords.append(generate_keyword(value=field_implementation.value, arg="default"))
          return field_with_alias

  Not modelled: plugins (none), `_save_dependencies`/imports (C09/C04).  Core Lean only.
-/
import AriadneModel.Model.InputGen
import AriadneModel.Model.Names

namespace Ariadne.InputField
open Ariadne
open Ariadne.InputGen (TypeRef Lit PyExpr InputField TypeDef)

/-! ### configuration -/

/-- one configured custom scalar (`ScalarData`): GraphQL name, `type_name`, `serialize_name` -/
structure ScalarCfg where
  name : String
  typeName : String
  serialize : Option String := none
  deriving Repr, DecidableEq

structure Cfg where
  snake : Bool                       -- convert_to_snake_case
  scalars : List ScalarCfg := []     -- custom_scalars
  deriving Repr

def Cfg.scalar? (cfg : Cfg) (n : String) : Option ScalarCfg := cfg.scalars.find? (·.name == n)

/-! ### annotations -/

inductive Ann where
  | name (s : String)
  | fwd (s : String)                       -- quoted forward reference `"In2"`
  | optional (a : Ann)
  | list (a : Ann)
  | annotated (ty ser : String)            -- `Annotated[ty, PlainSerializer(ser)]`
  deriving Repr, DecidableEq, Inhabited

def Ann.render : Ann → String
  | .name s => s
  | .fwd s => "\"" ++ s ++ "\""
  | .optional a => "Optional[" ++ a.render ++ "]"
  | .list a => "List[" ++ a.render ++ "]"
  | .annotated ty ser => "Annotated[" ++ ty ++ ", PlainSerializer(" ++ ser ++ ")]"

/-- what `parse_input_field_type` makes of a named type -/
inductive Kind where
  | builtin (py : String)                        -- name in INPUT_SCALARS_MAP
  | custom (ty : String) (ser : Option String)   -- configured custom scalar
  | any                                          -- any other scalar
  | enum
  | input
  | composite
  | unknown
  deriving Repr, DecidableEq

def scalarKind (cfg : Cfg) (n : String) : Kind :=
  match Tables.inputScalarsMap.lookup n with
  | some py => .builtin py
  | none =>
    match cfg.scalar? n with
    | some sc => .custom sc.typeName sc.serialize
    | none => .any

/-- how graphql-core resolves a type name (through `type_map`) and which branch of
    `parse_input_field_type` the result takes -/
def kindOf (cfg : Cfg) (defs : List TypeDef) (n : String) : Kind :=
  match InputGen.findDef defs n with
  | some (.enum _ _) => .enum
  | some (.input _ _) => .input
  | some (.composite _) => .composite
  | some (.scalar _) => scalarKind cfg n
  | none => if InputGen.specifiedScalars.contains n then scalarKind cfg n else .unknown

def wrapNullable (nullable : Bool) (a : Ann) : Ann := if nullable then .optional a else a

/-- `parse_input_field_type(type_, nullable)`: annotation and `field_type`; `none` = ParsingError -/
def annOf (kinds : String → Kind) : TypeRef → Bool → Option (Ann × String)
  | .named n, nullable =>
    match kinds n with
    | .builtin py => some (wrapNullable nullable (.name py), "")
    | .custom ty (some ser) => some (wrapNullable nullable (.annotated ty ser), n)
    | .custom ty none => some (wrapNullable nullable (.name ty), n)
    | .any => some (wrapNullable nullable (.name "Any"), "")
    | .input => some (wrapNullable nullable (.fwd n), n)
    | .enum => some (wrapNullable nullable (.name n), n)
    | .composite => none
    | .unknown => none
  | .list t, nullable =>
    match annOf kinds t nullable with         -- sic: the element inherits the list's flag
    | some (a, ft) => some (wrapNullable nullable (.list a), ft)
    | none => none
  | .nonNull t, _ => annOf kinds t false

/-! ### names -/

/-- `process_name(org_name, snake, trim_leading_underscore=True, handle_pydantic_resrved_field_names=True)` -/
def pyName (snake : Bool) (n : String) : String :=
  String.ofList (Names.pyName snake .inputField n.toList)

/-! ### the value of the emitted `AnnAssign` -/

/-- keywords after `alias=` in `Field(alias=..., ...)` -/
inductive FieldKw where
  | none                                   -- `Field(alias="x")`
  | default (e : PyExpr)                   -- `Field(alias="x", default=e)`
  | factory (body : PyExpr)                -- `Field(alias="x", default_factory=lambda: body)`
  | factoryModel (ty : String) (arg : PyExpr)   -- `Field(alias="x", default_factory=lambda: globals()[ty].model_validate(arg))`
  deriving Repr

inductive Value where
  | absent                                 -- `name: Ann`
  | expr (e : PyExpr)                      -- `name: Ann = e`   (e may be a `Field(default_factory=...)` call)
  | field (alias : String) (kw : FieldKw)  -- `name: Ann = Field(alias=..., kw)`
  deriving Repr

/-- `_process_field_value`: a value that is a call of `Field` has its keywords spliced in, any
    other value becomes `default=` -/
def processFieldValue (alias : String) : Option PyExpr → Value
  | none => .field alias .none
  | some (.fieldFactory b) => .field alias (.factory b)
  | some (.fieldFactoryModel t a) => .field alias (.factoryModel t a)
  | some e => .field alias (.default e)

structure FieldDecl where
  py : String
  ann : Ann
  value : Value
  deriving Repr

/-- one iteration of the loop of `_parse_input_definition` -/
def genField (cfg : Cfg) (kinds : String → Kind) (f : InputField) : Option FieldDecl :=
  match annOf kinds f.type true with
  | none => none
  | some (a, ft) =>
    let py := pyName cfg.snake f.name
    let v := InputGen.fieldDefault .sdl ft f
    some ⟨py, a, if py != f.name then processFieldValue f.name v
                 else match v with | none => .absent | some e => .expr e⟩

structure ClassDecl where
  name : String
  fields : List (Option FieldDecl)       -- `none`: ParsingError
  deriving Repr

def genClass (cfg : Cfg) (kinds : String → Kind) (name : String) (fs : List InputField) : ClassDecl :=
  ⟨name, fs.map (genField cfg kinds)⟩

def classOf (cfg : Cfg) (kinds : String → Kind) : TypeDef → Option ClassDecl
  | .input n fs => some (genClass cfg kinds n fs)
  | _ => none

/-- the class definitions of `input_types.py`, in `type_map` order -/
def classes (cfg : Cfg) (defs : List TypeDef) : List ClassDecl := defs.filterMap (classOf cfg (kindOf cfg defs))

/-! ### what pydantic is told about a field (derived from the emitted value) -/

/-- alias, and the default: `none` = required; `some e` with `e = .fieldFactory _ / .fieldFactoryModel _ _`
    is a `default_factory`, any other `e` a plain `default` -/
def Value.alias : Value → Option String
  | .absent => none
  | .expr _ => none
  | .field a _ => some a

def Value.default : Value → Option PyExpr
  | .absent => none
  | .expr e => some e
  | .field _ .none => none
  | .field _ (.default e) => some e
  | .field _ (.factory b) => some (.fieldFactory b)
  | .field _ (.factoryModel t a) => some (.fieldFactoryModel t a)

def FieldDecl.required (d : FieldDecl) : Bool := d.value.default.isNone

/-! ### finding triggers (decidable; Python twins in harness/c06.py) -/

/-- C06-F1: a list whose item type is nullable, below a NonNull wrapper (`[T]!`, `[[T]!]`, `[[T]]!` …):
    `parse_input_field_type` never switches `nullable` back on, so the item loses its `Optional`. -/
def nullableItemUnderNonNull : Bool → TypeRef → Bool
  | _, .named _ => false
  | _, .nonNull t => nullableItemUnderNonNull true t
  | seenNonNull, .list t => (seenNonNull && !t.isNonNull) || nullableItemUnderNonNull seenNonNull t

def trigNullableListItem (t : TypeRef) : Bool := nullableItemUnderNonNull false t

mutual
  def Lit.hasEnum : Lit → Bool
    | .enum _ => true
    | .list xs => Lit.anyEnum xs
    | .obj kvs => Lit.anyEnumKv kvs
    | _ => false
  def Lit.anyEnum : List Lit → Bool
    | [] => false
    | x :: xs => Lit.hasEnum x || Lit.anyEnum xs
  def Lit.anyEnumKv : List (String × Lit) → Bool
    | [] => false
    | (_, v) :: rest => Lit.hasEnum v || Lit.anyEnumKv rest
end

mutual
  def Lit.hasKwEnum : Lit → Bool
    | .enum v => Tables.kwlist.contains v
    | .list xs => Lit.anyKwEnum xs
    | .obj kvs => Lit.anyKwEnumKv kvs
    | _ => false
  def Lit.anyKwEnum : List Lit → Bool
    | [] => false
    | x :: xs => Lit.hasKwEnum x || Lit.anyKwEnum xs
  def Lit.anyKwEnumKv : List (String × Lit) → Bool
    | [] => false
    | (_, v) :: rest => Lit.hasKwEnum v || Lit.anyKwEnumKv rest
end

mutual
  /-- an object literal inside a list literal and outside every object literal -/
  def Lit.objInList : Bool → Lit → Bool
    | inList, .obj _ => inList
    | _, .list xs => Lit.anyObjInList xs
    | _, _ => false
  def Lit.anyObjInList : List Lit → Bool
    | [] => false
    | x :: xs => Lit.objInList true x || Lit.anyObjInList xs
end

def Lit.isObj : Lit → Bool
  | .obj _ => true
  | _ => false

/-- C06-F2: an enum literal in the default of a field whose named type is not an enum: the emitted
    name is `<field_type>.<VALUE>` with the INPUT class (`In2.B`, AttributeError when the factory runs),
    or `.<VALUE>` / `<Scalar>.<VALUE>` for a scalar -/
def trigEnumInObjectDefault (kinds : String → Kind) (f : InputField) : Bool :=
  match f.default with
  | some lit => Lit.hasEnum lit && kinds f.type.base != .enum
  | none => false

/-- C06-F3: a keyword-named enum value in a default: `E.class` / `E.None` is not Python -/
def trigKeywordEnumDefault (f : InputField) : Bool :=
  match f.default with
  | some lit => Lit.hasKwEnum lit
  | none => false

/-- C06-F4: an object literal directly inside a list default: the `Field(default_factory=…)` call is
    emitted INSIDE the list (`nested_object` is still false), the default is a list of `FieldInfo`s -/
def trigObjectInListDefault (f : InputField) : Bool :=
  match f.default with
  | some lit => Lit.objInList false lit
  | none => false

/-- C06-F6: an object literal as the default of a scalar-typed field: `globals()[""]` -/
def trigObjectDefaultOnScalar (kinds : String → Kind) (f : InputField) : Bool :=
  match f.default with
  | some lit => Lit.isObj lit && kinds f.type.base != .input
  | none => false

/-- strip leading NonNull wrappers -/
def unNN : TypeRef → TypeRef
  | .nonNull t => unNN t
  | t => t

mutual
  /-- C06-F5: the literal is not its own coerced value: an int literal where an `ID` is expected
      (`"5"`), or a non-list literal where a list is expected (`[5]`); the generator copies the
      literal, pydantic does not validate defaults and rejects both inside `model_validate` -/
  def coercing (defs : List TypeDef) : TypeRef → Lit → Bool
    | _, .null => false
    | t, .list xs =>
      match unNN t with
      | .list it => coercingList defs it xs
      | _ => false
    | t, .obj kvs =>
      match unNN t with
      | .list _ => true
      | .named n =>
        match InputGen.findDef defs n with
        | some (.input _ fs) => coercingKvs defs fs kvs
        | _ => false
      | .nonNull _ => false
    | t, .int _ =>
      match unNN t with
      | .list _ => true
      | .named n => n == "ID"
      | .nonNull _ => false
    | t, _ =>
      match unNN t with
      | .list _ => true
      | _ => false
  def coercingList (defs : List TypeDef) : TypeRef → List Lit → Bool
    | _, [] => false
    | t, x :: xs => coercing defs t x || coercingList defs t xs
  def coercingKvs (defs : List TypeDef) (fs : List InputField) : List (String × Lit) → Bool
    | [] => false
    | (k, v) :: rest =>
      (match fs.find? (·.name == k) with
       | some f => coercing defs f.type v
       | none => false) || coercingKvs defs fs rest
end

def trigCoercingDefault (defs : List TypeDef) (f : InputField) : Bool :=
  match f.default with
  | some lit => coercing defs f.type lit
  | none => false

/-- Python names of the fields of one input type are usable: pairwise different, and none equals the
    GraphQL name of ANOTHER field (pydantic looks a key up as alias first, then as name) -/
def namesDistinct : List String → Bool
  | [] => true
  | x :: xs => !xs.contains x && namesDistinct xs

def pyIdentOk (p : String) : Bool :=
  match p.toList with
  | [] => false
  | c :: cs => (Names.cls c != .D && Names.isWordChar c) && cs.all Names.isWordChar && !Tables.kwlist.contains p

/-- C06-F7 (= C18-F1..F5, F7 seen from an input class): two fields share a Python name, a Python
    name is the GraphQL name of another field, or a name is not an identifier / is a keyword -/
def trigNameDefect (snake : Bool) (fs : List InputField) : Bool :=
  let names := fs.map (·.name)
  let pys := names.map (pyName snake)
  !(namesDistinct pys) || pys.any (fun p => !pyIdentOk p)
    || fs.any (fun f => fs.any (fun g => g.name != f.name && pyName snake f.name == g.name))

def fieldTriggers (cfg : Cfg) (defs : List TypeDef) (f : InputField) : List (String × Bool) :=
  let kinds := kindOf cfg defs
  [("trigNullableListItem", trigNullableListItem f.type),
   ("trigEnumInObjectDefault", trigEnumInObjectDefault kinds f),
   ("trigKeywordEnumDefault", trigKeywordEnumDefault f),
   ("trigObjectInListDefault", trigObjectInListDefault f),
   ("trigCoercingDefault", trigCoercingDefault defs f),
   ("trigObjectDefaultOnScalar", trigObjectDefaultOnScalar kinds f)]

def fieldSupported (cfg : Cfg) (defs : List TypeDef) (f : InputField) : Bool :=
  (fieldTriggers cfg defs f).all (fun p => !p.2)

/-- `Supported_06`: no finding trigger fires anywhere in the schema's input types -/
def supported (cfg : Cfg) (defs : List TypeDef) : Bool :=
  defs.all fun
    | .input _ fs => !trigNameDefect cfg.snake fs && fs.all (fieldSupported cfg defs)
    | _ => true

end Ariadne.InputField
