/-
  Model of ariadne_codegen/settings.py + config.py (C17).

  * `ClientSettings.__post_init__` / `GraphQLSchemaSettings.__post_init__` (with
    `BaseSettings.__post_init__`) as an ORDERED LIST OF CHECKS over what the code can see of the
    outside world (`Env`: the file system through `Path.exists/is_dir/is_file/read_text`,
    `os.environ`, `str.isidentifier`, `Path.cwd()`); `keyword.iskeyword` is the regenerated table
    `Tables.kwlist`, the comment modes are `Tables.commentsStrategies`, the set of accepted keys is
    `Tables.clientSettingsFields` / `Tables.schemaSettingsFields`.
  * `config.get_section`, `get_client_settings` (`.copy()`, scalars parsing, bool
    `include_comments`, unknown-key filter, `TypeError -> MissingConfiguration`),
    `get_graphql_schema_settings`, with the caller's dict as explicit state (`Heap`).

  The Python, for reference (settings.py, in execution order of `ClientSettings.__post_init__`):

      if not self.queries_path and not self.enable_custom_operations: raise TypeError(...)      -- 0
      if not self.schema_path and not self.remote_schema_url: raise InvalidConfiguration(...)   -- 1
      if self.schema_path: assert_path_exists(self.schema_path)                                 -- 2
      self.remote_schema_headers = resolve_headers(self.remote_schema_headers)                  -- 3
      self.include_comments = CommentsStrategy(self.include_comments)   (ValueError -> Invalid) -- 4
      self._set_default_base_client_data()
      assert_path_exists(self.queries_path)                                                     -- 5
      assert_string_is_valid_python_identifier(self.target_package_name)                        -- 6
      assert_path_is_valid_directory(self.target_package_path)                                  -- 7
      assert_string_is_valid_python_identifier(self.client_name)                                -- 8
      assert_string_is_valid_python_identifier(self.client_file_name)                           -- 9
      assert_string_is_valid_python_identifier(self.base_client_name)                           -- 10
      assert_path_exists(self.base_client_file_path)                                            -- 11
      assert_path_is_valid_file(self.base_client_file_path)                                     -- 12
      assert_class_is_defined_in_file(Path(self.base_client_file_path), self.base_client_name)  -- 13
      assert_string_is_valid_python_identifier(self.enums_module_name)                          -- 14
      assert_string_is_valid_python_identifier(self.input_types_module_name)                    -- 15
      assert_string_is_valid_python_identifier(self.fragments_module_name)                      -- 16
      for file_path in self.files_to_include: assert_path_is_valid_file(file_path)              -- 17
      (check 16 was added by /repo 0686a80, which repaired finding C17-F2: until then
       fragments_module_name was the only module-name option that was never checked)

  Domain: well-typed option values (strings for string options, booleans for flags, lists of
  strings, tables of strings); anything else is answered `.illTyped key` and is outside the
  compared domain.  Names are ASCII in the correspondence (`Env.isIdent` is Python's
  `str.isidentifier`, abstract here; `asciiIdent` is its ASCII restriction used by the driver).
  Core Lean only.
-/
import AriadneModel.Model.Json
import AriadneModel.Generated.Tables

namespace Ariadne.Settings
open Ariadne

/-! ## the outside world -/

structure Env where
  pathExists : String → Bool          -- Path(p).exists()
  isDir : String → Bool               -- Path(p).is_dir()
  isFile : String → Bool              -- Path(p).is_file()
  readText : String → String          -- Path(p).read_text() (consulted only after is_file)
  environ : String → Option String    -- os.environ.get
  isIdent : String → Bool             -- str.isidentifier
  cwd : String                        -- Path.cwd().as_posix()
  defaultPath : String → String       -- kind of bundled base client ↦ DEFAULT_*_PATH.as_posix()

/-! ## errors -/

inductive ConfigError where
  | missingSection                              -- MissingConfiguration (get_section)
  | scalarMissingType                           -- MissingConfiguration (KeyError 'type')
  | missingFields (names : List String)         -- MissingConfiguration (TypeError from __post_init__)
  | noSchemaSource                              -- InvalidConfiguration ...
  | pathMissing (p : String)
  | notDirectory (p : String)
  | notFile (p : String)
  | badIdentifier (n : String)
  | badCommentMode (v : String)
  | envVarMissing (name : String)
  | classNotInFile (cls path : String)
  | targetNoFileType (f : String)
  | targetBadFileType (f t : String)
  | illTyped (key : String)                     -- outside the modelled domain (ill-typed option value)
  | internal (exc : String)                     -- any other Python exception (never produced on the pinned tables)
  deriving Repr, DecidableEq, Inhabited

deriving instance DecidableEq for Except

/-- the Python exception class that surfaces -/
def ConfigError.pyClass : ConfigError → String
  | .missingSection | .scalarMissingType | .missingFields _ => "MissingConfiguration"
  | .illTyped _ => "unmodelled"
  | .internal e => e
  | _ => "InvalidConfiguration"

/-- is the error one of ariadne-codegen's own exception classes? -/
def ConfigError.typed (e : ConfigError) : Bool :=
  e.pyClass == "MissingConfiguration" || e.pyClass == "InvalidConfiguration"

/-- `str(exc)`; `missingFields` is joined from a Python *set* (order not determined): the names are
    compared as a set by the harness. -/
def ConfigError.message : ConfigError → String
  | .missingSection => "Config has no [tool.ariadne-codegen] section."
  | .scalarMissingType => "Missing 'type' field for scalar definition"
  | .missingFields ns => "Missing configuration fields: " ++ ", ".intercalate ns
  | .noSchemaSource => "Schema source not provided. Use schema_path or remote_schema_url"
  | .pathMissing p => "Provided path " ++ p ++ " doesn't exist."
  | .notDirectory p => "Provided path " ++ p ++ " isn't a directory."
  | .notFile p => "Provided path " ++ p ++ " isn't a file."
  | .badIdentifier n => "Provided name " ++ n ++ " cannot be used as python identifier."
  | .badCommentMode v =>
      "'" ++ v ++ "' is not a valid choice. Valid options are: " ++ ", ".intercalate Tables.commentsStrategies
  | .envVarMissing n => "Environment variable " ++ n ++ " not found."
  | .classNotInFile c p => "Cannot import " ++ c ++ " from " ++ p
  | .targetNoFileType f => "Provided file name " ++ f ++ " is missing a file type."
  | .targetBadFileType f t =>
      "Provided file name " ++ f ++ " has an invalid type " ++ t ++ ". Valid types are py, graphql and gql."
  | .illTyped k => "ill-typed value for " ++ k
  | .internal e => e

/-! ## small pieces of Python -/

/-- ASCII restriction of `str.isidentifier`: `[A-Za-z_][A-Za-z0-9_]*`. -/
def asciiIdentChars : List Char → Bool
  | [] => false
  | c :: cs => (c.isAlpha || c == '_') && cs.all (fun d => d.isAlphanum || d == '_')

def asciiIdent (s : String) : Bool := asciiIdentChars s.toList

/-- `keyword.iskeyword` -/
def isKeyword (s : String) : Bool := Tables.kwlist.contains s

/-- what `assert_string_is_valid_python_identifier` accepts:
    `not (not name.isidentifier() or iskeyword(name))` -/
def validName (env : Env) (n : String) : Bool := env.isIdent n && !isKeyword n

/-- `pat in text` on character lists -/
def isInfixOf (pat : List Char) : List Char → Bool
  | [] => pat.isEmpty
  | c :: cs => pat.isPrefixOf (c :: cs) || isInfixOf pat cs

/-- `f"class {class_name}" in file_content` (a SUBSTRING test: finding C17-F7) -/
def classDefinedIn (env : Env) (path cls : String) : Bool :=
  isInfixOf ("class " ++ cls).toList (env.readText path).toList

def identCont (c : Char) : Bool := c.isAlphanum || c == '_'

/-- an occurrence of `pat` that is not continued by an identifier character -/
def declaredChars (pat : List Char) : List Char → Bool
  | [] => false
  | c :: cs =>
    (pat.isPrefixOf (c :: cs) && !((((c :: cs).drop pat.length).head?.map identCont).getD false))
      || declaredChars pat cs

/-- SPECIFICATION side (not what the code does): the file contains a `class <cls>` statement head,
    i.e. "class <cls>" followed by something that does not continue the identifier.  A necessary
    condition for the class to be importable from the file. -/
def classDeclared (env : Env) (path cls : String) : Bool :=
  declaredChars ("class " ++ cls).toList (env.readText path).toList

/-- split at '/' (like `str.split("/")`) -/
def splitSlash : List Char → List (List Char)
  | [] => [[]]
  | c :: cs =>
    match splitSlash cs with
    | [] => [[]]           -- unreachable: the result is never empty
    | p :: ps => if c == '/' then [] :: p :: ps else (c :: p) :: ps

/-- `Path(p).name` (posix flavour): last component that is neither empty nor "." -/
def pathName (p : String) : List Char :=
  ((splitSlash p.toList).filter (fun comp => comp != [] && comp != ['.'])).getLast?.getD []

/-- index of the last '.' in a name (`str.rfind('.')`), `none` = -1 -/
def rfindDot (name : List Char) : Option Nat :=
  let rec go (i : Nat) (best : Option Nat) : List Char → Option Nat
    | [] => best
    | c :: cs => go (i + 1) (if c == '.' then some i else best) cs
  go 0 none name

/-- `Path(p).suffix` (CPython 3.12: `i = name.rfind('.'); name[i:] if 0 < i < len(name) - 1 else ''`) -/
def pathSuffix (p : String) : List Char :=
  let name := pathName p
  match rfindDot name with
  | some i => if 0 < i && i + 1 < name.length then name.drop i else []
  | none => []

def asciiLower (cs : List Char) : String := String.ofList (cs.map Char.toLower)

/-- `value.lstrip("$")` -/
def lstripDollar (s : String) : String := String.ofList (s.toList.dropWhile (· == '$'))

/-- `get_header_value` -/
def headerValue (env : Env) (v : String) : Except ConfigError String :=
  if v.toList.head? == some '$' then
    let name := lstripDollar v
    match env.environ name with
    | some val => if val == "" then .error (.envVarMissing name) else .ok val   -- `if not var_value`
    | none => .error (.envVarMissing name)
  else .ok v

/-- `resolve_headers`: a dict comprehension, the first failing value raises -/
def resolveHeaders (env : Env) : List (String × String) → Except ConfigError (List (String × String))
  | [] => .ok []
  | (k, v) :: rest =>
    match headerValue env v with
    | .error e => .error e
    | .ok v' =>
      match resolveHeaders env rest with
      | .error e => .error e
      | .ok rest' => .ok ((k, v') :: rest')

def firstBadHeader (env : Env) (hs : List (String × String)) : Option ConfigError :=
  match resolveHeaders env hs with
  | .error e => some e
  | .ok _ => none

/-- `for file_path in files: assert_path_is_valid_file(file_path)` -/
def firstNonFile (env : Env) : List String → Option ConfigError
  | [] => none
  | f :: fs => if env.isFile f then firstNonFile env fs else some (.notFile f)

/-- `assert_string_is_valid_schema_target_filename` -/
def targetFileCheck (f : String) : Option ConfigError :=
  let suf := pathSuffix f
  if suf.isEmpty then some (.targetNoFileType f)
  else
    let t := asciiLower (suf.drop 1)
    if t == "py" || t == "graphql" || t == "gql" then none else some (.targetBadFileType f t)

/-! ## the settings records (after the dataclass `__init__` assigned fields and defaults) -/

structure ScalarData where
  graphqlName : String
  type_ : String
  serialize : Option String
  parse : Option String
  import_ : Option String
  deriving Repr, DecidableEq

structure BaseSettings where
  schemaPath : String := ""
  remoteSchemaUrl : String := ""
  remoteSchemaHeaders : List (String × String) := []
  remoteSchemaVerifySsl : Bool := true
  enableCustomOperations : Bool := false
  plugins : List String := []
  deriving Repr, DecidableEq

structure ClientSettings extends BaseSettings where
  queriesPath : String := ""
  targetPackageName : String := "graphql_client"
  targetPackagePath : String              -- default: Path.cwd().as_posix()
  clientName : String := "Client"
  clientFileName : String := "client"
  baseClientName : String := ""
  baseClientFilePath : String := ""
  enumsModuleName : String := "enums"
  inputTypesModuleName : String := "input_types"
  fragmentsModuleName : String := "fragments"
  includeComments : String := "stable"
  convertToSnakeCase : Bool := true
  includeAllInputs : Bool := true
  includeAllEnums : Bool := true
  asyncClient : Bool := true
  opentelemetryClient : Bool := false
  filesToInclude : List String := []
  scalars : List ScalarData := []
  /-- names of `fields(ClientSettings)` that are not keys of the section (for the
      `MissingConfiguration` message built in `get_client_settings`) -/
  missing : List String := []
  deriving Repr, DecidableEq

structure SchemaSettings extends BaseSettings where
  targetFilePath : String := "schema.py"
  schemaVariableName : String := "schema"
  typeMapVariableName : String := "type_map"
  deriving Repr, DecidableEq

/-! ## `_set_default_base_client_data` -/

def clientKind (isAsync otel : Bool) : String :=
  match isAsync, otel with
  | true, true => "asyncOT"
  | true, false => "async"
  | false, true => "syncOT"
  | false, false => "sync"

/-- class name of the bundled base client of a kind (table regenerated from constants.py) -/
def defaultClassName (kind : String) : Option String :=
  (Tables.defaultBaseClients.find? (fun t => t.1 == kind)).map (fun t => t.2.1)

/-- `(base_client_name, base_client_file_path)` after `_set_default_base_client_data` -/
def baseClientData (env : Env) (s : ClientSettings) : String × String :=
  if s.baseClientName == "" && s.baseClientFilePath == "" then
    let kind := clientKind s.asyncClient s.opentelemetryClient
    ((defaultClassName kind).getD "", env.defaultPath kind)
  else (s.baseClientName, s.baseClientFilePath)

/-! ## the ordered checks -/

inductive ClientCheck where
  | queriesRequired | schemaSource | schemaPathExists | headers | commentMode | queriesPathExists
  | packageName | packagePathDir | clientName | clientFileName | baseClientName
  | baseClientPathExists | baseClientIsFile | baseClientClass | enumsModule | inputTypesModule
  | fragmentsModule | filesToInclude
  deriving Repr, DecidableEq

/-- execution order of `ClientSettings.__post_init__` -/
def ClientCheck.order : List ClientCheck :=
  [.queriesRequired, .schemaSource, .schemaPathExists, .headers, .commentMode, .queriesPathExists,
   .packageName, .packagePathDir, .clientName, .clientFileName, .baseClientName,
   .baseClientPathExists, .baseClientIsFile, .baseClientClass, .enumsModule, .inputTypesModule,
   .fragmentsModule, .filesToInclude]

def identCheck (env : Env) (n : String) : Option ConfigError :=
  if validName env n then none else some (.badIdentifier n)

/-- one check of `ClientSettings.__post_init__`: `none` = passes, `some e` = raises `e` -/
def evalClientCheck (env : Env) (s : ClientSettings) : ClientCheck → Option ConfigError
  | .queriesRequired =>
      if s.queriesPath == "" && !s.enableCustomOperations then some (.missingFields s.missing) else none
  | .schemaSource =>
      if s.schemaPath == "" && s.remoteSchemaUrl == "" then some .noSchemaSource else none
  | .schemaPathExists =>
      if s.schemaPath != "" && !env.pathExists s.schemaPath then some (.pathMissing s.schemaPath) else none
  | .headers => firstBadHeader env s.remoteSchemaHeaders
  | .commentMode =>
      if Tables.commentsStrategies.contains s.includeComments then none
      else some (.badCommentMode s.includeComments)
  | .queriesPathExists =>
      if env.pathExists s.queriesPath then none else some (.pathMissing s.queriesPath)
  | .packageName => identCheck env s.targetPackageName
  | .packagePathDir =>
      if env.isDir s.targetPackagePath then none else some (.notDirectory s.targetPackagePath)
  | .clientName => identCheck env s.clientName
  | .clientFileName => identCheck env s.clientFileName
  | .baseClientName => identCheck env (baseClientData env s).1
  | .baseClientPathExists =>
      if env.pathExists (baseClientData env s).2 then none else some (.pathMissing (baseClientData env s).2)
  | .baseClientIsFile =>
      if env.isFile (baseClientData env s).2 then none else some (.notFile (baseClientData env s).2)
  | .baseClientClass =>
      if classDefinedIn env (baseClientData env s).2 (baseClientData env s).1 then none
      else some (.classNotInFile (baseClientData env s).1 (baseClientData env s).2)
  | .enumsModule => identCheck env s.enumsModuleName
  | .inputTypesModule => identCheck env s.inputTypesModuleName
  | .fragmentsModule => identCheck env s.fragmentsModuleName
  | .filesToInclude => firstNonFile env s.filesToInclude

/-- the first check (in order) that raises -/
def firstError {κ : Type} (eval : κ → Option ConfigError) : List κ → Option ConfigError
  | [] => none
  | k :: ks => match eval k with
    | some e => some e
    | none => firstError eval ks

/-- the settings object as it is after a successful `__post_init__` -/
def finalizeClient (env : Env) (s : ClientSettings) : ClientSettings :=
  { s with
    remoteSchemaHeaders := (match resolveHeaders env s.remoteSchemaHeaders with
                            | .ok hs => hs | .error _ => s.remoteSchemaHeaders)
    baseClientName := (baseClientData env s).1
    baseClientFilePath := (baseClientData env s).2 }

/-- `ClientSettings.__post_init__` -/
def clientPostInit (env : Env) (s : ClientSettings) : Except ConfigError ClientSettings :=
  match firstError (evalClientCheck env s) ClientCheck.order with
  | some e => .error e
  | none => .ok (finalizeClient env s)

inductive SchemaCheck where
  | schemaSource | schemaPathExists | headers | targetFileType | schemaVariable | typeMapVariable
  deriving Repr, DecidableEq

/-- execution order of `GraphQLSchemaSettings.__post_init__` -/
def SchemaCheck.order : List SchemaCheck :=
  [.schemaSource, .schemaPathExists, .headers, .targetFileType, .schemaVariable, .typeMapVariable]

def evalSchemaCheck (env : Env) (s : SchemaSettings) : SchemaCheck → Option ConfigError
  | .schemaSource =>
      if s.schemaPath == "" && s.remoteSchemaUrl == "" then some .noSchemaSource else none
  | .schemaPathExists =>
      if s.schemaPath != "" && !env.pathExists s.schemaPath then some (.pathMissing s.schemaPath) else none
  | .headers => firstBadHeader env s.remoteSchemaHeaders
  | .targetFileType => targetFileCheck s.targetFilePath
  | .schemaVariable => identCheck env s.schemaVariableName
  | .typeMapVariable => identCheck env s.typeMapVariableName

def finalizeSchema (env : Env) (s : SchemaSettings) : SchemaSettings :=
  { s with
    remoteSchemaHeaders := (match resolveHeaders env s.remoteSchemaHeaders with
                            | .ok hs => hs | .error _ => s.remoteSchemaHeaders) }

/-- `GraphQLSchemaSettings.__post_init__` -/
def schemaPostInit (env : Env) (s : SchemaSettings) : Except ConfigError SchemaSettings :=
  match firstError (evalSchemaCheck env s) SchemaCheck.order with
  | some e => .error e
  | none => .ok (finalizeSchema env s)

/-! ## config.py: from the configuration dict to the dataclass -/

abbrev Dict := List (String × J)

def clientFieldNames : List String := Tables.clientSettingsFields.map (·.1)
def schemaFieldNames : List String := Tables.schemaSettingsFields.map (·.1)

/-- `dict[k] = v` (keeps the position of an existing key, appends a new one) -/
def dictSet (k : String) (v : J) : Dict → Dict
  | [] => [(k, v)]
  | (k', v') :: rest => if k' == k then (k, v) :: rest else (k', v') :: dictSet k v rest

/-- `get_section`: `(section, deprecated top-level section used?)`.
    `[tool.ariadne-codegen]` wins over the deprecated `[ariadne-codegen]`. -/
def getSection : J → Except ConfigError (Dict × Bool)
  | .obj top =>
    let fallback : Except ConfigError (Dict × Bool) :=
      match J.lookup "ariadne-codegen" top with
      | some (.obj sec) => .ok (sec, true)
      | some _ => .error (.illTyped "ariadne-codegen")
      | none => .error .missingSection
    match J.lookup "tool" top with
    | some (.obj tool) =>
      match J.lookup "ariadne-codegen" tool with
      | some (.obj sec) => .ok (sec, false)
      | some _ => .error (.illTyped "tool.ariadne-codegen")
      | none => fallback
    | some _ => .error (.illTyped "tool")
    | none => fallback
  | _ => .error (.illTyped "config")

def optStr (k : String) (d : Dict) : Except ConfigError (Option String) :=
  match J.lookup k d with
  | none => .ok none
  | some .null => .ok none
  | some (.str s) => .ok (some s)
  | some _ => .error (.illTyped ("scalars." ++ k))

/-- one `ScalarData(type_=data["type"], serialize=data.get("serialize"), ...)` -/
def parseScalar (name : String) : J → Except ConfigError ScalarData
  | .obj d =>
    match J.lookup "type" d with
    | none => .error .scalarMissingType                    -- KeyError -> MissingConfiguration
    | some (.str t) => do
      let ser ← optStr "serialize" d
      let par ← optStr "parse" d
      let imp ← optStr "import" d
      pure { graphqlName := name, type_ := t, serialize := ser, parse := par, import_ := imp }
    | some _ => .error (.illTyped "scalars.type")
  | _ => .error (.illTyped "scalars")

def parseScalars : List (String × J) → Except ConfigError (List ScalarData)
  | [] => .ok []
  | (n, d) :: rest => do
    let s ← parseScalar n d
    let ss ← parseScalars rest
    pure (s :: ss)

def getStr (sec : Dict) (k dflt : String) : Except ConfigError String :=
  match J.lookup k sec with
  | none => .ok dflt
  | some (.str s) => .ok s
  | some _ => .error (.illTyped k)

def getBool (sec : Dict) (k : String) (dflt : Bool) : Except ConfigError Bool :=
  match J.lookup k sec with
  | none => .ok dflt
  | some (.bool b) => .ok b
  | some _ => .error (.illTyped k)

def strItems (k : String) : List J → Except ConfigError (List String)
  | [] => .ok []
  | .str s :: rest => do pure (s :: (← strItems k rest))
  | _ :: _ => .error (.illTyped k)

def getStrList (sec : Dict) (k : String) : Except ConfigError (List String) :=
  match J.lookup k sec with
  | none => .ok []
  | some (.arr xs) => strItems k xs
  | some _ => .error (.illTyped k)

def strPairs (k : String) : List (String × J) → Except ConfigError (List (String × String))
  | [] => .ok []
  | (n, .str s) :: rest => do pure ((n, s) :: (← strPairs k rest))
  | _ :: _ => .error (.illTyped k)

def getStrDict (sec : Dict) (k : String) : Except ConfigError (List (String × String)) :=
  match J.lookup k sec with
  | none => .ok []
  | some (.obj kvs) => strPairs k kvs
  | some _ => .error (.illTyped k)

def getBase (sec : Dict) : Except ConfigError BaseSettings := do
  pure {
    schemaPath := ← getStr sec "schema_path" ""
    remoteSchemaUrl := ← getStr sec "remote_schema_url" ""
    remoteSchemaHeaders := ← getStrDict sec "remote_schema_headers"
    remoteSchemaVerifySsl := ← getBool sec "remote_schema_verify_ssl" true
    enableCustomOperations := ← getBool sec "enable_custom_operations" false
    plugins := ← getStrList sec "plugins" }

/-- The caller's configuration dict and the function's local `section` variable.
    `aliased = true` while `section` IS the caller's nested dict object (no `.copy()` yet):
    item assignments to `section` are then visible to the caller. -/
structure Heap where
  caller : J            -- the object the caller passed (`config_dict`)
  viaTool : Bool        -- where the section sits inside it
  section_ : Dict       -- the local variable `section`
  aliased : Bool

/-- write `section[k] = v` through to the caller's dict when `section` aliases it -/
def putInCaller (viaTool : Bool) (k : String) (v : J) : J → J
  | .obj top =>
    if viaTool then
      match J.lookup "tool" top with
      | some (.obj tool) =>
        match J.lookup "ariadne-codegen" tool with
        | some (.obj sec) => .obj (dictSet "tool" (.obj (dictSet "ariadne-codegen" (.obj (dictSet k v sec)) tool)) top)
        | _ => .obj top
      | _ => .obj top
    else
      match J.lookup "ariadne-codegen" top with
      | some (.obj sec) => .obj (dictSet "ariadne-codegen" (.obj (dictSet k v sec)) top)
      | _ => .obj top
  | j => j

/-- `section[k] = v` -/
def Heap.setItem (h : Heap) (k : String) (v : J) : Heap :=
  { h with section_ := dictSet k v h.section_,
           caller := if h.aliased then putInCaller h.viaTool k v h.caller else h.caller }

/-- `section = section.copy()` (shallow: a new top-level dict object) -/
def Heap.copy (h : Heap) : Heap := { h with aliased := false }

/-- wire form of a parsed scalars table; only its key set matters for what follows -/
def scalarsMarker (ss : List ScalarData) : J := .obj (ss.map fun s => (s.graphqlName, J.str s.type_))

/-- the dataclass `__init__`: keyword arguments filtered by `key in settings_fields_names`,
    defaults for the rest (unknown keys are never looked at) -/
def assignClientFields (env : Env) (sec : Dict) (scalars : List ScalarData) : Except ConfigError ClientSettings := do
  let base ← getBase sec
  let comments ← getStr sec "include_comments" "stable"
  pure {
    toBaseSettings := base
    queriesPath := ← getStr sec "queries_path" ""
    targetPackageName := ← getStr sec "target_package_name" "graphql_client"
    targetPackagePath := ← getStr sec "target_package_path" env.cwd
    clientName := ← getStr sec "client_name" "Client"
    clientFileName := ← getStr sec "client_file_name" "client"
    baseClientName := ← getStr sec "base_client_name" ""
    baseClientFilePath := ← getStr sec "base_client_file_path" ""
    enumsModuleName := ← getStr sec "enums_module_name" "enums"
    inputTypesModuleName := ← getStr sec "input_types_module_name" "input_types"
    fragmentsModuleName := ← getStr sec "fragments_module_name" "fragments"
    includeComments := comments
    convertToSnakeCase := ← getBool sec "convert_to_snake_case" true
    includeAllInputs := ← getBool sec "include_all_inputs" true
    includeAllEnums := ← getBool sec "include_all_enums" true
    asyncClient := ← getBool sec "async_client" true
    opentelemetryClient := ← getBool sec "opentelemetry_client" false
    filesToInclude := ← getStrList sec "files_to_include"
    scalars := scalars
    missing := clientFieldNames.filter (fun f => !(J.hasKey f sec)) }

/-- `ClientSettings(**{key: value for key, value in section.items() if key in settings_fields_names})` -/
def buildClient (env : Env) (sec : Dict) (scalars : List ScalarData) : Except ConfigError ClientSettings :=
  assignClientFields env (sec.filter (fun kv => clientFieldNames.contains kv.1)) scalars

/-- result of reading settings: what is returned/raised, whether the deprecation warning for the
    top-level section / for a boolean `include_comments` was issued, and the caller's dict afterwards -/
structure Read (α : Type) where
  result : Except ConfigError α
  deprecatedSection : Bool := false
  deprecatedBoolComments : Bool := false
  callerAfter : J

/-- `config.get_client_settings` up to (not including) `__post_init__`: the dataclass with the
    fields assigned from the section -/
def readRawClient (env : Env) (cfg : J) : Read ClientSettings :=
  match getSection cfg with
  | .error e => { result := .error e, callerAfter := cfg }
  | .ok (sec, depr) =>
    -- section = get_section(config_dict).copy()
    let h : Heap := ({ caller := cfg, viaTool := !depr, section_ := sec, aliased := true } : Heap).copy
    -- section["scalars"] = {name: ScalarData(...) for name, data in section.get("scalars", {}).items()}
    let scalarsIn : Except ConfigError (List (String × J)) :=
      match J.lookup "scalars" h.section_ with
      | none => .ok []
      | some (.obj kvs) => .ok kvs
      | some _ => .error (.illTyped "scalars")
    match scalarsIn >>= parseScalars with
    | .error e => { result := .error e, deprecatedSection := depr, callerAfter := h.caller }
    | .ok scalars =>
      let h := h.setItem "scalars" (scalarsMarker scalars)
      -- boolean include_comments -> "timestamp" / "none" (+ DeprecationWarning)
      let (h, boolComments) :=
        match J.lookup "include_comments" h.section_ with
        | some (.bool b) => (h.setItem "include_comments" (.str (if b then "timestamp" else "none")), true)
        | _ => (h, false)
      { result := buildClient env h.section_ scalars,
        deprecatedSection := depr, deprecatedBoolComments := boolComments, callerAfter := h.caller }

/-- `config.get_client_settings` -/
def getClientSettings (env : Env) (cfg : J) : Read ClientSettings :=
  let r := readRawClient env cfg
  { r with result := r.result >>= clientPostInit env }

def buildSchema (sec : Dict) : Except ConfigError SchemaSettings := do
  let sec := sec.filter (fun kv => schemaFieldNames.contains kv.1)
  let base ← getBase sec
  pure {
    toBaseSettings := base
    targetFilePath := ← getStr sec "target_file_path" "schema.py"
    schemaVariableName := ← getStr sec "schema_variable_name" "schema"
    typeMapVariableName := ← getStr sec "type_map_variable_name" "type_map" }

def readRawSchema (cfg : J) : Read SchemaSettings :=
  match getSection cfg with
  | .error e => { result := .error e, callerAfter := cfg }
  | .ok (sec, depr) => { result := buildSchema sec, deprecatedSection := depr, callerAfter := cfg }

/-- `config.get_graphql_schema_settings` (no copy, and no item assignment either) -/
def getSchemaSettings (env : Env) (cfg : J) : Read SchemaSettings :=
  let r := readRawSchema cfg
  { r with result := r.result >>= schemaPostInit env }

end Ariadne.Settings
