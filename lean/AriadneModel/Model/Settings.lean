/-
  Model of ariadne_codegen/settings.py + config.py (C17), over configuration values of EVERY TOML kind.

  * `ClientSettings.__post_init__` / `GraphQLSchemaSettings.__post_init__` (with
    `BaseSettings.__post_init__`) as an ORDERED LIST OF CHECKS over what the code can see of the
    outside world (`Env`: the file system through `Path.exists/is_dir/is_file/read_text`,
    `os.environ`, `str.isidentifier`, `Path.cwd()`); `keyword.iskeyword` is the regenerated table
    `Tables.kwlist`, the comment modes are `Tables.commentsStrategies`, the set of accepted keys is
    `Tables.clientSettingsFields` / `Tables.schemaSettingsFields`.
  * `config.get_section`, `get_client_settings` (`.copy()`, scalars parsing, bool
    `include_comments`, unknown-key filter, `TypeError -> MissingConfiguration`),
    `get_graphql_schema_settings`, with the caller's dict as explicit state (`Heap`).

  The Python, for reference (settings.py, in execution order of `ClientSettings.__post_init__`):

      if not self.queries_path and not self.enable_custom_operations: raise TypeError(...)      -- 0
      if not self.schema_path and not self.remote_schema_url: raise InvalidConfiguration(...)   -- 1
      if self.schema_path: assert_path_exists(self.schema_path)                                 -- 2
      self.remote_schema_headers = resolve_headers(self.remote_schema_headers)                  -- 3
      self.include_comments = CommentsStrategy(self.include_comments)   (ValueError -> Invalid) -- 4
      self._set_default_base_client_data()                      (dict lookup by the two flags)  -- 5
      assert_path_exists(self.queries_path)                                                     -- 6
      assert_string_is_valid_python_identifier(self.target_package_name)                        -- 7
      assert_path_is_valid_directory(self.target_package_path)                                  -- 8
      assert_string_is_valid_python_identifier(self.client_name)                                -- 9
      assert_string_is_valid_python_identifier(self.client_file_name)                           -- 10
      assert_string_is_valid_python_identifier(self.base_client_name)                           -- 11
      assert_path_exists(self.base_client_file_path)                                            -- 12
      assert_path_is_valid_file(self.base_client_file_path)                                     -- 13
      assert_class_is_defined_in_file(Path(self.base_client_file_path), self.base_client_name)  -- 14
      assert_string_is_valid_python_identifier(self.enums_module_name)                          -- 15
      assert_string_is_valid_python_identifier(self.input_types_module_name)                    -- 16
      assert_string_is_valid_python_identifier(self.fragments_module_name)                      -- 17
      for file_path in self.files_to_include: assert_path_is_valid_file(file_path)              -- 18
      (check 17 was added by /repo 0686a80, which repaired finding C17-F2)

  VALUE KINDS.  A dataclass does not check the types of its fields, and TOML offers six kinds of value
  (`TV`: bool / int / float / str / list / table), so every option can hold a value of every kind and
  what happens is decided by the FIRST Python operation applied to it:
      `not v` / `if v`            truthiness of the kind (0, 0.0, "", [], {} are false)
      `Path(v)`                   `TypeError` unless `v` is a `str`
      `v.isidentifier()`          `AttributeError` unless `v` is a `str`
      `v.items()` / `v.get(k)`    `AttributeError` unless `v` is a table
      `v.startswith("$")`         `AttributeError` unless `v` is a `str`
      `v["type"]`                 `KeyError` on a table without the key, `TypeError` on every other kind
      `"." in v`                  `TypeError` on bool/int/float, membership on list / table keys
      `CommentsStrategy(v)`       `ValueError` unless `v` is one of the three strings (1 is NOT `True` here)
      `isinstance(v, bool)`       only a TOML boolean (1 and 1.0 are not)
      `d[(v, w)]`                 the flags as dict key: 1 / 1.0 ARE `True` there, 2 / "x" give `KeyError`,
                                  a list / table gives `TypeError` (unhashable)
      `for x in v`                items of a list, CHARACTERS of a str, keys of a table, else `TypeError`
      `f"{v}"`                    `str(v)`
  A `TypeError` raised anywhere inside the dataclass constructor is caught by config.py and re-raised as
  `MissingConfiguration("Missing configuration fields: ...")` (`ConfigError.typeErrorAsMissing`); an
  `AttributeError` / `KeyError` (and a `TypeError` raised while the scalars are parsed) escapes as it is
  (`ConfigError.internal`).

  Names are ASCII in the correspondence (`Env.isIdent` is Python's `str.isidentifier`, abstract here;
  `asciiIdent` is its ASCII restriction used by the driver).  Core Lean only.
-/
import AriadneModel.Model.Toml
import AriadneModel.Generated.Tables

namespace Ariadne.Settings
open Ariadne

/-! ## the outside world -/

structure Env where
  pathExists : String → Bool          -- Path(p).exists()
  isDir : String → Bool               -- Path(p).is_dir()
  isFile : String → Bool              -- Path(p).is_file()
  readText : String → String          -- Path(p).read_text() (consulted only after is_file)
  environ : String → Option String    -- os.environ.get
  isIdent : String → Bool             -- str.isidentifier
  cwd : String                        -- Path.cwd().as_posix()
  defaultPath : String → String       -- kind of bundled base client ↦ DEFAULT_*_PATH.as_posix()

/-! ## errors -/

inductive ConfigError where
  | missingSection                              -- MissingConfiguration (get_section)
  | scalarMissingType                           -- MissingConfiguration (KeyError 'type')
  | missingFields (names : List String)         -- MissingConfiguration (the TypeError `__post_init__` raises itself: no queries_path)
  | typeErrorAsMissing (names : List String)    -- MissingConfiguration (an ACCIDENTAL TypeError inside the constructor: Path(1), unhashable flag, `for x in 1`)
  | noSchemaSource                              -- InvalidConfiguration ...
  | pathMissing (p : String)
  | notDirectory (p : String)
  | notFile (p : String)
  | badIdentifier (n : String)
  | badCommentMode (v : String)
  | envVarMissing (name : String)
  | classNotInFile (cls path : String)
  | targetNoFileType (f : String)
  | targetBadFileType (f t : String)
  | internal (exc : String)                     -- a bare Python exception escapes: AttributeError / KeyError / TypeError
  deriving Repr, DecidableEq, Inhabited

deriving instance DecidableEq for Except

/-- the Python exception class that surfaces -/
def ConfigError.pyClass : ConfigError → String
  | .missingSection | .scalarMissingType | .missingFields _ | .typeErrorAsMissing _ => "MissingConfiguration"
  | .internal e => e
  | _ => "InvalidConfiguration"

/-- is the error one of ariadne-codegen's own exception classes? -/
def ConfigError.typed (e : ConfigError) : Bool :=
  e.pyClass == "MissingConfiguration" || e.pyClass == "InvalidConfiguration"

/-- `str(exc)`; `missingFields` is joined from a Python *set* (order not determined): the names are
    compared as a set by the harness. -/
def ConfigError.message : ConfigError → String
  | .missingSection => "Config has no [tool.ariadne-codegen] section."
  | .scalarMissingType => "Missing 'type' field for scalar definition"
  | .missingFields ns => "Missing configuration fields: " ++ ", ".intercalate ns
  | .typeErrorAsMissing ns => "Missing configuration fields: " ++ ", ".intercalate ns
  | .noSchemaSource => "Schema source not provided. Use schema_path or remote_schema_url"
  | .pathMissing p => "Provided path " ++ p ++ " doesn't exist."
  | .notDirectory p => "Provided path " ++ p ++ " isn't a directory."
  | .notFile p => "Provided path " ++ p ++ " isn't a file."
  | .badIdentifier n => "Provided name " ++ n ++ " cannot be used as python identifier."
  | .badCommentMode v =>
      "'" ++ v ++ "' is not a valid choice. Valid options are: " ++ ", ".intercalate Tables.commentsStrategies
  | .envVarMissing n => "Environment variable " ++ n ++ " not found."
  | .classNotInFile c p => "Cannot import " ++ c ++ " from " ++ p
  | .targetNoFileType f => "Provided file name " ++ f ++ " is missing a file type."
  | .targetBadFileType f t =>
      "Provided file name " ++ f ++ " has an invalid type " ++ t ++ ". Valid types are py, graphql and gql."
  | .internal e => e

/-! ## small pieces of Python -/

/-- ASCII restriction of `str.isidentifier`: `[A-Za-z_][A-Za-z0-9_]*`. -/
def asciiIdentChars : List Char → Bool
  | [] => false
  | c :: cs => (c.isAlpha || c == '_') && cs.all (fun d => d.isAlphanum || d == '_')

def asciiIdent (s : String) : Bool := asciiIdentChars s.toList

/-- `keyword.iskeyword` -/
def isKeyword (s : String) : Bool := Tables.kwlist.contains s

/-- what `assert_string_is_valid_python_identifier` accepts:
    `not (not name.isidentifier() or iskeyword(name))` -/
def validName (env : Env) (n : String) : Bool := env.isIdent n && !isKeyword n

/-- `pat in text` on character lists -/
def isInfixOf (pat : List Char) : List Char → Bool
  | [] => pat.isEmpty
  | c :: cs => pat.isPrefixOf (c :: cs) || isInfixOf pat cs

/-- `f"class {class_name}" in file_content` (a SUBSTRING test: finding C17-F7) -/
def classDefinedIn (env : Env) (path cls : String) : Bool :=
  isInfixOf ("class " ++ cls).toList (env.readText path).toList

def identCont (c : Char) : Bool := c.isAlphanum || c == '_'

/-- an occurrence of `pat` that is not continued by an identifier character -/
def declaredChars (pat : List Char) : List Char → Bool
  | [] => false
  | c :: cs =>
    (pat.isPrefixOf (c :: cs) && !((((c :: cs).drop pat.length).head?.map identCont).getD false))
      || declaredChars pat cs

/-- SPECIFICATION side (not what the code does): the file contains a `class <cls>` statement head,
    i.e. "class <cls>" followed by something that does not continue the identifier.  A necessary
    condition for the class to be importable from the file. -/
def classDeclared (env : Env) (path cls : String) : Bool :=
  declaredChars ("class " ++ cls).toList (env.readText path).toList

/-- split at '/' (like `str.split("/")`) -/
def splitSlash : List Char → List (List Char)
  | [] => [[]]
  | c :: cs =>
    match splitSlash cs with
    | [] => [[]]           -- unreachable: the result is never empty
    | p :: ps => if c == '/' then [] :: p :: ps else (c :: p) :: ps

/-- `Path(p).name` (posix flavour): last component that is neither empty nor "." -/
def pathName (p : String) : List Char :=
  ((splitSlash p.toList).filter (fun comp => comp != [] && comp != ['.'])).getLast?.getD []

/-- index of the last '.' in a name (`str.rfind('.')`), `none` = -1 -/
def rfindDot (name : List Char) : Option Nat :=
  let rec go (i : Nat) (best : Option Nat) : List Char → Option Nat
    | [] => best
    | c :: cs => go (i + 1) (if c == '.' then some i else best) cs
  go 0 none name

/-- `Path(p).suffix` (CPython 3.12: `i = name.rfind('.'); name[i:] if 0 < i < len(name) - 1 else ''`) -/
def pathSuffix (p : String) : List Char :=
  let name := pathName p
  match rfindDot name with
  | some i => if 0 < i && i + 1 < name.length then name.drop i else []
  | none => []

def asciiLower (cs : List Char) : String := String.ofList (cs.map Char.toLower)

/-- `value.lstrip("$")` -/
def lstripDollar (s : String) : String := String.ofList (s.toList.dropWhile (· == '$'))

/-- `get_header_value` -/
def headerValue (env : Env) (v : String) : Except ConfigError String :=
  if v.toList.head? == some '$' then
    let name := lstripDollar v
    match env.environ name with
    | some val => if val == "" then .error (.envVarMissing name) else .ok val   -- `if not var_value`
    | none => .error (.envVarMissing name)
  else .ok v

/-- `resolve_headers`: a dict comprehension, the first failing value raises -/
def resolveHeaders (env : Env) : List (String × String) → Except ConfigError (List (String × String))
  | [] => .ok []
  | (k, v) :: rest =>
    match headerValue env v with
    | .error e => .error e
    | .ok v' =>
      match resolveHeaders env rest with
      | .error e => .error e
      | .ok rest' => .ok ((k, v') :: rest')

def firstBadHeader (env : Env) (hs : List (String × String)) : Option ConfigError :=
  match resolveHeaders env hs with
  | .error e => some e
  | .ok _ => none

/-- `for file_path in files: assert_path_is_valid_file(file_path)` -/
def firstNonFile (env : Env) : List String → Option ConfigError
  | [] => none
  | f :: fs => if env.isFile f then firstNonFile env fs else some (.notFile f)

/-- `assert_string_is_valid_schema_target_filename` -/
def targetFileCheck (f : String) : Option ConfigError :=
  let suf := pathSuffix f
  if suf.isEmpty then some (.targetNoFileType f)
  else
    let t := asciiLower (suf.drop 1)
    if t == "py" || t == "graphql" || t == "gql" then none else some (.targetBadFileType f t)

/-! ## the same pieces on a value of unknown kind -/

/-- `assert_path_exists(v)` / `assert_path_is_valid_directory(v)` / `assert_path_is_valid_file(v)`:
    `Path(v)` raises `TypeError` unless `v` is a `str` -/
def pathCheck (missing : List String) (test : String → Bool) (err : String → ConfigError) : TV → Option ConfigError
  | .str p => if test p then none else some (err p)
  | _ => some (.typeErrorAsMissing missing)

/-- `get_header_value(v)`: `v.startswith` -/
def headerValueV (env : Env) : TV → Except ConfigError TV
  | .str v =>
    match headerValue env v with
    | .ok r => .ok (.str r)
    | .error e => .error e
  | _ => .error (.internal "AttributeError")

/-- the dict comprehension of `resolve_headers` over the items of a table -/
def resolveHeadersKvs (env : Env) : List (String × TV) → Except ConfigError (List (String × TV))
  | [] => .ok []
  | (k, v) :: rest =>
    match headerValueV env v with
    | .error e => .error e
    | .ok v' =>
      match resolveHeadersKvs env rest with
      | .error e => .error e
      | .ok rest' => .ok ((k, v') :: rest')

/-- `resolve_headers(v)`: `v.items()` -/
def resolveHeadersV (env : Env) : TV → Except ConfigError TV
  | .table kvs =>
    match resolveHeadersKvs env kvs with
    | .ok r => .ok (.table r)
    | .error e => .error e
  | _ => .error (.internal "AttributeError")

def firstBadHeaderV (env : Env) (v : TV) : Option ConfigError :=
  match resolveHeadersV env v with
  | .error e => some e
  | .ok _ => none

/-- `for file_path in files: assert_path_is_valid_file(file_path)` over the items Python iterates -/
def firstNonFileV (env : Env) (missing : List String) : List TV → Option ConfigError
  | [] => none
  | .str f :: fs => if env.isFile f then firstNonFileV env missing fs else some (.notFile f)
  | _ :: _ => some (.typeErrorAsMissing missing)

/-! ## the settings records (after the dataclass `__init__` assigned fields and defaults; a dataclass
      does not look at the types, so every field holds a `TV`) -/

structure ScalarData where
  graphqlName : String
  type_ : TV
  serialize : Option TV
  parse : Option TV
  import_ : Option TV
  deriving Repr, DecidableEq

structure BaseSettings where
  schemaPath : TV := .str ""
  remoteSchemaUrl : TV := .str ""
  remoteSchemaHeaders : TV := .table []
  remoteSchemaVerifySsl : TV := .bool true
  enableCustomOperations : TV := .bool false
  plugins : TV := .list []
  /-- names of the dataclass fields that are not keys of the section (for the
      `MissingConfiguration` message config.py builds when a `TypeError` comes out of the constructor) -/
  missing : List String := []
  deriving Repr, DecidableEq

structure ClientSettings extends BaseSettings where
  queriesPath : TV := .str ""
  targetPackageName : TV := .str "graphql_client"
  targetPackagePath : TV              -- default: Path.cwd().as_posix()
  clientName : TV := .str "Client"
  clientFileName : TV := .str "client"
  baseClientName : TV := .str ""
  baseClientFilePath : TV := .str ""
  enumsModuleName : TV := .str "enums"
  inputTypesModuleName : TV := .str "input_types"
  fragmentsModuleName : TV := .str "fragments"
  includeComments : TV := .str "stable"
  convertToSnakeCase : TV := .bool true
  includeAllInputs : TV := .bool true
  includeAllEnums : TV := .bool true
  asyncClient : TV := .bool true
  opentelemetryClient : TV := .bool false
  filesToInclude : TV := .list []
  scalars : List ScalarData := []
  deriving Repr, DecidableEq

structure SchemaSettings extends BaseSettings where
  targetFilePath : TV := .str "schema.py"
  schemaVariableName : TV := .str "schema"
  typeMapVariableName : TV := .str "type_map"
  deriving Repr, DecidableEq

/-! ## `_set_default_base_client_data` -/

def clientKind (isAsync otel : Bool) : String :=
  match isAsync, otel with
  | true, true => "asyncOT"
  | true, false => "async"
  | false, true => "syncOT"
  | false, false => "sync"

/-- class name of the bundled base client of a kind (table regenerated from constants.py) -/
def defaultClassName (kind : String) : Option String :=
  (Tables.defaultBaseClients.find? (fun t => t.1 == kind)).map (fun t => t.2.1)

/-- what `_set_default_base_client_data` does -/
inductive DefaultsOutcome where
  | keep                    -- a name or a path is given: nothing happens
  | pick (kind : String)    -- `default_clients_map[(async_client, opentelemetry_client)]` found
  | keyError                -- the flags are hashable but equal to neither True nor False
  | typeError               -- a flag is unhashable (list / table)
  deriving Repr, DecidableEq

def defaultsOutcome (s : ClientSettings) : DefaultsOutcome :=
  if !s.baseClientName.truthy && !s.baseClientFilePath.truthy then
    match s.asyncClient.boolKey, s.opentelemetryClient.boolKey with
    | none, _ => .typeError
    | _, none => .typeError
    | some (some a), some (some o) => .pick (clientKind a o)
    | _, _ => .keyError
  else .keep

/-- `(base_client_name, base_client_file_path)` after `_set_default_base_client_data` -/
def baseClientData (env : Env) (s : ClientSettings) : TV × TV :=
  match defaultsOutcome s with
  | .pick kind => (.str ((defaultClassName kind).getD ""), .str (env.defaultPath kind))
  | _ => (s.baseClientName, s.baseClientFilePath)

/-! ## the ordered checks -/

inductive ClientCheck where
  | queriesRequired | schemaSource | schemaPathExists | headers | commentMode | baseClientDefaults
  | queriesPathExists
  | packageName | packagePathDir | clientName | clientFileName | baseClientName
  | baseClientPathExists | baseClientIsFile | baseClientClass | enumsModule | inputTypesModule
  | fragmentsModule | filesToInclude
  deriving Repr, DecidableEq

/-- execution order of `ClientSettings.__post_init__` -/
def ClientCheck.order : List ClientCheck :=
  [.queriesRequired, .schemaSource, .schemaPathExists, .headers, .commentMode, .baseClientDefaults,
   .queriesPathExists,
   .packageName, .packagePathDir, .clientName, .clientFileName, .baseClientName,
   .baseClientPathExists, .baseClientIsFile, .baseClientClass, .enumsModule, .inputTypesModule,
   .fragmentsModule, .filesToInclude]

def identCheck (env : Env) (n : String) : Option ConfigError :=
  if validName env n then none else some (.badIdentifier n)

/-- `assert_string_is_valid_python_identifier(v)`: `v.isidentifier()` -/
def identCheckV (env : Env) : TV → Option ConfigError
  | .str n => identCheck env n
  | _ => some (.internal "AttributeError")

/-- is the value one of the comment modes?  (`CommentsStrategy(v)` succeeds) -/
def isCommentMode : TV → Bool
  | .str m => Tables.commentsStrategies.contains m
  | _ => false

/-- one check of `ClientSettings.__post_init__`: `none` = passes, `some e` = raises `e` -/
def evalClientCheck (env : Env) (s : ClientSettings) : ClientCheck → Option ConfigError
  | .queriesRequired =>
      if !s.queriesPath.truthy && !s.enableCustomOperations.truthy then some (.missingFields s.missing) else none
  | .schemaSource =>
      if !s.schemaPath.truthy && !s.remoteSchemaUrl.truthy then some .noSchemaSource else none
  | .schemaPathExists =>
      if s.schemaPath.truthy then pathCheck s.missing env.pathExists .pathMissing s.schemaPath else none
  | .headers => firstBadHeaderV env s.remoteSchemaHeaders
  | .commentMode =>
      if isCommentMode s.includeComments then none else some (.badCommentMode s.includeComments.pyStr)
  | .baseClientDefaults =>
      match defaultsOutcome s with
      | .keyError => some (.internal "KeyError")
      | .typeError => some (.typeErrorAsMissing s.missing)
      | _ => none
  | .queriesPathExists => pathCheck s.missing env.pathExists .pathMissing s.queriesPath
  | .packageName => identCheckV env s.targetPackageName
  | .packagePathDir => pathCheck s.missing env.isDir .notDirectory s.targetPackagePath
  | .clientName => identCheckV env s.clientName
  | .clientFileName => identCheckV env s.clientFileName
  | .baseClientName => identCheckV env (baseClientData env s).1
  | .baseClientPathExists => pathCheck s.missing env.pathExists .pathMissing (baseClientData env s).2
  | .baseClientIsFile => pathCheck s.missing env.isFile .notFile (baseClientData env s).2
  | .baseClientClass =>
      pathCheck s.missing (fun p => classDefinedIn env p (baseClientData env s).1.pyStr)
        (fun p => .classNotInFile (baseClientData env s).1.pyStr p) (baseClientData env s).2
  | .enumsModule => identCheckV env s.enumsModuleName
  | .inputTypesModule => identCheckV env s.inputTypesModuleName
  | .fragmentsModule => identCheckV env s.fragmentsModuleName
  | .filesToInclude =>
      match s.filesToInclude.pyIter with
      | none => some (.typeErrorAsMissing s.missing)
      | some items => firstNonFileV env s.missing items

/-- the first check (in order) that raises -/
def firstError {κ : Type} (eval : κ → Option ConfigError) : List κ → Option ConfigError
  | [] => none
  | k :: ks => match eval k with
    | some e => some e
    | none => firstError eval ks

/-- the settings object as it is after a successful `__post_init__` -/
def finalizeClient (env : Env) (s : ClientSettings) : ClientSettings :=
  { s with
    remoteSchemaHeaders := (match resolveHeadersV env s.remoteSchemaHeaders with
                            | .ok hs => hs | .error _ => s.remoteSchemaHeaders)
    baseClientName := (baseClientData env s).1
    baseClientFilePath := (baseClientData env s).2 }

/-- `ClientSettings.__post_init__` -/
def clientPostInit (env : Env) (s : ClientSettings) : Except ConfigError ClientSettings :=
  match firstError (evalClientCheck env s) ClientCheck.order with
  | some e => .error e
  | none => .ok (finalizeClient env s)

inductive SchemaCheck where
  | schemaSource | schemaPathExists | headers | targetFileType | schemaVariable | typeMapVariable
  deriving Repr, DecidableEq

/-- execution order of `GraphQLSchemaSettings.__post_init__` -/
def SchemaCheck.order : List SchemaCheck :=
  [.schemaSource, .schemaPathExists, .headers, .targetFileType, .schemaVariable, .typeMapVariable]

/-- `assert_string_is_valid_schema_target_filename(v)`: `Path(v).suffix` -/
def targetFileCheckV (missing : List String) : TV → Option ConfigError
  | .str f => targetFileCheck f
  | _ => some (.typeErrorAsMissing missing)

def evalSchemaCheck (env : Env) (s : SchemaSettings) : SchemaCheck → Option ConfigError
  | .schemaSource =>
      if !s.schemaPath.truthy && !s.remoteSchemaUrl.truthy then some .noSchemaSource else none
  | .schemaPathExists =>
      if s.schemaPath.truthy then pathCheck s.missing env.pathExists .pathMissing s.schemaPath else none
  | .headers => firstBadHeaderV env s.remoteSchemaHeaders
  | .targetFileType => targetFileCheckV s.missing s.targetFilePath
  | .schemaVariable => identCheckV env s.schemaVariableName
  | .typeMapVariable => identCheckV env s.typeMapVariableName

def finalizeSchema (env : Env) (s : SchemaSettings) : SchemaSettings :=
  { s with
    remoteSchemaHeaders := (match resolveHeadersV env s.remoteSchemaHeaders with
                            | .ok hs => hs | .error _ => s.remoteSchemaHeaders) }

/-- `GraphQLSchemaSettings.__post_init__` -/
def schemaPostInit (env : Env) (s : SchemaSettings) : Except ConfigError SchemaSettings :=
  match firstError (evalSchemaCheck env s) SchemaCheck.order with
  | some e => .error e
  | none => .ok (finalizeSchema env s)

/-! ## config.py: from the configuration dict to the dataclass -/

abbrev Dict := List (String × TV)

def clientFieldNames : List String := Tables.clientSettingsFields.map (·.1)
def schemaFieldNames : List String := Tables.schemaSettingsFields.map (·.1)

/-- `dict[k] = v` (keeps the position of an existing key, appends a new one) -/
def dictSet (k : String) (v : TV) : Dict → Dict
  | [] => [(k, v)]
  | (k', v') :: rest => if k' == k then (k, v) :: rest else (k', v') :: dictSet k v rest

/-- `get_section`: `(section, deprecated top-level section used?)`.
    `[tool.ariadne-codegen]` wins over the deprecated `[ariadne-codegen]`.

        if tool_key in config_dict and codegen_key in config_dict.get(tool_key, {}):
            return config_dict[tool_key][codegen_key]
        if codegen_key in config_dict: warn(...); return config_dict[codegen_key]
        raise MissingConfiguration(...)

    `codegen_key in tool` is a key test on a table, a SUBSTRING test on a str, an element test on a
    list, and a `TypeError` on bool / int / float; `tool[codegen_key]` on a str or list is a `TypeError`.
    The section itself may be a value of any kind. -/
def getSection (top : Dict) : Except ConfigError (TV × Bool) :=
    let fallback : Except ConfigError (TV × Bool) :=
      match TV.lookup "ariadne-codegen" top with
      | some sec => .ok (sec, true)
      | none => .error .missingSection
    match TV.lookup "tool" top with
    | some (.table tool) =>
      match TV.lookup "ariadne-codegen" tool with
      | some sec => .ok (sec, false)
      | none => fallback
    | some tool =>
      match tool.containsStr "ariadne-codegen" with
      | none => .error (.internal "TypeError")          -- `in` on bool / int / float
      | some true => .error (.internal "TypeError")     -- str / list indexed by a str
      | some false => fallback
    | none => fallback

/-- `ScalarData._get_object_name(name)`: `"." in name`, then `name.rsplit(".")` -/
def objectNameCheck : TV → Option ConfigError
  | .str _ => none
  | .list xs => if xs.any (fun x => x == TV.str ".") then some (.internal "AttributeError") else none
  | .table kvs => if TV.hasKey "." kvs then some (.internal "AttributeError") else none
  | _ => some (.internal "TypeError")        -- bool / int / float: argument of type ... is not iterable

/-- `self._get_object_name(self.parse) if self.parse else None` -/
def optObjectNameCheck : Option TV → Option ConfigError
  | none => none
  | some v => if v.truthy then objectNameCheck v else none

/-- one `ScalarData(type_=data["type"], serialize=data.get("serialize"), ...)` incl. its `__post_init__`
    (`type_name`, `parse_name`, `serialize_name` in that order) -/
def parseScalar (name : String) : TV → Except ConfigError ScalarData
  | .table d =>
    match TV.lookup "type" d with
    | none => .error .scalarMissingType                    -- KeyError -> MissingConfiguration
    | some t =>
      let ser := TV.lookup "serialize" d
      let par := TV.lookup "parse" d
      let imp := TV.lookup "import" d
      match objectNameCheck t with
      | some e => .error e
      | none =>
        match optObjectNameCheck par with
        | some e => .error e
        | none =>
          match optObjectNameCheck ser with
          | some e => .error e
          | none => .ok { graphqlName := name, type_ := t, serialize := ser, parse := par, import_ := imp }
  | _ => .error (.internal "TypeError")                    -- `data["type"]` on a str / list / number / bool

def parseScalars : List (String × TV) → Except ConfigError (List ScalarData)
  | [] => .ok []
  | (n, d) :: rest =>
    match parseScalar n d with
    | .error e => .error e
    | .ok s =>
      match parseScalars rest with
      | .error e => .error e
      | .ok ss => .ok (s :: ss)

/-- `section.get(k, default)` as the dataclass constructor sees it -/
def getV (sec : Dict) (k : String) (dflt : TV) : TV := (TV.lookup k sec).getD dflt

def getBase (sec : Dict) (fieldNames : List String) : BaseSettings :=
  { schemaPath := getV sec "schema_path" (.str "")
    remoteSchemaUrl := getV sec "remote_schema_url" (.str "")
    remoteSchemaHeaders := getV sec "remote_schema_headers" (.table [])
    remoteSchemaVerifySsl := getV sec "remote_schema_verify_ssl" (.bool true)
    enableCustomOperations := getV sec "enable_custom_operations" (.bool false)
    plugins := getV sec "plugins" (.list [])
    missing := fieldNames.filter (fun f => !(TV.hasKey f sec)) }

/-- The caller's configuration dict and the function's local `section` variable.
    `aliased = true` while `section` IS the caller's nested dict object (no `.copy()` yet):
    item assignments to `section` are then visible to the caller. -/
structure Heap where
  caller : Dict         -- the object the caller passed (`config_dict`, a TOML document: a table)
  viaTool : Bool        -- where the section sits inside it
  section_ : Dict       -- the local variable `section`
  aliased : Bool

/-- write `section[k] = v` through to the caller's dict when `section` aliases it -/
def putInCaller (viaTool : Bool) (k : String) (v : TV) (top : Dict) : Dict :=
    if viaTool then
      match TV.lookup "tool" top with
      | some (.table tool) =>
        match TV.lookup "ariadne-codegen" tool with
        | some (.table sec) => dictSet "tool" (.table (dictSet "ariadne-codegen" (.table (dictSet k v sec)) tool)) top
        | _ => top
      | _ => top
    else
      match TV.lookup "ariadne-codegen" top with
      | some (.table sec) => dictSet "ariadne-codegen" (.table (dictSet k v sec)) top
      | _ => top

/-- `section[k] = v` -/
def Heap.setItem (h : Heap) (k : String) (v : TV) : Heap :=
  { h with section_ := dictSet k v h.section_,
           caller := if h.aliased then putInCaller h.viaTool k v h.caller else h.caller }

/-- `section = section.copy()` (shallow: a new top-level dict object) -/
def Heap.copy (h : Heap) : Heap := { h with aliased := false }

/-- wire form of a parsed scalars table; only its key set matters for what follows -/
def scalarsMarker (ss : List ScalarData) : TV := .table (ss.map fun s => (s.graphqlName, s.type_))

/-- the dataclass `__init__`: keyword arguments filtered by `key in settings_fields_names`,
    defaults for the rest (unknown keys are never looked at, types are never looked at) -/
def assignClientFields (env : Env) (sec : Dict) (scalars : List ScalarData) : ClientSettings :=
  { toBaseSettings := getBase sec clientFieldNames
    queriesPath := getV sec "queries_path" (.str "")
    targetPackageName := getV sec "target_package_name" (.str "graphql_client")
    targetPackagePath := getV sec "target_package_path" (.str env.cwd)
    clientName := getV sec "client_name" (.str "Client")
    clientFileName := getV sec "client_file_name" (.str "client")
    baseClientName := getV sec "base_client_name" (.str "")
    baseClientFilePath := getV sec "base_client_file_path" (.str "")
    enumsModuleName := getV sec "enums_module_name" (.str "enums")
    inputTypesModuleName := getV sec "input_types_module_name" (.str "input_types")
    fragmentsModuleName := getV sec "fragments_module_name" (.str "fragments")
    includeComments := getV sec "include_comments" (.str "stable")
    convertToSnakeCase := getV sec "convert_to_snake_case" (.bool true)
    includeAllInputs := getV sec "include_all_inputs" (.bool true)
    includeAllEnums := getV sec "include_all_enums" (.bool true)
    asyncClient := getV sec "async_client" (.bool true)
    opentelemetryClient := getV sec "opentelemetry_client" (.bool false)
    filesToInclude := getV sec "files_to_include" (.list [])
    scalars := scalars }

/-- `ClientSettings(**{key: value for key, value in section.items() if key in settings_fields_names})` -/
def buildClient (env : Env) (sec : Dict) (scalars : List ScalarData) : ClientSettings :=
  assignClientFields env (sec.filter (fun kv => clientFieldNames.contains kv.1)) scalars

/-- result of reading settings: what is returned/raised, whether the deprecation warning for the
    top-level section / for a boolean `include_comments` was issued, and the caller's dict afterwards -/
structure Read (α : Type) where
  result : Except ConfigError α
  deprecatedSection : Bool := false
  deprecatedBoolComments : Bool := false
  callerAfter : Dict

/-- `config.get_client_settings` up to (not including) `__post_init__`: the dataclass with the
    fields assigned from the section -/
def readRawClient (env : Env) (cfg : Dict) : Read ClientSettings :=
  match getSection cfg with
  | .error e => { result := .error e, callerAfter := cfg }
  | .ok (.table sec, depr) =>
    -- section = get_section(config_dict).copy()
    let h : Heap := ({ caller := cfg, viaTool := !depr, section_ := sec, aliased := true } : Heap).copy
    -- section["scalars"] = {name: ScalarData(...) for name, data in section.get("scalars", {}).items()}
    let scalarsIn : Except ConfigError (List (String × TV)) :=
      match TV.lookup "scalars" h.section_ with
      | none => .ok []
      | some (.table kvs) => .ok kvs
      | some _ => .error (.internal "AttributeError")       -- `.items()` on a non-table
    match scalarsIn >>= parseScalars with
    | .error e => { result := .error e, deprecatedSection := depr, callerAfter := h.caller }
    | .ok scalars =>
      let h := h.setItem "scalars" (scalarsMarker scalars)
      -- `isinstance(section["include_comments"], bool)` -> "timestamp" / "none" (+ DeprecationWarning);
      -- the numbers 1 / 0 / 1.0 are NOT booleans here
      let (h, boolComments) :=
        match TV.lookup "include_comments" h.section_ with
        | some (.bool b) => (h.setItem "include_comments" (.str (if b then "timestamp" else "none")), true)
        | _ => (h, false)
      { result := .ok (buildClient env h.section_ scalars),
        deprecatedSection := depr, deprecatedBoolComments := boolComments, callerAfter := h.caller }
  | .ok (_, depr) =>
    -- `.copy()` / `.get` on a section that is not a table
    { result := .error (.internal "AttributeError"), deprecatedSection := depr, callerAfter := cfg }

/-- `config.get_client_settings` -/
def getClientSettings (env : Env) (cfg : Dict) : Read ClientSettings :=
  let r := readRawClient env cfg
  { r with result := r.result >>= clientPostInit env }

def buildSchema (sec : Dict) : SchemaSettings :=
  let sec := sec.filter (fun kv => schemaFieldNames.contains kv.1)
  { toBaseSettings := getBase sec schemaFieldNames
    targetFilePath := getV sec "target_file_path" (.str "schema.py")
    schemaVariableName := getV sec "schema_variable_name" (.str "schema")
    typeMapVariableName := getV sec "type_map_variable_name" (.str "type_map") }

def readRawSchema (cfg : Dict) : Read SchemaSettings :=
  match getSection cfg with
  | .error e => { result := .error e, callerAfter := cfg }
  | .ok (.table sec, depr) => { result := .ok (buildSchema sec), deprecatedSection := depr, callerAfter := cfg }
  | .ok (_, depr) =>   -- `section.items()` on a non-table
    { result := .error (.internal "AttributeError"), deprecatedSection := depr, callerAfter := cfg }

/-- `config.get_graphql_schema_settings` (no copy, and no item assignment either) -/
def getSchemaSettings (env : Env) (cfg : Dict) : Read SchemaSettings :=
  let r := readRawSchema cfg
  { r with result := r.result >>= schemaPostInit env }

end Ariadne.Settings
