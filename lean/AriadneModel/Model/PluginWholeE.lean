/-
  C15: what the generator hands to ExtractOperations — the decidable well-formedness under which the whole-pipeline
  statement is PROVED for plugin lists made of ExtractOperations, NoReimports and the identity plugin
  (`genShapedE`; `Proved_15` of Properties/C15.lean).  Core Lean only.
-/
import AriadneModel.Model.PluginWhole

namespace Ariadne.C15
open Ariadne Ariadne.Py Ariadne.Plugins Ariadne.ClientSem

/-- what one hook call of the run does to what ExtractOperations has recorded (`_operations_gqls`,
    `_operations_variables`): only `generate_operation_str` records -/
def ebook (est : ExtractState) (e : Event) : ExtractState :=
  match e.call.hook, e.payload, e.call.opName, e.call.opSnake with
  | "generate_operation_str", .str g, some op, some sn =>
    { est with gqls := aset op g est.gqls, vars := aset op (gqlVarName sn) est.vars }
  | _, _, _, _ => est

/-- the kind of method client.py built for the operation is the kind ExtractOperations expects for it
    (`operation_definition.operation`, `settings.async_client`) -/
def kindE (est : ExtractState) (c : Call) (s : Shape) : Bool :=
  match s.tail with
  | .call aw _ _ => c.opKind != some "subscription" && est.asyncClient == aw
  | .sub _ _ _ => c.opKind == some "subscription"

/-- one hook call, given what has been recorded before it: an operation string is recorded once per operation; a
    client method is handed over after its operation string, has the generated shape without in-body imports, and
    inlines exactly the lines of that string -/
def evOKE (est : ExtractState) (e : Event) : Bool :=
  match e.call.hook, e.payload with
  | "generate_operation_str", .str _ =>
    (match e.call.opName, e.call.opSnake with
     | some op, some _ => !ahas op est.vars && !ahas op est.gqls
     | _, _ => false)
  | "generate_client_method", .method m =>
    (match e.call.opName with
     | some op =>
       (match alookup op est.vars, alookup op est.gqls, shapeOf m with
        | some _, some g, some s =>
          s.imports.isEmpty && (match s.op with | .inline _ ls => ls == pyLines g | .const _ => false) && kindE est e.call s
        | _, _, _ => false)
     | none => false)
  | _, _ => true

def checkE : ExtractState → List Event → Bool
  | _, [] => true
  | est, e :: rest => evOKE est e && checkE (ebook est e) rest

/-- the (one) freshly constructed ExtractOperations object of a configuration -/
def extractOf (plugins : List PState) : Option ExtractState :=
  plugins.findSome? (fun p => match p with | .extract s => some s | _ => none)

def nodupB : List String → Bool
  | [] => true
  | x :: xs => !xs.contains x && nodupB xs

def genShapedE (x : Input) : Bool :=
  match splitAtClientModule x.events, (runWith [] x).1.clientModule?, extractOf x.plugins with
  | some (pre, cm, post), some M0, some e0 =>
    (match cm.payload with | .module _ => true | _ => false) &&
    -- before `generate_client_module`: no `generate_init_module`; after it: only the init hooks, `generate_init_module` at least once
    pre.all (fun e => e.call.hook != "generate_init_module") &&
    post.all (fun e => e.call.hook == "generate_init_import" || e.call.hook == "generate_init_module") &&
    post.any (fun e => e.call.hook == "generate_init_module" && (match e.payload with | .module _ => true | _ => false)) &&
    checkE e0 pre &&
    (moduleNames M0).contains "gql" &&
    (match splitClient M0 with
     | some (_, _, C0) =>
       let est := pre.foldl ebook e0
       -- distinct operations have distinct constants, and no constant is called like a validated result class
       nodupB (est.vars.map (·.2)) &&
       C0.methods.all (fun md => match shapeOf md with | some s => !(est.vars.map (·.2)).contains s.retClass | none => true)
     | none => false)
  | _, _, _ => false

end Ariadne.C15
