/-
  What a call of a generated client method sends (properties C03, C07): the composition

      signature + `variables` dict           Model.Arguments / Model.ClientMethod   (ariadne-codegen)
      def / call binding                      Spec.PyCall                            (CPython)
      the method body up to `self.execute`    `callMethod` below                     (emitted code)
      `_process_variables`, `_convert_*`      Model.BaseClient                       (bundled base client)
      `model_dump(by_alias, exclude_unset)`   Spec.PydLog                            (pydantic)
      `json.dumps(default=to_jsonable_python)` Model.BaseClient.toJsonKvs

  The method body, as emitted (client.py), `L` = locals after `get_variable_names`:

      L.query = gql(<operation string>)                      # `gql` is looked up in the local scope first
      L.variables: Dict[str, object] = {k1: e1, …}           # ei = `p` or `f(p)`; evaluated left to right
      … self.execute(query=L.query, operation_name=…, variables=L.variables, **kwargs)

  Every value in scope is data (`BaseClient.PV`), so calling a name that a *parameter* shadows
  (`gql`, a serialize function) is `TypeError: … object is not callable`.

  Core Lean only.
-/
import AriadneModel.Model.ClientMethod
import AriadneModel.Model.ArgValues
import AriadneModel.Model.BaseClient
import AriadneModel.Spec.PyCall
import AriadneModel.Spec.PydLog

namespace Ariadne.ArgSend
open Ariadne Ariadne.Scalars Ariadne.Arguments Ariadne.ClientMethod Ariadne.ArgValues Ariadne.PyCall
open Ariadne.BaseClient (PV)

def gqlName : String := "gql"

/-! ### the caller's values as Python objects -/

mutual
  /-- the Python object for a caller value; for a model instance the outcome of the
      `model_dump(by_alias=True, exclude_unset=True)` that `_convert_value` will perform is attached
      (`PV.model dump _`), together with the user-function calls that dump makes -/
  def objOf (fns : UserFns) : AV → Except String (PV × List Call)
    | .list xs =>
      match objsOf fns xs with
      | .ok (ys, calls) => .ok (.list ys, calls)
      | .error e => .error e
    | .model _ fields =>
      match PydLog.dumpFields fns fields with
      | .ok (kvs, calls) => .ok (.model (.dict kvs) none, calls)
      | .error e => .error e
    | .none => .ok (.none, [])
    | .unset => .ok (.unset, [])
    | .bool b => .ok (.bool b, [])
    | .int i => .ok (.num i 0, [])
    | .float m e => .ok (.num m e, [])
    | .str s => .ok (.str s, [])
    | .enum m => .ok (.str m, [])
    | .custom _ j => .ok (.leaf (some j), [])
  def objsOf (fns : UserFns) : List AV → Except String (List PV × List Call)
    | [] => .ok ([], [])
    | x :: xs =>
      match objOf fns x, objsOf fns xs with
      | .ok (y, c1), .ok (ys, c2) => .ok (y :: ys, c1 ++ c2)
      | .error e, _ => .error e
      | _, .error e => .error e
end

/-! ### the method body -/

structure Sent where
  query : String
  variables : List (String × PV)          -- the dict handed to `execute(variables=…)`
  extra : List (String × PV)              -- `**kwargs`
  calls : List Call                       -- serialize calls made while the dict literal was evaluated

def notCallable : PyErr := .typeError "object is not callable"

/-- evaluate the dict literal in the local scope `env` -/
def evalDict (fns : UserFns) (env : List (String × PV)) :
    List (String × DictVal) → Except PyErr (List (String × PV) × List Call)
  | [] => .ok ([], [])
  | (k, e) :: rest =>
    let here : Except PyErr (PV × List Call) :=
      match e with
      | .name p =>
        match PyCall.lookup p env with
        | some v => .ok (v, [])
        | none => .error (.raised "NameError")
      | .call f p =>
        match PyCall.lookup f env with
        | some _ => .error notCallable                 -- a parameter shadows the module-level function
        | none =>
          match PyCall.lookup p env with
          | none => .error (.raised "NameError")
          | some v =>
            match fns.apply f v with
            | .ok r => .ok (r, [⟨f, v⟩])
            | .error msg => .error (.raised msg)
    match here with
    | .error err => .error err
    | .ok (v, c1) =>
      match evalDict fns env rest with
      | .ok (vs, c2) => .ok ((k, v) :: vs, c1 ++ c2)
      | .error err => .error err

def paramsOf (m : Method) : List Param :=
  m.out.required.map (fun a => ⟨a.py, false⟩) ++ m.out.optional.map (fun a => ⟨a.py, true⟩)

/-- the parameters as compiled inside `class cls` (private-name mangling) -/
def compiledParams (cls : String) (m : Method) : List Param :=
  (paramsOf m).map (fun p => { p with name := mangle cls p.name })

/-- a dict value as compiled inside `class cls`: the parameter reference is mangled like the
    parameter itself (mangling of the *function* name of a `serialize` call is not modelled) -/
def compiledVal (cls : String) : DictVal → DictVal
  | .name p => .name (mangle cls p)
  | .call f p => .call f (mangle cls p)

def compiledDict (cls : String) (m : Method) : List (String × DictVal) :=
  m.out.dict.map (fun kv => (kv.1, compiledVal cls kv.2))

/-- import the client module (compile the `def` inside `class cls`), call `client.<method>(**given)`
    and run its body up to the arguments of `self.execute(...)` -/
def callMethod (fns : UserFns) (cls : String) (m : Method) (given : List (String × PV)) : Except PyErr Sent :=
  match checkDef selfName (compiledParams cls m) Tables.kwargsName with
  | .error e => .error e
  | .ok () =>
    match bindCall selfName (compiledParams cls m) PV.unset given with
    | .error e => .error e
    | .ok (env, extra) =>
      match PyCall.lookup gqlName env with
      | some _ => .error notCallable                   -- `gql(...)` calls the parameter named gql
      | none =>
        let env1 := (m.locals.query, PV.str m.opText) :: env     -- L.query = gql(…)
        match evalDict fns env1 (compiledDict cls m) with
        | .error e => .error e
        | .ok (vars, calls) => .ok ⟨m.opText, vars, extra, calls⟩

/-! ### from the `variables` dict to the request body -/

/-- `_process_variables` then `json.dumps(…, default=to_jsonable_python)`: the `variables` member
    of the request body; `none` = json.dumps raised -/
def payloadOf (vars : List (String × PV)) : Option (List (String × J)) :=
  BaseClient.toJsonKvs (BaseClient.processVariables (some vars)).1

/-! ### a whole call -/

/-- a variable definition as both generators and the server see it -/
structure VarDecl where
  name : String
  type : Gql.TypeRef
  default : Option J := none          -- the coerced default value, if the operation declares one
  deriving Inhabited

def VarDecl.toVarDef (d : VarDecl) : VarDef := ⟨d.name, d.type⟩
def VarDecl.toIField (d : VarDecl) : Coerce.IField := ⟨d.name, Coerce.ofTypeRef d.type, d.default⟩

/-- `schema.type_map.get(n)` as the generators' `isinstance` tests see it, from the coercion view
    of the schema (the five built-in scalars are always present) -/
def gqlKind (s : Coerce.ISchema) (n : String) : Option Gql.Kind :=
  match s.get? n with
  | some .scalar => some .scalar
  | some (.enum _) => some .enum
  | some (.input _) => some .input
  | some .output => some .object
  | none => if Coerce.builtinScalars.contains n then some .scalar else none

/-- the generator's environment for a configuration -/
def envOf (cfg : Cfg) : Arguments.Env := ⟨gqlKind cfg.schema, cfg.scalars, cfg.snake⟩

/-- keyword arguments of the call: one per variable the caller does not omit, under the Python
    parameter name, each with the calls the later dump of that object makes -/
def givenOf (fns : UserFns) (snake : Bool) : List VarDecl → List AV → Except String (List (String × PV × List Call))
  | d :: ds, v :: vs =>
    if v.isUnset then givenOf fns snake ds vs
    else
      match objOf fns v, givenOf fns snake ds vs with
      | .ok (o, c), .ok rest => .ok ((pyVar snake d.name, o, c) :: rest)
      | .error e, _ => .error e
      | _, .error e => .error e
  | _, _ => .ok []

def kwOf (g : List (String × PV × List Call)) : List (String × PV) := g.map (fun x => (x.1, x.2.1))

/-- the dump calls of the arguments that are still bound to the caller's object when
    `self.execute` runs (the assignment to `L.query` rebinds a parameter of that name) -/
def dumpCallsOf (clobbered : String) : List (String × PV × List Call) → List Call
  | [] => []
  | (n, _, c) :: rest => if n == clobbered then dumpCallsOf clobbered rest else c ++ dumpCallsOf clobbered rest

inductive SendErr where
  | generation (e : GenErr)
  | python (e : PyErr)               -- SyntaxError at import, TypeError at the call, user code raising
  | serialization                    -- pydantic / json.dumps raised while the request was built
  deriving Repr

structure Request where
  query : String
  variables : List (String × J)
  calls : List Call                  -- every serialize call made on behalf of this request, in order

/-- generate the method for an operation, call it with the caller's values, build the request -/
def send (env : Arguments.Env) (fns : UserFns) (async : Bool) (opName : String) (opText : String)
    (defs : List VarDecl) (a : List AV) (cls : String := "Client") : Except SendErr Request :=
  match addMethod env .query (some opName) (defs.map (·.toVarDef)) "m" "R" opText async {} with
  | .error e => .error (.generation e)
  | .ok (m, _) =>
    match givenOf fns env.snake defs a with
    | .error _ => .error .serialization
    | .ok given =>
      match callMethod fns cls m (kwOf given) with
      | .error e => .error (.python e)
      | .ok sent =>
        -- `**kwargs` is forwarded to `self.http_client.post(...)`: a keyword that bound no parameter
        -- (the harness passes none on purpose) is httpx's "unexpected keyword argument"
        if !sent.extra.isEmpty then .error (.python (.typeError "unexpected keyword argument")) else
        match payloadOf sent.variables with
        | none => .error .serialization
        | some vars => .ok ⟨sent.query, vars, sent.calls ++ dumpCallsOf m.locals.query given⟩

end Ariadne.ArgSend
