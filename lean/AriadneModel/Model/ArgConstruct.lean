/-
  Where the caller's input-model arguments come from (property C03): every `AV.model` node of an
  argument tree is the result of a call `Cls(**kw)` of a GENERATED input class, and whether that call
  succeeds depends on the class-level defaults the generator emitted — which depend on how the schema
  was obtained (input_types.py `_parse_input_definition`, input_fields.py):

      value = parse_input_field_default_value(node=field.ast_node, annotation=annotation, field_type=field_type)

      def parse_input_field_default_value(node, annotation, field_type=""):
          if node and node.default_value:
              return parse_input_const_value_node(node=node.default_value, field_type=field_type)
          if (node and not isinstance(node.type, NonNullTypeNode)) or (
              isinstance(annotation, ast.Subscript) and isinstance(annotation.value, ast.Name)
              and annotation.value.id == OPTIONAL):
              return generate_constant(None)
          return None                                     # no default: pydantic demands the field

  `field.ast_node` is the SDL node for a schema read from `schema_path` and `None` for a schema built
  by `build_client_schema(introspection)` (`remote_schema_url`): `Source`.

  The class as pydantic sees it is `classFields` (names and aliases of `Model.InputFields.fieldDecl`,
  required = no class-level default); constructing is `Spec.PydInit.initModel`.  A caller value is
  `Constructible` when every instance in it can be obtained from its class.

  Finding trigger C03-F9 (= C06-F8 = C19-F1 seen from a call): `trigDefaultLostIntro` — the schema came
  by introspection and the caller leaves unset a NON-NULL field that has a schema default: the class
  has lost the default, the field is required, the schema-valid value cannot be built.

  Core Lean only.
-/
import AriadneModel.Model.ArgValues
import AriadneModel.Spec.PydInit

namespace Ariadne.ArgConstruct
open Ariadne Ariadne.Scalars Ariadne.Coerce Ariadne.ArgValues Ariadne.PydInit
open Ariadne.InputFields (DefaultKind)

/-- how the schema object handed to the generator was built -/
inductive Source where
  | sdl                 -- `schema_path`: every field carries its `ast_node`
  | intro               -- `remote_schema_url`: `build_client_schema`, no `ast_node` anywhere
  deriving Repr, DecidableEq, Inhabited

/-- `parse_input_field_default_value(node=field.ast_node, annotation=ann, …)`;
    `d` = the field's (coerced) schema default, `t` = its type -/
def classDefault (src : Source) (ann : NAnn) (d : Option J) (t : GT) : DefaultKind :=
  match src with
  | .sdl =>
    match d with
    | some .null => .none                       -- the literal `null` is emitted as the constant None
    | some _ => .value
    | none => if !t.nonNull || ann.opt then .none else .required
  | .intro => if ann.opt then .none else .required

/-- one attribute of the generated class, as pydantic sees it -/
def classField (src : Source) (cfg : Cfg) (f : IField) : InitField :=
  let d := InputFields.fieldDecl cfg.snake cfg.scalars (fun n => InputFields.kindOf cfg.schema n) f.name f.type
  ⟨d.py, d.alias, d.ann, classDefault src d.ann f.default f.type == .required⟩

def classFieldsOf (src : Source) (cfg : Cfg) (fs : List IField) : List InitField := fs.map (classField src cfg)

/-- the generated class of input type `cls` -/
def classFields (src : Source) (cfg : Cfg) (cls : String) : List InitField := classFieldsOf src cfg (cfg.fieldsOf cls)

/-- every name `__init__` listens to, over the whole class -/
def lookupNamesOf (cs : List InitField) : List String := cs.flatMap (·.lookupNames)

/-- no two attributes of one generated input class share an attribute name or alias.  The complement
    is the region of the naming findings C18-F1…F5, F7 (= C06-F7): `fooBar`/`foo_bar`, `_x`/`x`,
    `class`/`class_` inside one input type collapse into one pydantic field. -/
def ClassNamesClean (cfg : Cfg) : Prop :=
  ∀ n fs, cfg.schema.get? n = some (.input fs) → (lookupNamesOf (classFieldsOf .sdl cfg fs)).Nodup

/-! ### the instances inside a caller value -/

mutual
  /-- every input-model instance of the tree (class name, fields), outermost first -/
  def instances : AV → List (String × List (FieldKey × AV))
    | .list xs => instancesList xs
    | .model cls fields => (cls, fields) :: instancesFields fields
    | _ => []
  def instancesList : List AV → List (String × List (FieldKey × AV))
    | [] => []
    | x :: xs => instances x ++ instancesList xs
  def instancesFields : List (FieldKey × AV) → List (String × List (FieldKey × AV))
    | [] => []
    | (_, v) :: rest => instances v ++ instancesFields rest
end

/-- the instance is what `Cls(**kw)` returns for some keywords -/
def NodeConstructible (src : Source) (cfg : Cfg) (n : String × List (FieldKey × AV)) : Prop :=
  ∃ kw, initModel (classFields src cfg n.1) kw = .ok n.2

/-- every instance inside the value can be obtained from its generated class -/
def Constructible (src : Source) (cfg : Cfg) (v : AV) : Prop := ∀ n ∈ instances v, NodeConstructible src cfg n

def ConstructibleArgs (src : Source) (cfg : Cfg) (a : List AV) : Prop := ∀ v ∈ a, Constructible src cfg v

/-! ### what the caller writes to obtain an instance -/

/-- the keyword the caller uses for a field: the attribute name or the dump key (the alias, if any) -/
def pickName (byName : Bool) (c : InitField) : String := if byName then c.py else c.key

/-- the keywords for an instance: one per SET field, under the attribute name where `bs` says so and
    under the dump key (the alias, if the class declares one) otherwise -/
def kwFor : List Bool → List InitField → List (FieldKey × AV) → List (String × AV)
  | bs, c :: cs, (_, v) :: rest =>
    if v.isUnset then kwFor bs.tail cs rest
    else (pickName (bs.headD false) c, v) :: kwFor bs.tail cs rest
  | _, _, _ => []

/-- the instance fits its class: keys and annotations are the class's, a set field holds a value the
    field accepts, an unset field has a class-level default -/
def fitsClass : List InitField → List (FieldKey × AV) → Bool
  | [], [] => true
  | c :: cs, (fk, v) :: rest =>
    (fk == c.fieldKey) && (if v.isUnset then !c.required else accepts c v) && fitsClass cs rest
  | _, _ => false

/-! ### finding trigger C03-F9 -/

/-- the class generated from an introspected schema has lost this field's default and demands it -/
def lostField (src : Source) (f : IField) : Bool :=
  src == .intro && f.type.nonNull && f.default.isSome

/-- an unset field of the instance is such a field -/
def lostFields (src : Source) : List IField → List (FieldKey × AV) → Bool
  | f :: fs, (_, v) :: rest => (v.isUnset && lostField src f) || lostFields src fs rest
  | _, _ => false

def lostDefault (src : Source) (cfg : Cfg) (v : AV) : Bool :=
  (instances v).any fun n => lostFields src (cfg.fieldsOf n.1) n.2

/-- C03-F9: introspected schema, and somewhere in the arguments an instance leaves unset a non-null
    field that has a schema default -/
def trigDefaultLostIntro (src : Source) (cfg : Cfg) (a : List AV) : Bool := a.any (lostDefault src cfg)

end Ariadne.ArgConstruct
