/-
  C16 — the schema as the graphqlschema strategy sees it (`SchemaIR`), i.e. what the harness
  serialiser reads off a graphql-core `GraphQLSchema` object (harness/c16.py `schema_to_ir`):

  * `types` = `schema.type_map` in order, WITHOUT graphql-core's own built-in objects (the five
    specified scalars and the eight introspection types) — user types only;
  * a reference to a named type carries the *class* of the referenced object (`Kind`), because
    the generator emits `cast(<type_.__class__.__name__>, type_map[<type_.name>])`;
  * Python constants (default values, enum `value`s) are a value tree `PyVal`; floats are kept as
    their `repr` text (no float arithmetic anywhere in the model);
  * `Default.undefined` is graphql-core's `Undefined` ("no default value").

  Core Lean only.
-/
namespace Ariadne.Schema

abbrev Name := String

/-- A Python constant as `ast.Constant(value=…)` can carry it and `repr` can print it. -/
inductive PyVal where
  | none
  | bool (b : Bool)
  | int (i : Int)
  | float (repr : String)
  | str (s : String)
  | list (xs : List PyVal)
  | dict (kvs : List (String × PyVal))
  deriving Repr, Inhabited

inductive Default where
  | undefined
  | value (v : PyVal)
  deriving Repr, Inhabited

inductive Kind where
  | scalar | object | interface | union | enum | input
  deriving Repr, DecidableEq, Inhabited

inductive TypeRef where
  | named (n : Name) (k : Kind)
  | list (t : TypeRef)
  | nonNull (t : TypeRef)
  deriving Repr, Inhabited

/-- `GraphQLArgument` / `GraphQLInputField` (same attributes). -/
structure ArgDef where
  name : Name
  type : TypeRef
  default : Default
  description : Option String
  deprecation : Option String
  deriving Repr

structure FieldDef where
  name : Name
  type : TypeRef
  args : List ArgDef
  description : Option String
  deprecation : Option String
  deriving Repr

structure EnumValDef where
  name : Name
  value : PyVal
  description : Option String
  deprecation : Option String
  deriving Repr

inductive TypeDef where
  | scalar (name : Name) (description : Option String) (specifiedBy : Option String)
  | object (name : Name) (description : Option String) (interfaces : List Name) (fields : List FieldDef)
  | interface (name : Name) (description : Option String) (interfaces : List Name) (fields : List FieldDef)
  | union (name : Name) (description : Option String) (members : List Name)
  | enum (name : Name) (description : Option String) (values : List EnumValDef)
  | input (name : Name) (description : Option String) (fields : List ArgDef) (oneOf : Bool)
  deriving Repr

structure DirectiveDef where
  name : Name
  description : Option String
  repeatable : Bool
  locations : List String
  args : List ArgDef
  deriving Repr

structure SchemaIR where
  types : List TypeDef
  query : Option (Name × Kind)
  mutation : Option (Name × Kind)
  subscription : Option (Name × Kind)
  directives : List DirectiveDef
  description : Option String
  deriving Repr

namespace TypeDef

def name : TypeDef → Name
  | .scalar n _ _ => n
  | .object n _ _ _ => n
  | .interface n _ _ _ => n
  | .union n _ _ => n
  | .enum n _ _ => n
  | .input n _ _ _ => n

def kind : TypeDef → Kind
  | .scalar .. => .scalar
  | .object .. => .object
  | .interface .. => .interface
  | .union .. => .union
  | .enum .. => .enum
  | .input .. => .input

end TypeDef

namespace TypeRef

/-- kind of the named type under the wrappers (`get_named_type`) -/
def baseKind : TypeRef → Kind
  | .named _ k => k
  | .list t => baseKind t
  | .nonNull t => baseKind t

end TypeRef

/-- graphql-core `is_output_type` / `is_input_type` on the unwrapped named type. -/
def Kind.isOutput : Kind → Bool
  | .scalar | .object | .interface | .union | .enum => true
  | .input => false

def Kind.isInput : Kind → Bool
  | .scalar | .enum | .input => true
  | _ => false

/-- Python class name of a named type object: `type_.__class__.__name__`. -/
def Kind.className : Kind → String
  | .scalar => "GraphQLScalarType"
  | .object => "GraphQLObjectType"
  | .interface => "GraphQLInterfaceType"
  | .union => "GraphQLUnionType"
  | .enum => "GraphQLEnumType"
  | .input => "GraphQLInputObjectType"

/-- first binding of a key in an association list (`dict[k]` once keys are known distinct) -/
def alookup {β : Type} (k : String) : List (String × β) → Option β
  | [] => none
  | (k', v) :: rest => if k' = k then some v else alookup k rest

end Ariadne.Schema
