/-
  Model of how the document sent for an operation is assembled (C02):

    client_generators/result_types.py
      get_operation_as_str        print_ast(op') + for n in sorted(_get_all_related_fragments()):
                                  "\n\n" + print_ast(frag'[n])      (x' = _get_node_without_mixin_directive(x))
      _get_all_related_fragments  mixins ∪ ⋃_{m ∈ mixins} _get_fragments_names(frag[m].selection_set) ∪ unpacked
      _get_fragments_names        spread: {name} ∪ names(frag[name].selection_set);
                                  field / inline fragment with a selection set: names(its selection set)
      _get_node_without_mixin_directive   deep copy, `enter_field` drops `@mixin` — FROM FIELDS ONLY:
                                  a `@mixin` on a fragment definition stays in the text (finding C02-F6)
      _add_typename_field_to_selections   (Model/ResultTypes.lean: the sids collected in `St.marks`)
          mutates the SHARED selection-set objects in place, so what is printed for operation k
          carries every `__typename` inserted while operations 1..k were generated.
    client_generators/package.py add_operation: generator runs, then `get_operation_as_str()` at once.

  `print_ast` itself (graphql-core) is not modelled: the model's output is the document IR that is
  printed; the harness parses the real string back and compares ASTs.

  Recursion through fragment definitions takes fuel (`.fuel` on exhaustion; the Python code raises
  RecursionError on a spread cycle, which validation rejects up front); an unknown fragment name is
  the `KeyError` of `self.fragments_definitions[name]`.

  Core Lean only.
-/
import AriadneModel.Model.ResultTypes

namespace Ariadne.OpText
open Ariadne Ariadne.Gql Ariadne.Util Ariadne.ResultTypes

/-! ### the related-fragments closure -/

/-- one iteration of the loop of `_get_fragments_names`; `rec` is the recursive call -/
def namesStep (frags : List Fragment) (rec : List Selection → Except GenErr (List String))
    (acc : List String) : Selection → Except GenErr (List String)
  | .spread n _ =>
    match findFragment? frags n with
    | none => .error (.internal "KeyError")
    | some f =>
      match rec f.sel with
      | .ok sub => .ok (setUnion (setAdd acc n) sub)
      | .error e => .error e
  | .field _ _ _ _ sub =>
    if sub.isEmpty then .ok acc            -- `node.selection_set` is None
    else
      match rec sub with
      | .ok r => .ok (setUnion acc r)
      | .error e => .error e
  | .inline _ _ _ sub =>
    match rec sub with
    | .ok r => .ok (setUnion acc r)
    | .error e => .error e

/-- explicit left fold in `Except` (the `for node in selection_set.selections` loop) -/
def foldE {α β ε : Type} (f : β → α → Except ε β) : β → List α → Except ε β
  | acc, [] => .ok acc
  | acc, x :: xs =>
    match f acc x with
    | .ok acc' => foldE f acc' xs
    | .error e => .error e

/-- `_get_fragments_names(selection_set)` -/
def fragNames (frags : List Fragment) : Nat → List Selection → Except GenErr (List String)
  | 0, _ => .error .fuel
  | fuel + 1, sels => foldE (namesStep frags (fragNames frags fuel)) [] sels

/-- the loop body of `_get_all_related_fragments` -/
def relatedStep (frags : List Fragment) (fuel : Nat) (acc : List String) (m : String) : Except GenErr (List String) :=
  match findFragment? frags m with
  | none => .error (.internal "KeyError")
  | some f =>
    match fragNames frags fuel f.sel with
    | .ok sub => .ok (setUnion acc sub)
    | .error e => .error e

/-- `_get_all_related_fragments()` -/
def relatedFragments (frags : List Fragment) (fuel : Nat) (mixins unpacked : List String) : Except GenErr (List String) :=
  match foldE (relatedStep frags fuel) mixins mixins with
  | .ok names => .ok (setUnion names unpacked)
  | .error e => .error e

/-! ### the two rewrites -/

def isMixin (d : Directive) : Bool := d.name == Tables.mixinName

mutual
  /-- `_get_node_without_mixin_directive`: `enter_field` only -/
  def stripSel : Selection → Selection
    | .field a n dirs sid sub => .field a n (dirs.filter (!isMixin ·)) sid (stripSels sub)
    | .spread n d => .spread n d
    | .inline on d sid sub => .inline on d sid (stripSels sub)
  def stripSels : List Selection → List Selection
    | [] => []
    | s :: ss => stripSel s :: stripSels ss
end

/-- `FieldNode(name=NameNode(value="__typename"))` -/
def tnField : Selection := .field none ResultTypes.typenameField [] 0 []

/-- what `_add_typename_field_to_selections` left in front of the selection set `sid` -/
def pre (marks : List Nat) (sid : Nat) : List Selection := if marks.contains sid then [tnField] else []

mutual
  def addTnSel (marks : List Nat) : Selection → Selection
    | .field a n d sid sub => .field a n d sid (pre marks sid ++ addTnSels marks sub)
    | .spread n d => .spread n d
    | .inline on d sid sub => .inline on d sid (pre marks sid ++ addTnSels marks sub)
  def addTnSels (marks : List Nat) : List Selection → List Selection
    | [] => []
    | s :: ss => addTnSel marks s :: addTnSels marks ss
end

/-- selection set `sid` as it is printed -/
def sentSet (marks : List Nat) (sid : Nat) (sel : List Selection) : List Selection :=
  pre marks sid ++ addTnSels marks (stripSels sel)

def sentOp (marks : List Nat) (o : Operation) : Operation := { o with sel := sentSet marks o.sid o.sel }
def sentFrag (marks : List Nat) (f : Fragment) : Fragment := { f with sel := sentSet marks f.sid f.sel }

/-- the sent document: one operation followed by fragment definitions -/
structure Doc where
  op : Operation
  frags : List Fragment
  deriving Repr

/-- explicit `mapM` in `Except` over the sorted names: `self.fragments_definitions[used_fragment]` -/
def lookupAll (frags : List Fragment) (marks : List Nat) : List String → Except GenErr (List Fragment)
  | [] => .ok []
  | n :: ns =>
    match findFragment? frags n with
    | none => .error (.internal "KeyError")
    | some f =>
      match lookupAll frags marks ns with
      | .ok fs => .ok (sentFrag marks f :: fs)
      | .error e => .error e

/-- `sorted(self._get_all_related_fragments())` -/
def sentNames (related : List String) : List String := sortStr (dedup related)

/-- `get_operation_as_str()` as a document (before `print_ast`) -/
def sentDoc (frags : List Fragment) (fuel : Nat) (o : Operation) (st : St) : Except GenErr Doc :=
  match relatedFragments frags fuel st.mixins st.unpacked with
  | .error e => .error e
  | .ok related =>
    match lookupAll frags st.marks (sentNames related) with
    | .ok fs => .ok { op := sentOp st.marks o, frags := fs }
    | .error e => .error e

/-- `operation_name=` of the generated `execute(...)` call: `definition.name.value` -/
def sentOperationName (o : Operation) : Option String := o.name

/-- `PackageGenerator.add_operation`: run the generator for this operation (on top of the marks
    left by the operations before it), then print. -/
def addOperation (env : Env) (fuel : Nat) (o : Operation) (marksIn : List Nat) : Except GenErr (Doc × St) :=
  match generate env fuel (.op o) marksIn with
  | .error e => .error e
  | .ok out =>
    match sentDoc env.frags fuel o out.st with
    | .ok d => .ok (d, out.st)
    | .error e => .error e

/-- all operations of a package, in the order `add_operation` is called -/
def addOperations (env : Env) (fuel : Nat) : List Operation → List Nat → Except GenErr (List Doc)
  | [], _ => .ok []
  | o :: os, marks =>
    match addOperation env fuel o marks with
    | .error e => .error e
    | .ok (d, st) =>
      match addOperations env fuel os st.marks with
      | .ok ds => .ok (d :: ds)
      | .error e => .error e

/-! ### vocabulary of the property (decidable parts; evaluated by the driver too) -/

mutual
  /-- names of the spreads of a selection set, not looking through spreads -/
  def directSel : Selection → List String
    | .spread n _ => [n]
    | .field _ _ _ _ sub => directSels sub
    | .inline _ _ _ sub => directSels sub
  def directSels : List Selection → List String
    | [] => []
    | s :: ss => directSel s ++ directSels ss
end

def subset (xs ys : List String) : Bool := xs.all ys.contains

/-- trigger of finding C02-F7: a spread written in the operation, or in a fragment the generator
    unpacked, names a fragment that is not among the related fragments (the generator never
    registered it: `_resolve_selection_set` dropped the spread, or the class holding it was
    de-duplicated away). -/
def droppedSpread (frags : List Fragment) (o : Operation) (unpacked related : List String) : Bool :=
  !(subset (directSels o.sel) related
    && unpacked.all fun u =>
        match findFragment? frags u with
        | some f => subset (directSels f.sel) related
        | none => true)

/-- trigger of finding C02-F6: a fragment definition that is sent carries `@mixin` -/
def mixinOnSentFragment (frags : List Fragment) (related : List String) : Bool :=
  related.any fun n =>
    match findFragment? frags n with
    | some f => f.dirs.any isMixin
    | none => false

/-- every fragment the generator registered is reachable from the operation (`reach` = the names
    reachable from the operation's selection set, i.e. `fragNames … o.sel`) -/
def stateSound (reach mixins unpacked : List String) : Bool := subset mixins reach && subset unpacked reach

mutual
  /-- `@mixin` occurs only where the injected directive may stand in a valid operation: on fields
      (and on fragment definitions, checked separately) -/
  def mixinPlacedSel : Selection → Bool
    | .field _ _ _ _ sub => mixinPlacedSels sub
    | .spread _ d => !d.any isMixin
    | .inline _ d _ sub => !d.any isMixin && mixinPlacedSels sub
  def mixinPlacedSels : List Selection → Bool
    | [] => true
    | s :: ss => mixinPlacedSel s && mixinPlacedSels ss
end

/-- the selection set directly contains a `__typename` field -/
def hasDirectTypename : List Selection → Bool
  | [] => false
  | .field _ n _ _ _ :: ss => n == ResultTypes.typenameField || hasDirectTypename ss
  | _ :: ss => hasDirectTypename ss


/-! ### undoing the two documented rewrites (specification side) -/

/-- a plain `__typename` field: no alias, no directives, no selection set -/
def isTn : Selection → Bool
  | .field none n [] _ [] => n == ResultTypes.typenameField
  | _ => false

mutual
  /-- remove the one leading automatic `__typename` of every marked selection set -/
  def undoSel (marks : List Nat) : Selection → Selection
    | .field a n d sid sub => .field a n d sid (undoSet marks sid sub)
    | .spread n d => .spread n d
    | .inline on d sid sub => .inline on d sid (undoSet marks sid sub)
  def undoSet (marks : List Nat) (sid : Nat) : List Selection → List Selection
    | [] => []
    | t :: rest => if marks.contains sid && isTn t then undoSels marks rest else undoSel marks t :: undoSels marks rest
  def undoSels (marks : List Nat) : List Selection → List Selection
    | [] => []
    | s :: ss => undoSel marks s :: undoSels marks ss
end

mutual
  /-- the authored selection without the codegen-only `@mixin` directive, wherever it stands -/
  def stripAllSel : Selection → Selection
    | .field a n dirs sid sub => .field a n (dirs.filter (!isMixin ·)) sid (stripAllSels sub)
    | .spread n d => .spread n (d.filter (!isMixin ·))
    | .inline on d sid sub => .inline on (d.filter (!isMixin ·)) sid (stripAllSels sub)
  def stripAllSels : List Selection → List Selection
    | [] => []
    | s :: ss => stripAllSel s :: stripAllSels ss
end

/-- the authored operation / fragment definition as the server is meant to see it -/
def expectedOp (o : Operation) : Operation := { o with dirs := o.dirs.filter (!isMixin ·), sel := stripAllSels o.sel }
def expectedFrag (f : Fragment) : Fragment := { f with dirs := f.dirs.filter (!isMixin ·), sel := stripAllSels f.sel }

def undoOp (marks : List Nat) (o : Operation) : Operation := { o with sel := undoSet marks o.sid o.sel }
def undoFrag (marks : List Nat) (f : Fragment) : Fragment := { f with sel := undoSet marks f.sid f.sel }

end Ariadne.OpText
