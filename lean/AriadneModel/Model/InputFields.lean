/-
  Model of the attributes of generated *input* classes, as far as C03/C07 depend on them
  (client_generators/input_types.py `_parse_input_definition`, `_process_field_value`;
   client_generators/input_fields.py `parse_input_field_type`, `parse_input_field_default_value`):

      name = process_name(org_name, convert_to_snake_case=…, trim_leading_underscore=True,
                          handle_pydantic_resrved_field_names=True)
      annotation, field_type = parse_input_field_type(field.type, custom_scalars=self.custom_scalars)
      value = parse_input_field_default_value(node=field.ast_node, annotation=annotation, field_type=field_type)
      if name != org_name: value = Field(alias=org_name[, default=value | <keywords of value>])

      def parse_input_field_type(type_, nullable=True, custom_scalars=None):
          scalar: name in INPUT_SCALARS_MAP -> generate_annotation_name(INPUT_SCALARS_MAP[name], nullable)
                  name in custom_scalars    -> generate_input_scalar_annotation(custom_scalars[name]) [Optional if nullable]
                  else                      -> generate_annotation_name(ANY, nullable)
          input object -> generate_annotation_name('"' + name + '"', nullable)
          enum         -> generate_annotation_name(name, nullable)
          list         -> slice_ = parse_input_field_type(type_.of_type, nullable=nullable, …)   # NB: handed DOWN
                          generate_list_annotation(slice_, nullable)
          non-null     -> parse_input_field_type(type_.of_type, nullable=False, …)

      def parse_input_field_default_value(node, annotation, field_type=""):
          if node and node.default_value: return <literal>
          if (node and not isinstance(node.type, NonNullTypeNode)) or annotation is Optional[...]: return None-constant
          return None                                   # no default: the field is required

  Types are in the normal form of `Spec.Coerce.GT` (`NonNull(List(NonNull(Named)))` = flags).
  Note the order of the two dictionary tests for scalars: the built-in map wins over the
  configuration here (in arguments.py the configuration wins).  Core Lean only.
-/
import AriadneModel.Model.Names
import AriadneModel.Model.Scalars
import AriadneModel.Model.Util
import AriadneModel.Spec.Coerce
import AriadneModel.Generated.Tables

namespace Ariadne.InputFields
open Ariadne Ariadne.Scalars Ariadne.Coerce

/-- which `isinstance` test a named type passes -/
inductive TKind where
  | scalar | input | enum | other
  deriving Repr, DecidableEq, Inhabited

def kindOf (s : ISchema) (n : String) : TKind :=
  match s.get? n with
  | some .scalar => .scalar
  | some (.enum _) => .enum
  | some (.input _) => .input
  | some .output => .other
  | none => if builtinScalars.contains n then .scalar else .other

/-- annotation of a named type (before the `Optional`) -/
def namedLeaf (scalars : ScalarCfg) (kind : String → TKind) (n : String) : Leaf :=
  match kind n with
  | .scalar =>
    match Util.lookupStr n Tables.inputScalarsMap with
    | some py => .name py
    | none =>
      match lookupScalar scalars n with
      | some d => inputLeaf d
      | none => .name "Any"
  | .input => .fwd n
  | .enum => .name n
  | .other => .name "Any"        -- ParsingError("Invalid input field type.") in the generator; not an input type

/-- `parse_input_field_type(type_, nullable)` -/
def parseType (scalars : ScalarCfg) (kind : String → TKind) : (nullable : Bool) → GT → NAnn
  | nullable, .named n nn => .leaf (namedLeaf scalars kind n) (if nn then false else nullable)
  | nullable, .list it nn =>
    let nl := if nn then false else nullable
    .list (parseType scalars kind nl it) nl

structure FieldDecl where
  py : String
  alias : Option String
  ann : NAnn
  deriving Repr, DecidableEq, Inhabited

def pyField (snake : Bool) (n : String) : String :=
  String.ofList (Names.pyName snake .inputField n.toList)

/-- one attribute of a generated input class -/
def fieldDecl (snake : Bool) (scalars : ScalarCfg) (kind : String → TKind) (org : String) (t : GT) : FieldDecl :=
  let py := pyField snake org
  ⟨py, if py != org then some org else none, parseType scalars kind true t⟩

/-- the class-level default of the attribute -/
inductive DefaultKind where
  | required          -- no default: pydantic demands the field
  | none              -- `= None`
  | value             -- the schema's default value literal
  deriving Repr, DecidableEq, Inhabited

/-- `d` = the schema's (coerced) default value of the field, if it declares one; a `null` literal
    is emitted as the constant `None`, like the implicit default of a nullable field -/
def defaultKind (d : Option J) (t : GT) : DefaultKind :=
  match d with
  | some .null => .none
  | some _ => .value
  | none => if t.nonNull then .required else .none

end Ariadne.InputFields
