/-
  Model of the file side of `ariadne_codegen/schema.py` (C19):

      def load_graphql_files_from_path(path: Path) -> str:
          if path.is_dir():
              schema_list = [read_graphql_file(f) for f in sorted(walk_graphql_files(path))]
              return "\n".join(schema_list)
          return read_graphql_file(path.resolve())

      def walk_graphql_files(path: Path):
          extensions = (".graphql", ".graphqls", ".gql")
          for file_ in path.glob("**/*"):
              if file_.suffix in extensions:
                  yield file_

      def read_graphql_file(path: Path) -> str:
          with open(path, encoding="utf-8") as graphql_file: schema = graphql_file.read()
          try: parse(schema)
          except GraphQLSyntaxError as exc: raise InvalidGraphqlSyntax(f"Invalid graphql syntax in file {path}") from exc
          return schema

      def get_graphql_schema_from_path(schema_path: str) -> GraphQLSchema:
          schema_str = load_graphql_files_from_path(Path(schema_path))
          graphql_ast = parse(schema_str)
          schema = build_ast_schema(graphql_ast, assume_valid=True)

  What is abstracted: a file's text is represented by what graphql-core's `parse` makes of it —
  `none` (GraphQLSyntaxError) or `some ds`, the list of its definitions (`δ` is the abstract type of
  a definition).  ASSUMPTION (validated by the correspondence check of harness/c19.py on every run,
  not proved): for individually parseable texts, `parse("\n".join(texts)).definitions` is the
  concatenation of the `parse(text).definitions`.  `Path.glob("**/*")` yields every descendant of
  the directory (files and directories, hidden ones too) in an order that is NOT specified
  (os.scandir order); the model enumerates in tree order and the theorems show that the order is
  immaterial because of `sorted`.  `sorted` on `Path` objects compares the lists of path components
  (`PurePath._parts_normcase`), component strings by code point.

  (Since round 3 the lexical half of the ASSUMPTION above is a theorem: Spec/GqlLexer.lean + Properties/C19.lean §1b
  `joined_text_tokens`; what stays assumed is the token-level statement `DefinitionWise` there.  `nested_file_walked`
  in Properties/C19.lean spells out "hidden ones too" for any depth and any names.)

  Core Lean only (linked into the driver).
-/
import AriadneModel.Generated.Tables

namespace Ariadne.SchemaLoad

/-- `PurePath.suffix` of CPython 3.12:
      i = name.rfind('.');  return name[i:] if 0 < i < len(name) - 1 else ''        -/
def suffix (name : String) : String :=
  let cs := name.toList
  let n := cs.length
  let k := cs.reverse.findIdx (· == '.')      -- distance of the last '.' from the end (n = none)
  if k < n then
    let i := n - 1 - k
    if 0 < i ∧ i < n - 1 then String.ofList (cs.drop i) else ""
  else ""

/-- `file_.suffix in extensions` (the tuple is re-extracted from the source on every run). -/
def isGraphqlName (name : String) : Bool := Tables.graphqlExtensions.contains (suffix name)

/-- A directory tree.  `file name content`: `content = none` iff `parse` rejects the file's text. -/
inductive Tree (δ : Type) where
  | file (name : String) (content : Option (List δ))
  | dir (name : String) (kids : List (Tree δ))

inductive Item (δ : Type) where
  | dir
  | file (content : Option (List δ))

/-- One path yielded by `glob("**/*")`: components relative to the root, last component, what it is. -/
structure Entry (δ : Type) where
  path : List String
  name : String
  item : Item δ

mutual
  def Tree.entries {δ : Type} (pre : List String) : Tree δ → List (Entry δ)
    | .file n c => [⟨pre ++ [n], n, .file c⟩]
    | .dir n ks => ⟨pre ++ [n], n, .dir⟩ :: entriesList (pre ++ [n]) ks
  def entriesList {δ : Type} (pre : List String) : List (Tree δ) → List (Entry δ)
    | [] => []
    | t :: ts => t.entries pre ++ entriesList pre ts
end

/-- `a <= b` for two `Path`s below the same root: Python's list comparison of the components. -/
def pathLe : List String → List String → Bool
  | [], _ => true
  | _ :: _, [] => false
  | a :: as, b :: bs => if a < b then true else if a = b then pathLe as bs else false

def entryLe {δ : Type} (a b : Entry δ) : Bool := pathLe a.path b.path

inductive LoadErr where
  | invalidSyntax (path : List String)   -- InvalidGraphqlSyntax("Invalid graphql syntax in file <path>")
  | isADirectory (path : List String)    -- open() on a directory whose name ends in a graphql suffix
  deriving Repr, DecidableEq

/-- `read_graphql_file`. -/
def readEntry {δ : Type} (e : Entry δ) : Except LoadErr (List δ) :=
  match e.item with
  | .dir => .error (.isADirectory e.path)
  | .file none => .error (.invalidSyntax e.path)
  | .file (some ds) => .ok ds

/-- the list comprehension `[read_graphql_file(f) for f in ...]`: the first failure escapes. -/
def readAll {δ : Type} : List (Entry δ) → Except LoadErr (List (List δ))
  | [] => .ok []
  | e :: es =>
    match readEntry e with
    | .error x => .error x
    | .ok ds =>
      match readAll es with
      | .error x => .error x
      | .ok r => .ok (ds :: r)

/-- `walk_graphql_files(path)` in tree order. -/
def walk {δ : Type} (kids : List (Tree δ)) : List (Entry δ) :=
  (entriesList [] kids).filter (fun e => isGraphqlName e.name)

/-- insertion into a sorted list, before the first element that is not smaller -/
def insertBy {α : Type} (le : α → α → Bool) (a : α) : List α → List α
  | [] => [a]
  | b :: bs => if le a b then a :: b :: bs else b :: insertBy le a bs

/-- Python's `sorted` (stable; structural insertion sort so that the kernel can evaluate it). -/
def sortBy {α : Type} (le : α → α → Bool) : List α → List α
  | [] => []
  | a :: as => insertBy le a (sortBy le as)

/-- `sorted(walk_graphql_files(path))`. -/
def sortedWalk {δ : Type} (kids : List (Tree δ)) : List (Entry δ) := sortBy entryLe (walk kids)

/-- `load_graphql_files_from_path` on a directory: the definitions of the joined text, in order. -/
def loadDir {δ : Type} (kids : List (Tree δ)) : Except LoadErr (List δ) :=
  match readAll (sortedWalk kids) with
  | .error x => .error x
  | .ok parts => .ok parts.flatten

/-- What `schema_path` points at. A single file is read whatever its name is. -/
inductive Source (δ : Type) where
  | file (content : Option (List δ))
  | dir (kids : List (Tree δ))

def load {δ : Type} : Source δ → Except LoadErr (List δ)
  | .file none => .error (.invalidSyntax [])
  | .file (some ds) => .ok ds
  | .dir kids => loadDir kids

/-- Outcome of `get_graphql_schema_from_path` up to the call of `build_ast_schema`. -/
inductive PathOutcome (δ : Type) where
  | refused (e : LoadErr)          -- InvalidGraphqlSyntax (documented) / IsADirectoryError
  | emptyDocument                  -- parse("") : bare GraphQLSyntaxError (directory without graphql files)
  | document (defs : List δ)       -- handed to build_ast_schema(…, assume_valid=True)

def schemaDocFromPath {δ : Type} (s : Source δ) : PathOutcome δ :=
  match load s with
  | .error e => .refused e
  | .ok [] => .emptyDocument
  | .ok ds => .document ds

/-- Definitions of all graphql files of a tree, in tree order (specification side of `split_invariant`). -/
def graphqlDefs {δ : Type} (kids : List (Tree δ)) : List δ :=
  ((walk kids).map fun e => match e.item with | .file (some ds) => ds | _ => []).flatten

end Ariadne.SchemaLoad
