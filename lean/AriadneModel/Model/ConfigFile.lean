/-
  Model of `ariadne_codegen.config.get_config_file_path` (C17): where the configuration comes from.

      def get_config_file_path(file_name: str = "pyproject.toml") -> Path:
          directory = Path.cwd()
          while not directory.joinpath(file_name).exists():
              if directory == directory.parent:
                  raise ConfigFileNotFound(f"Config file {file_name} not found.")
              directory = directory.parent
          return directory.joinpath(file_name).resolve()

  The current directory is given by its components (`/a/b/c` = `["a", "b", "c"]`); the loop walks the
  chain of ancestors `/a/b/c, /a/b, /a, /` — a list, so termination is structural (`/` is its own
  parent, which is the loop's exit).  `Path.exists` is an oracle.  `joinpath` with an ABSOLUTE file name
  replaces the directory (that is how `--config /abs/path.toml` works).  `.resolve()` is the identity on
  the paths of the compared domain (no symlinks, no `..`).  Core Lean only.
-/
namespace Ariadne.ConfigFile

/-- `str(PurePosixPath("/" + "/".join(comps)))` -/
def dirPath (comps : List String) : String := "/" ++ "/".intercalate comps

/-- `str(directory.joinpath(file_name))` -/
def joinPath (comps : List String) (file : String) : String :=
  if file.toList.head? == some '/' then file
  else if comps.isEmpty then "/" ++ file
  else dirPath comps ++ "/" ++ file

inductive Found where
  | path (p : String)             -- the function returns `Path(p)`
  | notFound (msg : String)       -- ConfigFileNotFound(msg)
  deriving Repr, DecidableEq

/-- the loop, on the REVERSED components of the directory (`directory.parent` = drop the last one) -/
def searchUp (pathExists : String → Bool) (file : String) : List String → Found
  | [] => if pathExists (joinPath [] file) then .path (joinPath [] file)
          else .notFound ("Config file " ++ file ++ " not found.")
  | c :: rev =>
    if pathExists (joinPath (c :: rev).reverse file) then .path (joinPath (c :: rev).reverse file)
    else searchUp pathExists file rev

/-- `get_config_file_path(file_name)` with `Path.cwd()` = `/` + `/`.join(cwd) -/
def getConfigFilePath (pathExists : String → Bool) (cwd : List String) (file : String) : Found :=
  searchUp pathExists file cwd.reverse

/-- the ancestors of a directory given by its reversed components, nearest first, `/` last -/
def ancestorsRev : List String → List (List String)
  | [] => [[]]
  | c :: rev => (c :: rev).reverse :: ancestorsRev rev

def ancestors (cwd : List String) : List (List String) := ancestorsRev cwd.reverse

end Ariadne.ConfigFile
