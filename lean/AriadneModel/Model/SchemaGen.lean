/-
  C16 — model of the graphqlschema strategy's Python emitter
  (ariadne_codegen/graphql_schema_generators/{schema,named_types,fields,directives,utils,constants}.py)
  and of the target dispatch (`settings.GraphQLSchemaSettings.target_file_format`,
  `assert_string_is_valid_schema_target_filename`, `main.graphql_schema`).

  `gen S tm sv` is `generate_schema_module(schema, type_map_name=tm, schema_variable_name=sv)`
  rendered as a *constructor-expression IR*: one IR node per emitted `ast` shape, every identifier
  the emitted code mentions is data (so that the evaluator in Spec/PySchemaEval.lean has to resolve
  it, and a changed generator shows up as a different IR).  The harness canonicaliser
  (harness/c16.py `module_to_ir`) maps the really emitted module to the same IR.

  Python, for reference (fields.py):

      def generate_field_type(type_, type_map_name):
          if isinstance(type_, (Object, Interface, Union, Enum, InputObject)): return get_named_type(type_, type_map_name)
          if isinstance(type_, GraphQLScalarType):
              if type_.name in STANDARD_SCALARS: return generate_name(STANDARD_SCALARS[type_.name])
              return get_named_type(type_, type_map_name)
          if isinstance(type_, GraphQLList): return Call(Name("GraphQLList"), [generate_field_type(type_.of_type, ...)])
          if isinstance(type_, GraphQLNonNull): return Call(Name("GraphQLNonNull"), [generate_field_type(type_.of_type, ...)])

      def get_named_type(type_, type_map_name):          # utils.py
          return Call(Name("cast"), [Name(type_.__class__.__name__), Subscript(Name(type_map_name), Constant(type_.name))])

  Core Lean only.
-/
import AriadneModel.Model.SchemaIR
import AriadneModel.Generated.Tables

namespace Ariadne.SchemaGen
open Ariadne.Schema

/-! ### The constructor-expression IR -/

/-- What `generate_constant(x)` becomes in the emitted text: a literal, or — for graphql-core's
    `Undefined`, whose `repr` is the bare word — the name `Undefined`. -/
inductive CExpr where
  | const (v : PyVal)
  | name (n : Name)
  deriving Repr, Inhabited

/-- Output of `generate_field_type`. -/
inductive TExpr where
  | name (n : Name)                                   -- `GraphQLInt`
  | cast (fn cls tm : Name) (key : String)            -- `cast(cls, tm["key"])`
  | call (fn : Name) (arg : TExpr)                    -- `GraphQLList(x)` / `GraphQLNonNull(x)`
  deriving Repr, Inhabited

/-- `GraphQLArgument(T, default_value=…, description=…, deprecation_reason=…)` (also `GraphQLInputField`) -/
structure ArgE where
  ctor : Name
  type : TExpr
  default : CExpr
  description : CExpr
  deprecation : CExpr
  deriving Repr

/-- `GraphQLField(T, args={…}, description=…, deprecation_reason=…)` -/
structure FieldE where
  ctor : Name
  type : TExpr
  args : List (String × ArgE)
  description : CExpr
  deprecation : CExpr
  deriving Repr

/-- `fields=` of object/interface types: the constant `{}` or `lambda: {…}` -/
inductive FieldsE where
  | emptyConst
  | thunk (items : List (String × FieldE))
  deriving Repr

/-- `fields=` of input object types -/
inductive InFieldsE where
  | emptyConst
  | thunk (items : List (String × ArgE))
  deriving Repr

/-- `get_list_of_named_types`: the constant `[]` or
    `lambda: cast(List[elemCls], [tm["k1"], …])` -/
inductive NamesE where
  | emptyConst
  | thunk (castFn listName elemCls tm : Name) (keys : List String)
  deriving Repr

/-- `GraphQLEnumValue(value=…, description=…, deprecation_reason=…)` -/
structure EnumValE where
  ctor : Name
  value : CExpr
  description : CExpr
  deprecation : CExpr
  deriving Repr

/-- The constructor calls of `named_types.py`, classified by their keyword set. -/
inductive TypeE where
  | scalar (ctor : Name) (name description specifiedBy : CExpr)
  | composite (ctor : Name) (name description : CExpr) (interfaces : NamesE) (fields : FieldsE)
  | union (ctor : Name) (name description : CExpr) (types : NamesE)
  | enum (ctor : Name) (name description : CExpr) (values : List (String × EnumValE))
  | input (ctor : Name) (name description : CExpr) (fields : InFieldsE)
  deriving Repr

/-- `GraphQLDirective(name=…, description=…, is_repeatable=…, locations=(DirectiveLocation.X, …), args={…}|None)` -/
structure DirectiveE where
  ctor : Name
  name : CExpr
  description : CExpr
  repeatable : CExpr
  locations : List (Name × Name)            -- (`DirectiveLocation`, member)
  args : Option (List (String × ArgE))      -- `none` = the constant `None`
  deriving Repr

/-- `get_optional_named_type` -/
inductive RootE where
  | none
  | cast (fn cls tm : Name) (key : String)
  deriving Repr

/-- `GraphQLSchema(query=…, mutation=…, subscription=…, types=<tm>.values(), directives=[…], description=…)` -/
structure SchemaE where
  ctor : Name
  query : RootE
  mutation : RootE
  subscription : RootE
  typesTm : Name
  directives : List DirectiveE
  description : CExpr
  deriving Repr

structure ImportE where
  module : String
  names : List Name
  deriving Repr

/-- `from … import …` ×3;  `<tm>: <tmAnn> = {…}`;  `<sv>: <svAnn> = GraphQLSchema(…)` -/
structure PyModuleIR where
  imports : List ImportE
  tmName : Name
  tmAnn : Name
  typeMap : List (String × TypeE)
  svName : Name
  svAnn : Name
  schema : SchemaE
  deriving Repr

/-! ### The generator -/

/-- `generate_constant(x)` for an `Optional[str]` attribute -/
def genOptStr : Option String → CExpr
  | none => .const .none
  | some s => .const (.str s)

/-- `generate_constant(arg.default_value)`: `ast.Constant(Undefined)` unparses to the word `Undefined` -/
def genDefault : Default → CExpr
  | .undefined => .name "Undefined"
  | .value v => .const v

/-- `STANDARD_SCALARS.get(name)` -/
def stdScalarPy (n : Name) : Option String := alookup n Tables.schemaStandardScalars

/-- utils.py `get_named_type` -/
def getNamedType (tm : Name) (n : Name) (k : Kind) : TExpr := .cast "cast" k.className tm n

/-- fields.py `generate_field_type` -/
def genFieldType (tm : Name) : TypeRef → TExpr
  | .named n .scalar =>
      match stdScalarPy n with
      | some py => .name py
      | none => getNamedType tm n .scalar
  | .named n k => getNamedType tm n k
  | .list t => .call "GraphQLList" (genFieldType tm t)
  | .nonNull t => .call "GraphQLNonNull" (genFieldType tm t)

/-- fields.py `generate_arg` (ctor = `GraphQLArgument`) / `generate_input_field` (ctor = `GraphQLInputField`) -/
def genArgWith (ctor : Name) (tm : Name) (a : ArgDef) : ArgE :=
  { ctor := ctor, type := genFieldType tm a.type, default := genDefault a.default,
    description := genOptStr a.description, deprecation := genOptStr a.deprecation }

/-- fields.py `generate_args` -/
def genArgs (tm : Name) (as : List ArgDef) : List (String × ArgE) :=
  as.map fun a => (a.name, genArgWith "GraphQLArgument" tm a)

/-- fields.py `generate_field` -/
def genField (tm : Name) (f : FieldDef) : FieldE :=
  { ctor := "GraphQLField", type := genFieldType tm f.type, args := genArgs tm f.args,
    description := genOptStr f.description, deprecation := genOptStr f.deprecation }

/-- fields.py `generate_field_map`: `if not fields: return generate_constant({})` -/
def genFieldMap (tm : Name) : List FieldDef → FieldsE
  | [] => .emptyConst
  | fs => .thunk (fs.map fun f => (f.name, genField tm f))

/-- fields.py `generate_input_field_map` -/
def genInputFieldMap (tm : Name) : List ArgDef → InFieldsE
  | [] => .emptyConst
  | fs => .thunk (fs.map fun a => (a.name, genArgWith "GraphQLInputField" tm a))

/-- utils.py `get_list_of_named_types` -/
def genNames (tm : Name) (elemCls : Name) : List Name → NamesE
  | [] => .emptyConst
  | ns => .thunk "cast" "List" elemCls tm ns

/-- fields.py `generate_enum_value` / `generate_enum_values` -/
def genEnumValue (v : EnumValDef) : EnumValE :=
  { ctor := "GraphQLEnumValue", value := .const v.value,
    description := genOptStr v.description, deprecation := genOptStr v.deprecation }

def genEnumValues (vs : List EnumValDef) : List (String × EnumValE) :=
  vs.map fun v => (v.name, genEnumValue v)

/-- named_types.py `generate_named_type` and the six `generate_*_type`.
    NB `generate_input_object_type` emits name, description and fields only: `is_one_of` is not
    carried over (finding C16-F1). -/
def genType (tm : Name) : TypeDef → TypeE
  | .scalar n d u => .scalar "GraphQLScalarType" (.const (.str n)) (genOptStr d) (genOptStr u)
  | .object n d is fs =>
      .composite "GraphQLObjectType" (.const (.str n)) (genOptStr d)
        (genNames tm "GraphQLInterfaceType" is) (genFieldMap tm fs)
  | .interface n d is fs =>
      .composite "GraphQLInterfaceType" (.const (.str n)) (genOptStr d)
        (genNames tm "GraphQLInterfaceType" is) (genFieldMap tm fs)
  | .union n d ms => .union "GraphQLUnionType" (.const (.str n)) (genOptStr d) (genNames tm "GraphQLObjectType" ms)
  | .enum n d vs => .enum "GraphQLEnumType" (.const (.str n)) (genOptStr d) (genEnumValues vs)
  | .input n d fs _ => .input "GraphQLInputObjectType" (.const (.str n)) (genOptStr d) (genInputFieldMap tm fs)

/-- schema.py `generate_type_map`: `if name not in STANDARD_TYPES` -/
def genTypeMap (tm : Name) (ts : List TypeDef) : List (String × TypeE) :=
  (ts.filter fun t => !(Tables.schemaStandardTypes.contains t.name)).map fun t => (t.name, genType tm t)

/-- directives.py `generate_directive` -/
def genDirective (tm : Name) (d : DirectiveDef) : DirectiveE :=
  { ctor := "GraphQLDirective", name := .const (.str d.name), description := genOptStr d.description,
    repeatable := .const (.bool d.repeatable),
    locations := d.locations.map fun l => ("DirectiveLocation", l),
    args := match d.args with
      | [] => none                         -- `if directive.args else generate_constant(None)`
      | as => some (genArgs tm as) }

/-- utils.py `get_optional_named_type` -/
def genRoot (tm : Name) : Option (Name × Kind) → RootE
  | none => .none
  | some (n, k) => .cast "cast" k.className tm n

/-- schema.py `generate_schema` -/
def genSchema (tm : Name) (S : SchemaIR) : SchemaE :=
  { ctor := "GraphQLSchema", query := genRoot tm S.query, mutation := genRoot tm S.mutation,
    subscription := genRoot tm S.subscription, typesTm := tm,
    directives := S.directives.map (genDirective tm), description := genOptStr S.description }

def graphqlImportNames : List Name :=
  ["DirectiveLocation", "GraphQLArgument", "GraphQLDirective", "GraphQLEnumType", "GraphQLEnumValue",
   "GraphQLField", "GraphQLInputField", "GraphQLInputObjectType", "GraphQLInterfaceType", "GraphQLList",
   "GraphQLNamedType", "GraphQLNonNull", "GraphQLObjectType", "GraphQLScalarType", "GraphQLSchema",
   "GraphQLUnionType", "GraphQLID", "GraphQLInt", "GraphQLFloat", "GraphQLString", "GraphQLBoolean",
   "Undefined"]

def genImports : List ImportE :=
  [⟨"graphql", graphqlImportNames⟩, ⟨"graphql.type.schema", ["TypeMap"]⟩, ⟨"typing", ["cast", "List"]⟩]

/-- every name the emitted module imports -/
def importNames : List Name := genImports.flatMap (·.names)

/-- schema.py `generate_schema_module` -/
def gen (S : SchemaIR) (tm sv : Name) : PyModuleIR :=
  { imports := genImports, tmName := tm, tmAnn := "TypeMap", typeMap := genTypeMap tm S.types,
    svName := sv, svAnn := "GraphQLSchema", schema := genSchema tm S }

/-! ### Names used by the emitted module (what autoflake keeps of the import lists) -/

def CExpr.used : CExpr → List Name
  | .const _ => []
  | .name n => [n]

def TExpr.used : TExpr → List Name
  | .name n => [n]
  | .cast fn cls tm _ => [fn, cls, tm]
  | .call fn a => fn :: a.used

def ArgE.used (a : ArgE) : List Name :=
  a.ctor :: (a.type.used ++ a.default.used ++ a.description.used ++ a.deprecation.used)

def FieldE.used (f : FieldE) : List Name :=
  f.ctor :: (f.type.used ++ f.args.flatMap (fun p => p.2.used) ++ f.description.used ++ f.deprecation.used)

def NamesE.used : NamesE → List Name
  | .emptyConst => []
  | .thunk c l e tm _ => [c, l, e, tm]

def TypeE.used : TypeE → List Name
  | .scalar c n d u => c :: (n.used ++ d.used ++ u.used)
  | .composite c n d is fs =>
      c :: (n.used ++ d.used ++ is.used ++
        (match fs with | .emptyConst => [] | .thunk items => items.flatMap fun p => p.2.used))
  | .union c n d ts => c :: (n.used ++ d.used ++ ts.used)
  | .enum c n d vs =>
      c :: (n.used ++ d.used ++ vs.flatMap fun p => p.2.ctor :: (p.2.value.used ++ p.2.description.used ++ p.2.deprecation.used))
  | .input c n d fs =>
      c :: (n.used ++ d.used ++
        (match fs with | .emptyConst => [] | .thunk items => items.flatMap fun p => p.2.used))

def RootE.used : RootE → List Name
  | .none => []
  | .cast fn cls tm _ => [fn, cls, tm]

def DirectiveE.used (d : DirectiveE) : List Name :=
  d.ctor :: (d.name.used ++ d.description.used ++ d.repeatable.used ++ d.locations.map (·.1) ++
    (match d.args with | none => [] | some as => as.flatMap fun p => p.2.used))

def PyModuleIR.used (m : PyModuleIR) : List Name :=
  m.tmAnn :: m.svAnn :: (m.typeMap.flatMap (fun p => p.2.used) ++
    (m.schema.ctor :: (m.schema.query.used ++ m.schema.mutation.used ++ m.schema.subscription.used ++
      [m.schema.typesTm] ++ m.schema.directives.flatMap (·.used) ++ m.schema.description.used)))

/-- what `ast_to_str`'s autoflake pass (`remove_all_unused_imports=True`) leaves of the imports;
    import statements left without a name disappear.  An imported name that one of the two
    assignments re-binds is kept (pyflakes reports it as "redefinition", not as "unused import").
    (autoflake is third-party: assumed, compared with the really written file by the harness.) -/
def pruneWith (keep : Name → Bool) (imports : List ImportE) : List ImportE :=
  (imports.map fun i => { i with names := i.names.filter keep }).filter fun i => !i.names.isEmpty

def keepName (m : PyModuleIR) (n : Name) : Bool := m.used.contains n || n == m.tmName || n == m.svName

def prunedImports (m : PyModuleIR) : List ImportE := pruneWith (keepName m) m.imports

/-- the module as `ast_to_str` writes it: same statements, unused imports removed -/
def written (m : PyModuleIR) : PyModuleIR := { m with imports := prunedImports m }

/-! ### Constant positions of the emitted module (every `generate_constant(…)` that ends up in it) -/

def ArgE.consts (a : ArgE) : List CExpr := [a.default, a.description, a.deprecation]

def FieldE.consts (f : FieldE) : List CExpr :=
  f.args.flatMap (fun p => p.2.consts) ++ [f.description, f.deprecation]

def EnumValE.consts (v : EnumValE) : List CExpr := [v.value, v.description, v.deprecation]

def TypeE.consts : TypeE → List CExpr
  | .scalar _ n d u => [n, d, u]
  | .composite _ n d _ fs =>
      n :: d :: (match fs with | .emptyConst => [] | .thunk items => items.flatMap fun p => p.2.consts)
  | .union _ n d _ => [n, d]
  | .enum _ n d vs => n :: d :: vs.flatMap fun p => p.2.consts
  | .input _ n d fs =>
      n :: d :: (match fs with | .emptyConst => [] | .thunk items => items.flatMap fun p => p.2.consts)

def DirectiveE.consts (d : DirectiveE) : List CExpr :=
  d.name :: d.description :: d.repeatable ::
    (match d.args with | none => [] | some as => as.flatMap fun p => p.2.consts)

/-- every `CExpr` of the module: names, descriptions, `specified_by_url`s, deprecation reasons,
    default values, enum values, `is_repeatable` flags, the schema description
    (dict keys — type, field, argument, enum value names — are plain strings in the IR) -/
def PyModuleIR.consts (m : PyModuleIR) : List CExpr :=
  m.typeMap.flatMap (fun p => p.2.consts) ++ m.schema.directives.flatMap (·.consts) ++ [m.schema.description]

/-! ### Target dispatch (settings.py + main.graphql_schema) -/

/-- components of a POSIX path the way `pathlib` parses it: empty and `.` components vanish -/
def splitSlash (cs : List Char) : List (List Char) :=
  let rec go : List Char → List Char → List (List Char) → List (List Char)
    | [], cur, acc => (cur.reverse :: acc).reverse
    | c :: rest, cur, acc => if c = '/' then go rest [] (cur.reverse :: acc) else go rest (c :: cur) acc
  (go cs [] []).filter fun comp => comp ≠ [] ∧ comp ≠ ['.']

/-- `PurePath.name`: last component, `''` when there is none -/
def pathName (p : String) : List Char := (splitSlash p.toList).getLast?.getD []

/-- `PurePath.suffix` (CPython 3.12):
      i = name.rfind('.');  return name[i:] if 0 < i < len(name) - 1 else ''  -/
def suffixOfName (name : List Char) : List Char :=
  let ext := name.reverse.takeWhile (· ≠ '.')       -- characters after the last dot, reversed
  if ext.length = name.length then []                -- no dot at all
  else
    let i := name.length - ext.length - 1            -- index of the last dot
    if 0 < i ∧ i < name.length - 1 then '.' :: ext.reverse else []

def suffixOf (p : String) : List Char := suffixOfName (pathName p)

/-- `GraphQLSchemaSettings.target_file_format`: `Path(p).suffix[1:].lower()`
    (ASCII lowering; no non-ASCII character lowers into "py"/"graphql"/"gql") -/
def targetFileFormat (p : String) : String := String.ofList ((suffixOf p).drop 1 |>.map Char.toLower)

inductive Target where
  | py | sdl
  deriving Repr, DecidableEq

inductive TargetErr where
  | missingFileType      -- "Provided file name … is missing a file type."
  | invalidFileType      -- "Provided file name … has an invalid type …"
  deriving Repr, DecidableEq

/-- `assert_string_is_valid_schema_target_filename` -/
def assertValidTarget (p : String) : Except TargetErr Unit :=
  if suffixOf p = [] then .error .missingFileType
  else if targetFileFormat p ∈ ["py", "graphql", "gql"] then .ok ()
  else .error .invalidFileType

/-- `GraphQLSchemaSettings.__post_init__` (target part) then `main.graphql_schema`:
    `if settings.target_file_format == "py": <python file> else: <graphql file>` -/
def dispatch (p : String) : Except TargetErr Target :=
  match assertValidTarget p with
  | .error e => .error e
  | .ok () => if targetFileFormat p = "py" then .ok .py else .ok .sdl

end Ariadne.SchemaGen
