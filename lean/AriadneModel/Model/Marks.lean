/-
  The document as it is *sent*: `_add_typename_field_to_selections` prepends a `__typename` field
  node to a field's selection set IN PLACE; `marks` (the `sid`s collected by Model/ResultTypes.lean)
  say where.  `applyMarks` replays that mutation on the immutable document.  Core Lean only.
-/
import AriadneModel.Model.ResultTypes

namespace Ariadne.Marks
open Ariadne Ariadne.Gql Ariadne.ResultTypes

def typenameSel : Selection := .field none typenameField [] 0 []

mutual
  def applySel (marks : List Nat) : Selection → Selection
    | .field alias name dirs sid sub =>
      let sub' := applySels marks sub
      .field alias name dirs sid (if marks.contains sid && !sub.isEmpty then typenameSel :: sub' else sub')
    | .spread n dirs => .spread n dirs
    | .inline on dirs sid sub => .inline on dirs sid (applySels marks sub)
  def applySels (marks : List Nat) : List Selection → List Selection
    | [] => []
    | s :: rest => applySel marks s :: applySels marks rest
end

def applyOp (marks : List Nat) (o : Operation) : Operation := { o with sel := applySels marks o.sel }
def applyFrag (marks : List Nat) (f : Fragment) : Fragment := { f with sel := applySels marks f.sel }

end Ariadne.Marks
