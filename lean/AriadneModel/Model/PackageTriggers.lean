/-
  Model/PackageTriggers.lean — decidable trigger predicates of the findings of C04
  (findings.d/C04.json); `Supported_04 cfg inp := triggers cfg inp = []`.

  C04 is the composition property, so most of its findings are findings of a component seen from the
  package: those triggers ARE the component's predicates (Model/Triggers01.lean for result types,
  Model/Fragments.lean for the fragments module, Model/ArgFindings.lean for method signatures,
  Model/InputField.lean for input defaults, Model/Embed.lean for the operation text), evaluated on the
  package input.  The triggers that are about the emitted package itself (an identifier that is not
  Python, a name bound twice in a module, an Enum-reserved member, a missing `model_rebuild()`, a file
  written twice) are evaluated on the MODEL's package IR — the model is exact outside the trigger regions
  (correspondence), so the region is a function of the input.

  The harness asks the compiled driver (op `triggers`) for exactly these predicates when it classifies
  a failure of the real code.  Core Lean only.
-/
import AriadneModel.Model.Package
import AriadneModel.Model.Triggers01
import AriadneModel.Model.ArgFindings
import AriadneModel.Model.Embed

namespace Ariadne.PackageTriggers
open Ariadne Ariadne.Gql Ariadne.Util Ariadne.Package

def t01Input (cfg : Config) (inp : Input) : Triggers01.Input :=
  { env := rtEnv cfg inp, ops := inp.ops.map (·.op) }

/-- the model's own package (every module accepted by the formatter, sets enumerated as listed) -/
def modelRun (cfg : Config) (inp : Input) : Run := runPackage (fun _ => true) id cfg inp

def modelIR (cfg : Config) (inp : Input) : Option PackageIR :=
  match (modelRun cfg inp).outcome with
  | .ok p => some p
  | .error _ => none

/-- modules the generator writes itself (not copies, not the custom-operation files) -/
def generated (m : ModuleIR) : Bool := m.kind != .copied && m.kind != .custom

def identOK (s : String) : Bool := InputField.pyIdentOk s

/-- the shape of a Python identifier (`str.isidentifier` on the ASCII names GraphQL allows): not empty, word
    characters only, no leading digit -/
def identShape (s : String) : Bool :=
  match s.toList with
  | [] => false
  | c :: cs => (Names.cls c != .D && Names.isWordChar c) && cs.all Names.isWordChar

def isKeyword (s : String) : Bool := Tables.kwlist.contains s

theorem identOK_eq (s : String) : identOK s = (identShape s && !isKeyword s) := by
  unfold identOK InputField.pyIdentOk identShape isKeyword
  cases s.toList <;> simp

/-- every identifier the module introduces -/
def moduleIdents (m : ModuleIR) : List String :=
  (if m.kind == .init then [] else [stem m.file])
  ++ m.classes.flatMap (fun c => c.name :: c.fields) ++ m.methods.flatMap (fun f => f.name :: f.params) ++ m.funcs

/-- C18-F4 seen from the package (F6): an emitted identifier is not a Python identifier (`1`, the empty name) -/
def trigIdentNotPython (p : PackageIR) : Bool :=
  p.modules.any fun m => generated m && (moduleIdents m).any (!identShape ·)

/-- C18-F5 / F9 seen from the package (F7): an emitted identifier is a keyword (`class`, `None`, `True`) -/
def trigIdentKeyword (p : PackageIR) : Bool :=
  p.modules.any fun m => generated m && (moduleIdents m).any isKeyword

/-- C03-F2..F4 (F10): a method with two parameters of the same name (`self`, `kwargs`, merged variables) -/
def trigDuplicateParam (p : PackageIR) : Bool :=
  p.modules.any fun m => m.methods.any fun f => hasDup f.params

/-- `enum._is_sunder` -/
def isSunder (s : String) : Bool :=
  let cs := s.toList
  cs.length > 2 && cs.head? == some '_' && cs.getLast? == some '_'
    && (cs.drop 1).head? != some '_' && (cs.reverse.drop 1).head? != some '_'

/-- F4: an enum value the `Enum` machinery reserves (`mro`, `_sunder_` names) -/
def trigEnumMemberReserved (p : PackageIR) : Bool :=
  p.modules.any fun m => m.kind == .enums && m.classes.any fun c => c.fields.any fun f => f == "mro" || isSunder f

/-- C18-F3 on enum values: `class` and `class_` are one member -/
def trigEnumMemberDuplicate (p : PackageIR) : Bool :=
  p.modules.any fun m => m.kind == .enums && m.classes.any fun c => hasDup c.fields

/-- the (module, name) pairs a module binds by import, each once -/
def importBindings (m : ModuleIR) : List (Nat × String × String) :=
  (m.effectiveImports.flatMap fun i => i.names.map fun n => (i.level, i.module, n)).eraseDups

/-- a name bound twice at module level: by two different imports, or by an import and a class / function
    definition (an enum called `List`, an operation called `Optional`, an input type and an operation both
    called `Q` …) -/
def trigNameBoundTwice (p : PackageIR) : Bool :=
  p.modules.any fun m => generated m &&
    hasDup ((importBindings m).map (·.2.2) ++ m.funcs ++ m.classes.map (·.name))

/-- C18-F8 seen from the package (F21): with snake-casing off a response key `typename__` (or `_typename__`) gets the
    Python name of the automatic `__typename` field: the class body annotates `typename__` twice, the later annotation
    (not a `Literal`) wins and pydantic refuses the discriminated union -/
def trigTypenameFieldClash (p : PackageIR) : Bool :=
  p.modules.any fun m => (m.kind == .result || m.kind == .fragments) &&
    m.classes.any fun c => (c.fields.filter (· == ResultTypes.typenameAlias)).length > 1

/-- F15: a class with quoted forward references that no `model_rebuild()` call completes -/
def trigMissingRebuild (p : PackageIR) : Bool :=
  p.modules.any fun m => m.classes.any fun c => !c.fwd.isEmpty && !m.rebuilds.contains c.name

/-- F25: a quoted forward reference names a class the module does not define.  At an interface position the classes generated
    for the types of inline fragments / fragment spreads all evaluate the SAME selection set; when such a type is not a
    sub type of the position's interface (a fragment on another interface the position's type overlaps with brings an
    inline fragment on one of ITS implementers), the position's own leaf fields are looked up in that unrelated type,
    where the same name may be a composite field: the annotation quotes a class for it that is never generated (the
    field has no sub-selection).  `model_rebuild()` then raises `PydanticUndefinedAnnotation` at import. -/
def trigForwardRefDangling (p : PackageIR) : Bool :=
  p.modules.any fun m => (m.kind == .result || m.kind == .fragments) && !(m.classes.all fun c => c.fwd.all m.defines.contains)

/-- F26 (C18's reserved-name defect seen from the package): a field of a generated pydantic model is called like an attribute
    of `BaseModel` (`PYDANTIC_RESERVED_FIELD_NAMES`).  `process_name` appends `_` to such a name BEFORE it strips leading
    underscores, so `_copy` with `convert_to_snake_case = false` becomes the field `copy`: pydantic warns at import
    (field name `copy` shadows an attribute in parent `BaseModel`) and `model.copy` is the field's value. -/
def trigFieldShadowsBaseModel (p : PackageIR) : Bool :=
  p.modules.any fun m => (m.kind == .result || m.kind == .fragments || m.kind == .inputs) &&
    m.classes.any fun c => c.fields.any Tables.pydanticReserved.contains

/-- F13: a file is written twice (`_validate_unique_file_names` does not know the four custom-operation files nor
    `__init__.py`): the reported list names it twice, the first content is lost -/
def trigFileWrittenTwice (p : PackageIR) : Bool := hasDup p.writeLog

/-- the input types / enums the custom-operation modules import (arguments of the fields of every
    object and interface type) -/
def customNeeds (inp : Input) (k : Kind) : List String :=
  (inp.schema.types.filter fun t => t.kind == .object || t.kind == .interface).flatMap fun t =>
    t.fields.flatMap fun f => (f.args.map (·.type.base)).filter fun n => inp.schema.kindOf? n == some k

/-- C09-F1: custom operations import a type that pruning removed -/
def trigCustomOpsPruned (cfg : Config) (inp : Input) (p : PackageIR) : Bool :=
  cfg.customOps &&
    ((customNeeds inp .input).any (fun n => !(p.modules.any fun m => m.kind == .inputs && m.classes.any (·.name == n)))
     || (customNeeds inp .enum).any (fun n => !(p.modules.any fun m => m.kind == .enums && m.classes.any (·.name == n))))

/-- F16: custom_arguments.py imports `from .input_types import …` whatever `input_types_module_name` says -/
def trigCustomOpsInputsModule (cfg : Config) (inp : Input) : Bool :=
  cfg.customOps && cfg.inputsModule != "input_types" && !(customNeeds inp .input).isEmpty

/-- custom_fields.py / custom_queries.py / custom_mutations.py turn every field and argument name of the
    object and interface types into a method / parameter name of their own (Model/CustomGen.lean, C14): a name
    that is (or snake-cases to) a keyword or a non-identifier is emitted as it is (`def class(cls)`, `def 1(cls)`) -/
def trigCustomOpsName (cfg : Config) (inp : Input) : Bool :=
  cfg.customOps &&
    ((inp.schema.types.filter fun t => t.kind == .object || t.kind == .interface).flatMap fun t =>
      t.fields.flatMap fun f => f.name :: f.args.map (·.name)).any fun n =>
        !identOK n || !identOK (String.ofList (Names.snake n.toList))

def inputFieldsOf (inp : Input) : List InputGen.InputField :=
  inp.defs.flatMap fun | .input _ fs => fs | _ => []

/-- C06-F3 (F5): keyword-named enum value in an input-field default -/
def trigKeywordEnumDefault (inp : Input) : Bool := (inputFieldsOf inp).any InputField.trigKeywordEnumDefault

/-- C01-F5 (F12): `_resolve_selection_set` keeps the root type of an inline fragment on an interface the OBJECT
    implements and then looks the fragment's fields up in the wrong type: ParsingError "Field … not found in type …"
    for a valid operation (raised by `_get_field_from_schema`, in an operation or in a fragment definition) -/
def fieldNotFoundMsg (m : String) : Bool := m.startsWith "Field " && m.endsWith "."

def trigFieldLookupWrongType (r : Triggers01.Run) : Bool :=
  (r.ops ++ r.frags.map (·.2)).any fun x => match x with
    | .error (.parsing m) => fieldNotFoundMsg m
    | _ => false

/-- C02-F1 / F4 (F8): the printed operation contains `'` / `\"\"\"` -/
def trigText (t : Embed.Trig) (inp : Input) : Bool :=
  inp.ops.any fun o => match Embed.trigger o.text.toList, t with
    | some .quote, .quote => true
    | some .blockString, .blockString => true
    | _, _ => false

/-- F23: two operations whose names give the same module name (`fooBar` / `foo_bar`: `process_name` maps both to
    `foo_bar`): `_result_types_files` is a dict keyed by file name, the module of the earlier operation is silently
    replaced by the later one (`_validate_unique_file_names` looks at the dict's keys, which cannot repeat), while
    `__init__` (and the client module) still import the earlier operation's classes from it.  The trigger holds when a
    name `add_operation` registered for `__init__` is not a class of the module that survives under that file name. -/
def trigOperationModuleOverwritten (cfg : Config) (inp : Input) : Bool :=
  match addOperations cfg inp fuel {} inp.ops with
  | .ok st => st.init.any fun i =>
      match st.files.find? (·.1 == pyFile i.module) with
      | some fm => !(i.names.all (fm.2.classes.map (·.name)).contains)
      | none => true
  | .error _ => false

def Lit.isEnumLit : InputGen.Lit → Bool
  | .enum _ => true
  | _ => false

/-- `parse_input_field_type` answers the empty `field_type` (built-in scalar, or a scalar that is not configured) -/
def emptyFieldType : InputField.Kind → Bool
  | .builtin _ => true
  | .any => true
  | _ => false

/-- F24 (C06-F2 seen from the package): `parse_input_const_value_node` writes an enum literal as `<field_type>.<VALUE>`
    whatever the field's type is.  For a field that is not enum-typed this is `.<VALUE>` when `field_type` is empty (a
    scalar: not Python, black refuses the module), and at the top of the default (`x: Code = FOO`, outside every
    `lambda:`) a name that is evaluated when the class statement runs: the GraphQL name of a custom scalar (unbound) or
    an input class (defined later, or without such an attribute). -/
def trigEnumDefaultNotEnum (cfg : Config) (inp : Input) : Bool :=
  (inputFieldsOf inp).any fun f =>
    match f.default with
    | none => false
    | some lit =>
      let k := InputField.kindOf (inputCfg cfg) inp.defs f.type.base
      k != .enum && (Lit.isEnumLit lit || (InputField.Lit.hasEnum lit && emptyFieldType k))

/-- evaluate a predicate on the model's package IR (false when the model's run does not end in a package) -/
def onIR (cfg : Config) (inp : Input) (f : PackageIR → Bool) : Bool :=
  match modelIR cfg inp with
  | some p => f p
  | none => false

/-- every finding trigger of C04 with its value on this input -/
def triggerTable (cfg : Config) (inp : Input) : List (String × Bool) :=
  let t01 := t01Input cfg inp
  let r := Triggers01.run t01
  let ops := inp.ops.map (·.op)
  let env := rtEnv cfg inp
  [("inlineNoType", Triggers01.trigInlineNoType t01),
   ("typenameAlias", Triggers01.trigTypenameAlias t01),
   ("dupCompositeKey", Triggers01.trigDupCompositeKey t01),
   ("fieldLookupWrongType", trigFieldLookupWrongType r),
   ("unpackedAndInherited", Triggers01.trigMixinAndUnpacked r || Fragments.trigUnpackedAndInherited id env fuel ops),
   ("mroConflict", Fragments.trigMroConflict id env fuel ops),
   ("identNotPython", onIR cfg inp trigIdentNotPython),
   ("identKeyword", onIR cfg inp trigIdentKeyword),
   ("duplicateParam", onIR cfg inp trigDuplicateParam),
   ("enumMemberReserved", onIR cfg inp trigEnumMemberReserved),
   ("enumMemberDuplicate", onIR cfg inp trigEnumMemberDuplicate),
   ("nameBoundTwice", onIR cfg inp trigNameBoundTwice),
   ("missingRebuild", onIR cfg inp trigMissingRebuild),
   ("typenameFieldClash", onIR cfg inp trigTypenameFieldClash),
   ("fileWrittenTwice", onIR cfg inp trigFileWrittenTwice),
   ("customOpsPruned", onIR cfg inp (trigCustomOpsPruned cfg inp)),
   ("customOpsInputsModule", trigCustomOpsInputsModule cfg inp),
   ("customOpsName", trigCustomOpsName cfg inp),
   ("keywordEnumDefault", trigKeywordEnumDefault inp),
   ("textQuote", trigText .quote inp),
   ("textBlockString", trigText .blockString inp),
   ("pluginExtractOperations", cfg.extractOps.isSome),
   ("operationModuleOverwritten", trigOperationModuleOverwritten cfg inp),
   ("enumDefaultNotEnum", trigEnumDefaultNotEnum cfg inp),
   ("forwardRefDangling", onIR cfg inp trigForwardRefDangling),
   ("fieldShadowsBaseModel", onIR cfg inp trigFieldShadowsBaseModel)]

/-- the names of the triggers that hold (what the driver answers to `op: triggers`) -/
def triggers (cfg : Config) (inp : Input) : List String :=
  (triggerTable cfg inp).filterMap fun nb => if nb.2 then some nb.1 else none

/-- the region where the partial theorems of C04 are claimed -/
def Supported_04 (cfg : Config) (inp : Input) : Prop := triggers cfg inp = []

instance (cfg : Config) (inp : Input) : Decidable (Supported_04 cfg inp) := by unfold Supported_04; infer_instance

end Ariadne.PackageTriggers
