/- Small list utilities shared by the generator models (core Lean only). -/
namespace Ariadne.Util

/-- insertion into a sorted list (Python `sorted` on str compares code points, as `String.<` does) -/
def insertSorted (x : String) : List String → List String
  | [] => [x]
  | y :: ys => if x < y then x :: y :: ys else y :: insertSorted x ys

/-- Python `sorted(xs)` for strings -/
def sortStr (xs : List String) : List String := xs.foldr insertSorted []

/-- order-preserving de-duplication (a Python `set` built from a list, enumerated in first-seen order) -/
def dedup : List String → List String
  | [] => []
  | x :: xs => x :: (dedup xs).filter (· != x)

/-- `set.add` on a first-seen-order list -/
def setAdd (s : List String) (x : String) : List String := if s.contains x then s else s ++ [x]

/-- `set.union` -/
def setUnion (s t : List String) : List String := t.foldl setAdd s

/-- Python `sorted(set(xs))` -/
def sortedSet (xs : List String) : List String := sortStr (dedup xs)

def lookupStr (k : String) : List (String × String) → Option String
  | [] => none
  | (a, b) :: rest => if a == k then some b else lookupStr k rest

end Ariadne.Util
