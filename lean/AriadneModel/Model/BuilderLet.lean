/-
  C14 — builder programs with PYTHON VARIABLES.  Core Lean only.  Extends Model/Builder.lean.

  Model/Builder.lean evaluates tree-shaped expressions: an object returned by a generated classmethod is
  referenced once and discarded after the operation.  A caller is free to keep such an object:

      friends = UserFields.friends(first=2).fields(UserFields.id)            # x = <expr>
      client.query(Query.hello(), Query.user(user_id="1").fields(friends))   # rendered under field 1: $first_1
      client.query(Query.user(user_id="2").fields(friends))                  # rendered AGAIN, under field 0: $first_0

  The object then lives as long as the variable does, is rendered (`to_ast`) once per use, and carries
  `formatted_variables` from one rendering to the next.  Here:

    * `PExpr` = `Expr` + `var x`; an assignment `x = e` evaluates `e` and, when the result is an owned
      object, ALLOCATES it in the store (appended behind the class-level objects; `x ↦ id` in the
      environment).  `var x` evaluates to `.ref id`, so every later use - in the same or in a later
      operation - denotes the same object: `toAst` reads it from the store and writes the re-rendered
      object (new `formatted`) back, `getFormatted` reads what the LAST rendering left there, exactly as
      the Python objects behave.  A mutator applied to a variable (`x.alias("a")`) mutates the store entry.
    * `POp` = the assignments executed before one client call + the call; `runProg` = a whole history.
    * `inlineP`: the expression with every variable replaced by the expression that built it - the
      reference reading ("the document depends only on the expression that built it").

    * `inlineProg`: a whole program written out; `Expr.toP` / `Op.toP`: a tree expression read as a program
      without variables (`Properties/C14.lean: runProg_conservative`).

  `_collect_all_variables` starts with `self.formatted_variables = {}`: `toAst` never READS `Rec.formatted`
  (it overwrites it).  That is what makes re-rendering history-free (`Proofs/C14Owned.lean`:
  `toAst_sim`, `execOp_formatted_irrelevant`; `Proofs/C14Prog.lean`: `runPOp_sim`, `runProgFrom_last`;
  `Properties/C14.lean`: `rerender_formatted_irrelevant`, `history_free_owned`); a variant that merges into the
  old dict is not (seeded change C14-collect-variables-merges-into-stale-dict).
-/
import AriadneModel.Model.Builder

namespace Ariadne.Builder
open Ariadne

inductive PExpr where
  | var (x : String)                                  -- a Python variable assigned earlier
  | attr (cls a : String)
  | call (cls a : String) (kw : List (String × J))
  | alias (e : PExpr) (al : String)
  | fields (e : PExpr) (cs : List PExpr)
  | on (e : PExpr) (ty : String) (cs : List PExpr)

/-- python variable ↦ object id; the latest assignment first -/
abbrev Env := List (String × Nat)

def envFind (x : String) : Env → Option Nat
  | [] => none
  | (y, id) :: rest => if y = x then some id else envFind x rest

mutual
  /-- `evalExpr` plus variables.  (An unbound name would be a NameError; the harness never writes one.) -/
  def evalP (p : Package) (env : Env) : PExpr → Store → Except Err Node × Store
    | .var x, st =>
      match envFind x env with
      | some id => (.ok (.ref id), st)
      | none => (.error (.internal "unbound python variable"), st)
    | .attr cls a, st => evalExpr p (.attr cls a) st
    | .call cls a kw, st => evalExpr p (.call cls a kw) st
    | .alias e al, st =>
      match evalP p env e st with
      | (.error x, st1) => (.error x, st1)
      | (.ok n, st1) =>
        if classHas p (·.hasAlias) (nodeCls st1 n) then
          let (n', st2) := mutate (setAlias al) n st1
          (.ok n', st2)
        else (.error .attribute, st1)
    | .fields e cs, st =>
      match evalP p env e st with
      | (.error x, st1) => (.error x, st1)
      | (.ok n, st1) =>
        if classHas p (·.hasFields) (nodeCls st1 n) then
          match evalPList p env cs st1 with
          | (.error x, st2) => (.error x, st2)
          | (.ok ns, st2) =>
            let (n', st3) := mutate (extendSubs ns) n st2
            (.ok n', st3)
        else (.error .attribute, st1)
    | .on e ty cs, st =>
      match evalP p env e st with
      | (.error x, st1) => (.error x, st1)
      | (.ok n, st1) =>
        if classHas p (·.hasOn) (nodeCls st1 n) then
          match evalPList p env cs st1 with
          | (.error x, st2) => (.error x, st2)
          | (.ok ns, st2) =>
            let (n', st3) := mutate (setFrag ty ns) n st2
            (.ok n', st3)
        else (.error .attribute, st1)
  def evalPList (p : Package) (env : Env) : List PExpr → Store → Except Err (List Node) × Store
    | [], st => (.ok [], st)
    | e :: es, st =>
      match evalP p env e st with
      | (.error x, st1) => (.error x, st1)
      | (.ok n, st1) =>
        match evalPList p env es st1 with
        | (.error x, st2) => (.error x, st2)
        | (.ok ns, st2) => (.ok (n :: ns), st2)
end

/-- `x = e`: an owned result becomes a new store object; a class-level object / another variable's
    object is only given one more name -/
def bindVar (p : Package) (x : String) (e : PExpr) (env : Env) (st : Store) : Option Err × Env × Store :=
  match evalP p env e st with
  | (.error err, st1) => (some err, env, st1)
  | (.ok (.ref id), st1) => (none, (x, id) :: env, st1)
  | (.ok (.obj r subs frags), st1) => (none, (x, st1.length) :: env, st1 ++ [.obj r subs frags])

/-- the assignments, in order; the first exception ends them (what was assigned before stays assigned) -/
def runLets (p : Package) : List (String × PExpr) → Env → Store → Option Err × Env × Store
  | [], env, st => (none, env, st)
  | (x, e) :: rest, env, st =>
    match bindVar p x e env st with
    | (some err, env1, st1) => (some err, env1, st1)
    | (none, env1, st1) => runLets p rest env1 st1

/-- some assignments, then one call `client.query(*fields, operation_name=name)` / `client.mutation(...)` -/
structure POp where
  lets : List (String × PExpr) := []
  opType : String
  name : String
  fields : List PExpr

def runPOp (p : Package) (op : POp) (env : Env) (st : Store) : Except Err Doc × Env × Store :=
  match runLets p op.lets env st with
  | (some err, env1, st1) => (.error err, env1, st1)
  | (none, env1, st1) =>
    match evalPList p env1 op.fields st1 with
    | (.error x, st2) => (.error x, env1, st2)
    | (.ok nodes, st2) =>
      match execOp op.opType op.name st2 nodes with
      | .error x => (.error x, env1, st2)
      | .ok (d, st3) => (.ok d, env1, st3)

/-- only the assignments of an operation: nothing is rendered, nothing is sent -/
def runLetsOnly (p : Package) (op : POp) (env : Env) (st : Store) : Env × Store :=
  (runLets p op.lets env st).2

def runProgFrom (p : Package) : List POp → Env → Store → List (Except Err Doc)
  | [], _, _ => []
  | op :: ops, env, st =>
    match runPOp p op env st with
    | (r, env1, st1) => r :: runProgFrom p ops env1 st1

def runProg (p : Package) (ops : List POp) : List (Except Err Doc) := runProgFrom p ops [] p.initStore

/-- the process after the ASSIGNMENTS of a history only -/
def letsOnlyFrom (p : Package) : List POp → Env → Store → Env × Store
  | [], env, st => (env, st)
  | op :: ops, env, st =>
    match runLetsOnly p op env st with
    | (env1, st1) => letsOnlyFrom p ops env1 st1

/-! ### the reference reading: variables replaced by the expressions that built them -/

def defFind (x : String) : List (String × Expr) → Option Expr
  | [] => none
  | (y, e) :: rest => if y = x then some e else defFind x rest

mutual
  def inlineP (defs : List (String × Expr)) : PExpr → Option Expr
    | .var x => defFind x defs
    | .attr c a => some (.attr c a)
    | .call c a kw => some (.call c a kw)
    | .alias e al =>
      match inlineP defs e with
      | some e' => some (.alias e' al)
      | none => none
    | .fields e cs =>
      match inlineP defs e, inlinePList defs cs with
      | some e', some cs' => some (.fields e' cs')
      | _, _ => none
    | .on e ty cs =>
      match inlineP defs e, inlinePList defs cs with
      | some e', some cs' => some (.on e' ty cs')
      | _, _ => none
  def inlinePList (defs : List (String × Expr)) : List PExpr → Option (List Expr)
    | [] => some []
    | e :: es =>
      match inlineP defs e, inlinePList defs es with
      | some e', some es' => some (e' :: es')
      | _, _ => none
end

def inlineLets : List (String × PExpr) → List (String × Expr) → Option (List (String × Expr))
  | [], defs => some defs
  | (x, e) :: rest, defs =>
    match inlineP defs e with
    | some e' => inlineLets rest ((x, e') :: defs)
    | none => none

/-- the operation written out with fresh objects (definitions known so far ↦ operation, definitions after it) -/
def POp.inline (op : POp) (defs : List (String × Expr)) : Option (Op × List (String × Expr)) :=
  match inlineLets op.lets defs with
  | none => none
  | some defs1 =>
    match inlinePList defs1 op.fields with
    | none => none
    | some fs => some ({ opType := op.opType, name := op.name, fields := fs }, defs1)

/-- a whole program written out: every operation with the objects of its variables rebuilt from fresh objects -/
def inlineProgFrom : List POp → List (String × Expr) → Option (List Op)
  | [], _ => some []
  | op :: ops, defs =>
    match op.inline defs with
    | none => none
    | some (o, defs1) =>
      match inlineProgFrom ops defs1 with
      | none => none
      | some os => some (o :: os)

def inlineProg (ops : List POp) : Option (List Op) := inlineProgFrom ops []

/-! ### tree expressions are programs without variables -/

mutual
  def Expr.toP : Expr → PExpr
    | .attr c a => .attr c a
    | .call c a kw => .call c a kw
    | .alias e al => .alias (Expr.toP e) al
    | .fields e cs => .fields (Expr.toP e) (Expr.toPList cs)
    | .on e ty cs => .on (Expr.toP e) ty (Expr.toPList cs)
  def Expr.toPList : List Expr → List PExpr
    | [] => []
    | e :: es => Expr.toP e :: Expr.toPList es
end

def Op.toP (op : Op) : POp := { lets := [], opType := op.opType, name := op.name, fields := Expr.toPList op.fields }

/-! ### syntactic predicates -/

def pexprBase : PExpr → PExpr
  | .alias e _ => pexprBase e
  | .fields e _ => pexprBase e
  | .on e _ _ => pexprBase e
  | e => e

/-- the expression starts from an object that outlives it: a class-level object or a variable -/
def pexprIsRef : PExpr → Bool
  | .attr _ _ => true
  | .var _ => true
  | _ => false

mutual
  /-- somewhere `alias` / `fields` / `on` is applied to a class-level object or to a variable -/
  def pMutates : PExpr → Bool
    | .var _ => false
    | .attr _ _ => false
    | .call _ _ _ => false
    | .alias e _ => pexprIsRef (pexprBase e) || pMutates e
    | .fields e cs => pexprIsRef (pexprBase e) || pMutates e || pMutatesList cs
    | .on e _ cs => pexprIsRef (pexprBase e) || pMutates e || pMutatesList cs
  def pMutatesList : List PExpr → Bool
    | [] => false
    | e :: es => pMutates e || pMutatesList es
end

def letsMutate : List (String × PExpr) → Bool
  | [] => false
  | (_, e) :: rest => pMutates e || letsMutate rest

def POp.mutates (op : POp) : Bool := letsMutate op.lets || pMutatesList op.fields

end Ariadne.Builder
