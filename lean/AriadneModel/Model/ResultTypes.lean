/-
  Model of ariadne-codegen's result-type generation:
    client_generators/result_types.py  ResultTypesGenerator.__init__, _parse_type_definition,
        _resolve_selection_set, _get_inline_fragment_root_type, _unpack_fragment,
        _add_typename_field_to_selections, _process_field_name, _get_field_from_schema,
        _process_field_implementation, _get_extra_bases_from_mixin_directives,
        _parse_mixin_arguments, _parse_field_selection_set_types, _get_typename_values,
        _get_all_related_fragments, _get_fragments_names, generate (rebuild calls)
    client_generators/result_fields.py parse_operation_field, parse_operation_field_type and its
        six type cases, get_inline_fragments_from_selection_set, get_fragments_on_subtype,
        annotate_nested_unions, parse_directives, generate_typename_annotation
    client_generators/scalars.py       generate_result_scalar_annotation
    codegen.py                         model_has_forward_refs

  The model reproduces the code as it is, defects included (DESIGN.md §1.2): dropped spreads,
  inline fragments on foreign interfaces, missing type conditions (AttributeError), aliased
  `__typename`, … .  Python exceptions are explicit `GenErr` values.

  Recursion through fragment definitions takes a fuel argument; `none`-like exhaustion is the
  explicit error `.fuel` (never produced for documents without spread cycles when fuel ≥ the
  document size; the drivers pass a large constant).

  Core Lean only.
-/
import AriadneModel.Model.Gql
import AriadneModel.Model.Util
import AriadneModel.Model.Names
import AriadneModel.Generated.Tables

namespace Ariadne.ResultTypes
open Ariadne Ariadne.Gql Ariadne.Util

/-- Annotation language of the emitted result models (what `ast` nodes the generator builds). -/
inductive Ann where
  | name (n : String)                 -- `str`, `int`, `Any`, an enum class, a custom scalar's type
  | cls (n : String)                  -- quoted forward reference `"ClassName"`
  | optional (a : Ann)                -- `Optional[a]`
  | list (a : Ann)                    -- `List[a]`
  | union (as : List Ann)             -- `Union[a, b, …]`
  | disc (a : Ann)                    -- `Annotated[a, Field(discriminator="typename__")]`
  | literal (vs : List String)        -- `Literal["A", "B"]`
  | before (type parse : String)      -- `Annotated[type, BeforeValidator(parse)]`
  deriving Repr, Inhabited

structure FieldDecl where
  py : String                 -- Python attribute name
  ann : Ann
  alias : Option String       -- Field(alias=…)
  discriminator : Bool        -- Field(discriminator="typename__") on the field itself
  defaultNone : Bool          -- `= None` / Field(default=None)
  deriving Repr

structure ClassDecl where
  name : String
  bases : List String
  fields : List FieldDecl
  deriving Repr

inductive GenErr where
  | notSupported (msg : String)
  | parsing (msg : String)
  | internal (exc : String)       -- an undocumented Python exception escaping (KeyError, AttributeError …)
  | fuel
  deriving Repr

/-- custom scalar configuration: GraphQL name ↦ (python type name, parse function name) -/
structure ScalarCfg where
  name : String
  typeName : String
  parseName : Option String
  deriving Repr

structure Env where
  schema : Schema
  frags : List Fragment
  scalars : List ScalarCfg := []
  snake : Bool := true

/-- `FieldContext` -/
structure Ctx where
  enums : List String := []
  customScalars : List String := []
  related : List (String × String) := []     -- (class_name, type_name)
  abstract : Bool := false
  deriving Repr

/-- generator-wide mutable state of one `ResultTypesGenerator` -/
structure St where
  publicNames : List String := []
  usedEnums : List String := []
  usedScalars : List String := []
  mixins : List String := []        -- _fragments_used_as_mixins (a set; first-seen order)
  unpacked : List String := []      -- _unpacked_fragments
  mixinImports : List (String × String) := []   -- (from, import) of every @mixin processed
  marks : List Nat := []            -- sids of selection sets that got `__typename` prepended
  dropped : List (String × String) := []   -- (type condition, root type) of spreads / inline fragments that `_resolve_selection_set` ignored
  deriving Repr

abbrev M := StateT St (Except GenErr)

def err {α} (e : GenErr) : M α := throw e

def typenameField : String := Tables.typenameFieldName
def typenameAlias : String := Tables.typenameAlias

def optionalIf (nullable : Bool) (a : Ann) : Ann := if nullable then .optional a else a

/-! ### result_fields.py -/

/-- `get_inline_fragments_from_selection_set`: type conditions of the inline fragments at the
    top level of a selection set, looking through spreads (recursively into the spread fragments'
    top level). `none` in the result = an inline fragment without type condition. -/
def inlineFragmentConds (frags : List Fragment) : Nat → List Selection → Except GenErr (List (Option String))
  | 0, _ => .error .fuel
  | fuel + 1, sels =>
    sels.foldlM (init := []) fun acc s =>
      match s with
      | .inline on _ _ _ => pure (acc ++ [on])
      | .spread n _ =>
        match findFragment? frags n with
        | none => .error (.internal "KeyError")
        | some f => do
          let inner ← inlineFragmentConds frags fuel f.sel
          pure (acc ++ inner)
      | .field .. => pure acc

/-- `get_fragments_on_subtype`: type conditions of the spread fragments (top level only) whose
    type is a sub type of the abstract `rootType`. -/
def fragmentsOnSubtype (env : Env) (sels : List Selection) (rootType : String) : Except GenErr (List String) :=
  if sels.isEmpty || !env.schema.isAbstract rootType then pure []
  else
    sels.foldlM (init := []) fun acc s =>
      match s with
      | .spread n _ =>
        match findFragment? env.frags n with
        | none => .error (.internal "KeyError")
        | some f =>
          if (env.schema.get? f.on).isSome && env.schema.isSubType rootType f.on then pure (acc ++ [f.on]) else pure acc
      | _ => pure acc

def scalarCfg? (env : Env) (n : String) : Option ScalarCfg := env.scalars.find? (·.name == n)

/-- `parse_operation_field_type` (all six cases). `fieldSel` = the field node's selection set. -/
def parseType (env : Env) (fuel : Nat) (fieldSel : List Selection) :
    TypeRef → (nullable : Bool) → (className : String) → (addTypeName : Bool) → Ctx → Except GenErr (Ann × Ctx)
  | .nonNull t, _, cn, _, ctx => parseType env fuel fieldSel t false cn false ctx
  | .list t, nullable, cn, _, ctx => do
    let (inner, ctx) ← parseType env fuel fieldSel t true cn false ctx
    pure (optionalIf nullable (.list inner), ctx)
  | .named n, nullable, cn, addTypeName, ctx =>
    match env.schema.kindOf? n with
    | some .interface => do
      let inl ← inlineFragmentConds env.frags fuel fieldSel
      let subs ← fragmentsOnSubtype env fieldSel n
      let ctx := { ctx with abstract := true }
      if !inl.isEmpty || !subs.isEmpty then
        -- `f.type_condition.name.value` on an inline fragment without type condition
        if inl.any (·.isNone) then .error (.internal "AttributeError")
        else
          let conds := sortedSet (inl.filterMap id ++ subs)
          let names := (cn ++ n) :: conds.map (cn ++ ·)
          let related := ctx.related ++ ((cn ++ n, n) :: conds.map fun c => (cn ++ c, c))
          pure (optionalIf nullable (.union (names.map .cls)), { ctx with related := related })
      else
        let name := if addTypeName then cn ++ n else cn
        pure (optionalIf nullable (.cls name), { ctx with related := ctx.related ++ [(name, n)] })
    | some .object =>
      let name := if addTypeName then cn ++ n else cn
      pure (optionalIf nullable (.cls name), { ctx with related := ctx.related ++ [(name, n)] })
    | some .enum => pure (optionalIf nullable (.name n), { ctx with enums := ctx.enums ++ [n] })
    | some .union =>
      -- every member is parsed with nullable=False, add_type_name=True; members are object types
      let members := (env.schema.get? n).map (·.members) |>.getD []
      let ctx := { ctx with abstract := true }
      let related := ctx.related ++ members.map fun m => (cn ++ m, m)
      pure (optionalIf nullable (.union (members.map fun m => .cls (cn ++ m))), { ctx with related := related })
    | some .input => .error (.parsing "Invalid field type.")
    | _ =>
      -- scalars (built-in scalars need not be listed among the schema's types)
      match lookupStr n Tables.simpleTypeMap with
      | some py => pure (optionalIf nullable (.name py), ctx)
      | none =>
        match scalarCfg? env n with
        | some sc =>
          let a : Ann := match sc.parseName with
            | some p => .before sc.typeName p
            | none => .name sc.typeName
          pure (optionalIf nullable a, { ctx with customScalars := ctx.customScalars ++ [n] })
        | none => pure (optionalIf nullable (.name "Any"), ctx)

/-- `annotate_nested_unions` applied to a *slice*. -/
def annotateNested : Ann → Ann
  | .union as => .disc (.union as)
  | .optional a => .optional (annotateNested a)
  | .list a => .list (annotateNested a)
  | a => a

/-- what `parse_operation_field` does to the whole annotation: only the slice is visited. -/
def annotateTop : Ann → Ann
  | .optional a => .optional (annotateNested a)
  | .list a => .list (annotateNested a)
  | .union as => .union (as.map annotateNested)
  | a => a

def isNullableAnn : Ann → Bool
  | .optional _ => true
  | _ => false

def isUnionAnn : Ann → Bool
  | .union _ => true
  | _ => false

def hasConditionalDirective (dirs : List Directive) : Bool :=
  dirs.any fun d => d.name == Tables.includeDirectiveName || d.name == Tables.skipDirectiveName

/-- `parse_directives` -/
def parseDirectives (a : Ann) (dirs : List Directive) : Ann × Bool :=
  if hasConditionalDirective dirs then ((if isNullableAnn a then a else .optional a), true) else (a, false)

/-- `parse_operation_field` -/
def parseOperationField (env : Env) (fuel : Nat) (name : String) (dirs : List Directive) (sub : List Selection)
    (t : TypeRef) (className : String) (typenameValues : List String) : Except GenErr (Ann × Bool × Ctx) :=
  if name == typenameField && !typenameValues.isEmpty then
    pure (.literal (sortStr typenameValues), false, {})
  else do
    let (a, ctx) ← parseType env fuel sub t true className false {}
    let (a, dflt) := parseDirectives (annotateTop a) dirs
    pure (a, dflt, ctx)

/-! ### result_types.py -/

/-- a resolved `FieldNode` (reference into the document) -/
structure RField where
  alias : Option String
  name : String
  dirs : List Directive
  sid : Nat
  sub : List Selection
  deriving Repr

def RField.key (f : RField) : String := f.alias.getD f.name

/-- `_unpack_fragment(fragment_def, root_type_def)`; `root = none` when called without root type. -/
def unpackFragment (env : Env) (f : Fragment) (root : Option String) : Bool :=
  (env.schema.kindOf? f.on == some .union)
  || (match root with | some r => f.on != r | none => false)
  || f.sel.any fun s => match s with | .inline .. => true | _ => false

/-- `_get_inline_fragment_root_type` -/
def inlineFragmentRootType (env : Env) (cond root : String) : Option String :=
  match env.schema.get? root with
  | none => none
  | some t =>
    if t.kind == .object && t.interfaces.contains cond then some cond
    else if cond == root then some root
    else none

/-- `_resolve_selection_set`: returns the field nodes and the set of fragments used as mixins. -/
def resolve (env : Env) : Nat → List Selection → String → M (List RField × List String)
  | 0, _, _ => err .fuel
  | fuel + 1, sels, root => do
    let mut fields : List RField := []
    let mut fragments : List String := []
    for s in sels do
      match s with
      | .field alias name dirs sid sub => fields := fields ++ [⟨alias, name, dirs, sid, sub⟩]
      | .spread n _ =>
        match findFragment? env.frags n with
        | none => err (.internal "KeyError")
        | some f =>
          if (env.schema.get? root).isNone then err (.internal "KeyError")
          else if (env.schema.get? f.on).isNone then err (.internal "KeyError")
          else if !unpackFragment env f (some root) then
            fragments := setAdd fragments n
          else if f.on == root || (env.schema.isAbstract f.on && env.schema.isSubType f.on root) then
            modify fun st => { st with unpacked := setAdd st.unpacked n }
            let (subFields, subFragments) ← resolve env fuel f.sel root
            fields := fields ++ subFields
            fragments := setUnion fragments subFragments
          else modify fun st => { st with dropped := st.dropped ++ [(f.on, root)] }      -- the spread is silently dropped
      | .inline on _ _ sub =>
        match on with
        | none => err (.internal "AttributeError")   -- selection.type_condition.name on None
        | some cond =>
          match inlineFragmentRootType env cond root with
          | some rt =>
            let (subFields, subFragments) ← resolve env fuel sub rt
            fields := fields ++ subFields
            fragments := setUnion fragments subFragments
          | none => modify fun st => { st with dropped := st.dropped ++ [(cond, root)] }   -- silently dropped
    modify fun st => { st with mixins := setUnion st.mixins fragments }
    pure (fields, fragments)

/-- `_parse_mixin_arguments` + `_get_extra_bases_from_mixin_directives` -/
def mixinBases (dirs : List Directive) : M (List String) := do
  let mut bases : List String := []
  for d in dirs do
    if d.name == Tables.mixinName then
      if d.args.any (·.2.isNone) then err (.parsing "Arguments passed to mixin have to be strings.")
      -- later duplicates of an argument name win (dict assignment)
      let get := fun (k : String) => (d.args.reverse.find? (·.1 == k)).bind (·.2)
      match get Tables.mixinFromName, get Tables.mixinImportName with
      | some fr, some im =>
        modify fun st => { st with mixinImports := st.mixinImports ++ [(fr, im)] }
        bases := bases ++ [im]
      | _, _ => err (.parsing "Required arguments (from, import) not found.")
  pure bases

/-- `_get_typename_values` -/
def typenameValues (env : Env) (related : List (String × String)) : List (String × List String) :=
  let typeNames := related.map (·.2)
  let base := typeNames.map fun n => (n, [n])
  match typeNames.find? env.schema.isAbstract with
  | none => base
  | some abs =>
    let rest := dedup ((env.schema.possibleTypes abs).filter fun p => !typeNames.contains p)
    -- `result[abstract.name].extend(…)`: dict keyed by type name (a repeated type name shares one list)
    base.map fun (n, vs) => if n == abs then (n, vs ++ rest) else (n, vs)

def pyFieldName (env : Env) (key : String) : String :=
  String.ofList (Names.pyName env.snake .resultField key.toList)

def pascal (s : String) : String := String.ofList (Names.pascal s.toList)

/-- `_get_field_from_schema` -/
def fieldTypeFromSchema (env : Env) (typeName fieldName : String) : Except GenErr TypeRef :=
  match env.schema.fieldOf? typeName fieldName with
  | some fd => pure fd.type
  | none =>
    if fieldName == typenameField then pure (.nonNull (.named "String"))
    else .error (.parsing s!"Field {fieldName} not found in type {typeName}.")

def liftExcept {α} (e : Except GenErr α) : M α := match e with
  | .ok a => pure a
  | .error x => throw x

mutual
  /-- `_parse_type_definition` -/
  def parseTypeDefinition (env : Env) : Nat → (className typeName : String) → (sid : Nat) → (sel : List Selection) →
      (addTypename : Bool) → (extraBases : List String) → (tnValues : List String) → M (List ClassDecl)
    | 0, _, _, _, _, _, _, _ => err .fuel
    | fuel + 1, className, typeName, sid, sel, addTypename, extraBases, tnValues => do
      if (← get).publicNames.contains className then return []
      modify fun st => { st with publicNames := st.publicNames ++ [className] }
      let (resolved00, fragments) ← resolve env (fuel + 1) sel typeName
      -- the selection set may already carry the automatic `__typename` (inserted in place while an
      -- earlier class / operation was generated from the same selection-set object)
      let resolved0 := if (← get).marks.contains sid then (⟨none, typenameField, [], 0, []⟩ : RField) :: resolved00 else resolved00
      let resolved ←
        if addTypename && !(resolved0.any (·.name == typenameField)) then do
          modify fun st => { st with marks := if st.marks.contains sid then st.marks else st.marks ++ [sid] }
          pure (⟨none, typenameField, [], 0, []⟩ :: resolved0)
        else pure resolved0
      let bases := (if fragments.isEmpty then ["BaseModel"] else (sortStr fragments).map pascal) ++ extraBases
      let mut decls : List FieldDecl := []
      let mut extra : List ClassDecl := []
      for f in resolved do
        let key := f.key
        let py := pyFieldName env key
        let t ← liftExcept (fieldTypeFromSchema env typeName f.name)
        let (ann, dflt, ctx) ← liftExcept (parseOperationField env (fuel + 1) f.name f.dirs f.sub t (className ++ pascal py) tnValues)
        let alias := if py != key then some key else none
        decls := decls ++ [{ py := py, ann := ann, alias := alias, discriminator := isUnionAnn ann, defaultNone := dflt }]
        let fieldBases ← mixinBases f.dirs
        let more ← parseFieldSelectionSetTypes env fuel f.sid f.sub ctx fieldBases
        extra := extra ++ more
        modify fun st => { st with usedEnums := st.usedEnums ++ ctx.enums, usedScalars := st.usedScalars ++ ctx.customScalars }
      pure ({ name := className, bases := bases, fields := decls } :: extra)

  /-- `_parse_field_selection_set_types` -/
  def parseFieldSelectionSetTypes (env : Env) : Nat → (sid : Nat) → (sel : List Selection) → Ctx → (extraBases : List String) → M (List ClassDecl)
    | 0, _, _, _, _ => err .fuel
    | fuel + 1, sid, sel, ctx, extraBases => do
      if sel.isEmpty then return []
      let tv := typenameValues env ctx.related
      let mut out : List ClassDecl := []
      for (cn, tn) in ctx.related do
        let vals := (tv.find? (·.1 == tn)).map (·.2) |>.getD []
        let cs ← parseTypeDefinition env fuel cn tn sid sel ctx.abstract extraBases vals
        out := out ++ cs
      pure out
end

/-- `model_has_forward_refs`: some annotation mentions a quoted name outside `Literal[...]`. -/
def annHasForwardRef : Ann → Bool
  | .cls _ => true
  | .optional a => annHasForwardRef a
  | .list a => annHasForwardRef a
  | .union as => as.attach.any fun ⟨a, _⟩ => annHasForwardRef a
  | .disc a => annHasForwardRef a
  | _ => false

def classHasForwardRefs (c : ClassDecl) : Bool := c.fields.any fun f => annHasForwardRef f.ann

/-- what one `ResultTypesGenerator` produces -/
structure ModuleOut where
  classes : List ClassDecl
  rebuild : List String
  st : St
  deriving Repr

/-- the definition being processed: an operation or a fragment definition -/
inductive Definition where
  | op (o : Operation)
  | frag (f : Fragment)

/-- `_get_operation_type_name` -/
def operationTypeName (env : Env) : Definition → Except GenErr String
  | .frag f => pure f.on
  | .op o =>
    let root := match o.kind with
      | .query => env.schema.query
      | .mutation => env.schema.mutation
      | .subscription => env.schema.subscription
    match root with
    | some r => pure r
    | none => .error (.notSupported "Not supported operation type")

/-- `ResultTypesGenerator.__init__` (class generation part) + `generate` (rebuild calls). -/
def generate (env : Env) (fuel : Nat) (d : Definition) (marksIn : List Nat := []) : Except GenErr ModuleOut :=
  let run : M (List ClassDecl) := do
    match d with
    | .op o =>
      match o.name with
      | none => err (.notSupported "Operations without name are not supported.")
      | some n =>
        let tn ← liftExcept (operationTypeName env d)
        let bases ← mixinBases o.dirs
        parseTypeDefinition env fuel (pascal n) tn o.sid o.sel false bases []
    | .frag f =>
      if unpackFragment env f none then pure []
      else do
        let bases ← mixinBases f.dirs
        parseTypeDefinition env fuel (pascal f.name) f.on f.sid f.sel false bases []
  match run.run { marks := marksIn } with
  | .ok (cs, st) => .ok { classes := cs, rebuild := (cs.filter classHasForwardRefs).map (·.name), st := st }
  | .error e => .error e

end Ariadne.ResultTypes
