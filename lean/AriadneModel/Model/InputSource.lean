/-
  C06 for BOTH schema sources.  `Model/InputField.lean` models `_parse_input_definition` for a schema
  built from SDL (`field.ast_node` present).  The property quantifies over every input type of every
  schema however it was obtained; ariadne-codegen has a second builder:

      def get_graphql_schema_from_url(url, headers=None, verify_ssl=True):          # schema.py
          return build_client_schema(introspect_remote_schema(...), assume_valid=True)

  whose schema objects carry NO `ast_node`.  The only place of the input generator that reads it is

      value=parse_input_field_default_value(node=field.ast_node, annotation=annotation, field_type=field_type)

      def parse_input_field_default_value(node, annotation, field_type=""):
          if node and node.default_value:
              return parse_input_const_value_node(node=node.default_value, field_type=field_type)
          if (node and not isinstance(node.type, NonNullTypeNode)) or (<annotation is Optional[...]>):
              return generate_constant(None)
          return None

  modelled by `InputGen.fieldDefault (m : Mode)` (C19's model, reused here).  `genFieldSrc` /
  `classesSrc` are `InputField.genField` / `classes` with the mode as a parameter; for `.sdl` they ARE
  those functions (`Proofs/C06Source.lean: classesSrc_sdl`), and for `.intro d` they are the SDL
  generator applied to what the generator can see of the schema (`viewOf`: default literals erased,
  and — when the introspection query did not ask for them — deprecated input fields dropped):
  `classesSrc_eq_view`.  The coercion side (`Spec/CoerceInput.mkSchema`) keeps the defaults:
  `build_client_schema` restores `default_value` from the introspection result.

  New finding trigger (C06-F8 = C19-F1 seen from an input class): on the introspection path a field
  with an effective default loses it (`trigDefaultLostIntro`).  Core Lean only.
-/
import AriadneModel.Model.InputField
import AriadneModel.Spec.PydInput

namespace Ariadne.InputSource
open Ariadne
open Ariadne.InputGen (TypeRef Lit PyExpr InputField TypeDef Mode)
open Ariadne.InputField

/-! ### the generator with the schema source as a parameter -/

/-- one iteration of the loop of `_parse_input_definition`, `field.ast_node` as the source has it -/
def genFieldSrc (m : Mode) (cfg : Cfg) (kinds : String → Kind) (f : InputField) : Option FieldDecl :=
  match annOf kinds f.type true with
  | none => none
  | some (a, ft) =>
    let py := pyName cfg.snake f.name
    let v := InputGen.fieldDefault m ft f
    some ⟨py, a, if py != f.name then processFieldValue f.name v
                 else match v with | none => .absent | some e => .expr e⟩

def genClassSrc (m : Mode) (cfg : Cfg) (kinds : String → Kind) (name : String) (fs : List InputField) : ClassDecl :=
  ⟨name, (InputGen.visibleFields m fs).map (genFieldSrc m cfg kinds)⟩

def classOfSrc (m : Mode) (cfg : Cfg) (kinds : String → Kind) : TypeDef → Option ClassDecl
  | .input n fs => some (genClassSrc m cfg kinds n fs)
  | _ => none

/-- the class definitions of `input_types.py` for a schema built by `m` -/
def classesSrc (m : Mode) (cfg : Cfg) (defs : List TypeDef) : List ClassDecl :=
  defs.filterMap (classOfSrc m cfg (kindOf cfg defs))

/-! ### what the generator can see of the schema -/

def viewField (m : Mode) (f : InputField) : InputField :=
  match m with
  | .sdl => f
  | .intro _ => { f with default := none }

def viewFields (m : Mode) (fs : List InputField) : List InputField :=
  (InputGen.visibleFields m fs).map (viewField m)

def viewDef (m : Mode) : TypeDef → TypeDef
  | .input n fs => .input n (viewFields m fs)
  | d => d

def viewOf (m : Mode) (defs : List TypeDef) : List TypeDef := defs.map (viewDef m)

/-- the schema object the generator was given, as coercion sees it: `build_client_schema` restores
    every `default_value` from the introspection result, but an input field the endpoint did not
    return (deprecated, not asked for) is not there -/
def visibleDef (m : Mode) : TypeDef → TypeDef
  | .input n fs => .input n (InputGen.visibleFields m fs)
  | d => d

def visibleDefs (m : Mode) (defs : List TypeDef) : List TypeDef := defs.map (visibleDef m)

/-- the imported `input_types` module generated from a schema built by `m` -/
def mkEnvSrc (m : Mode) (cfg : Cfg) (defs : List TypeDef) (acc : String → J → Bool) (lax : PydInput.Lax) : PydInput.Env :=
  PydInput.mkEnv cfg (viewOf m defs) acc lax

/-! ### finding trigger -/

/-- C06-F8 (= C19-F1 seen from an input class): the schema was obtained by introspection and the
    field has a default the SDL path would emit — the class has `= None` (nullable) or nothing (the
    field is REQUIRED although the schema does not require it) -/
def trigDefaultLostIntro (m : Mode) (f : InputField) : Bool :=
  match m with
  | .sdl => false
  | .intro _ => InputGen.effectiveDefault f

/-- the triggers of `InputField.fieldTriggers` are about what is emitted: they are evaluated on what the
    generator sees (`viewField`: no default literal reaches the generator on the introspection path) -/
def fieldTriggersSrc (m : Mode) (cfg : Cfg) (defs : List TypeDef) (f : InputField) : List (String × Bool) :=
  fieldTriggers cfg defs (viewField m f) ++ [("trigDefaultLostIntro", trigDefaultLostIntro m f)]

def fieldSupportedSrc (m : Mode) (cfg : Cfg) (defs : List TypeDef) (f : InputField) : Bool :=
  (fieldTriggersSrc m cfg defs f).all (fun p => !p.2)

/-- `Supported_06` for a schema built by `m` -/
def supportedSrc (m : Mode) (cfg : Cfg) (defs : List TypeDef) : Bool :=
  defs.all fun
    | .input _ fs =>
      let vis := InputGen.visibleFields m fs
      !trigNameDefect cfg.snake vis && vis.all (fieldSupportedSrc m cfg defs)
    | _ => true

end Ariadne.InputSource
