/-
  Model/PackageValid.lean — `Valid`, the hypothesis of C04 on the input, as a decidable Bool (so that the driver
  evaluates it on every generated case: graphql-core's `validate` with the full rule set is the judge of validity in the
  harness, and every case it accepts must satisfy this predicate):
    * every name is a GraphQL name (`Names.GName`),
    * every operation has a root type and a valid selection set, every fragment is valid (`Spec/Validate.lean`;
      an operation NAME is not required: the anonymous operation is valid GraphQL and a documented refusal),
    * variables are declared with input types, input fields are declared with input types.
  Core Lean only.
-/
import AriadneModel.Model.Package
import AriadneModel.Spec.Validate

namespace Ariadne.PackageValid
open Ariadne Ariadne.Gql Ariadne.Package

def gname (s : String) : Bool := decide (Names.GName s.toList)

/-- every name of the input is a GraphQL name -/
def namesOK (inp : Input) : Bool :=
  inp.schema.types.all (fun t => gname t.name && t.fields.all (fun f => gname f.name && f.args.all (gname ·.name))
    && t.values.all gname && t.inputFields.all (gname ·.name))
  && inp.frags.all (gname ·.name)
  && inp.ops.all fun o => (match o.op.name with | some n => gname n | none => true) && o.vars.all (gname ·.name)

def docValid (inp : Input) : Bool :=
  inp.ops.all (fun o => match Validate.rootOf inp.schema o.op with
    | some r => Validate.validSel inp.schema inp.frags Package.fuel r o.op.sel
    | none => false)
  && inp.frags.all fun f => Validate.isComposite inp.schema f.on && Validate.validSel inp.schema inp.frags Package.fuel f.on f.sel

/-- what `ArgumentsGenerator._parse_named_type_node` accepts: input objects, enums, scalars -/
def isInputKind : Option Kind → Bool
  | some .input => true
  | some .enum => true
  | some .scalar => true
  | _ => false

def varsTyped (inp : Input) : Bool :=
  inp.ops.all fun o => o.vars.all fun v => isInputKind (inp.schema.kindOf? v.type.base)

/-- what `parse_input_field_type` accepts -/
def inputKindOK : InputField.Kind → Bool
  | .composite => false
  | .unknown => false
  | _ => true

def inputFieldsTyped (cfg : Config) (inp : Input) : Bool :=
  inp.defs.all fun d => match d with
    | .input _ fs => fs.all fun f => inputKindOK (InputField.kindOf (inputCfg cfg) inp.defs f.type.base)
    | _ => true

def validB (cfg : Config) (inp : Input) : Bool :=
  namesOK inp && docValid inp && varsTyped inp && inputFieldsTyped cfg inp

/-- which conjuncts fail (what the driver reports) -/
def invalidParts (cfg : Config) (inp : Input) : List String :=
  (if namesOK inp then [] else ["namesOK"]) ++ (if docValid inp then [] else ["docValid"])
  ++ (if varsTyped inp then [] else ["varsTyped"]) ++ (if inputFieldsTyped cfg inp then [] else ["inputFieldsTyped"])

end Ariadne.PackageValid
