/-
  Model/PackageValid.lean — `Valid`, the hypothesis of C04 on the input, as a decidable Bool (so that the driver
  evaluates it on every generated case: graphql-core's `validate` with the full rule set is the judge of validity in the
  harness, and every case it accepts must satisfy this predicate):
    * every name is a GraphQL name (`Names.GName`),
    * every operation has a root type and a valid selection set, every fragment is valid (`Spec/Validate.lean`;
      an operation NAME is not required: the anonymous operation is valid GraphQL and a documented refusal),
    * variables are declared with input types, input fields are declared with input types,
    * the configuration is a supported one as far as names go (`cfgOK`: module names without leading dots, custom scalars
      whose names are bound by the imports emitted for them, relative imports naming files that are copied into the
      package), every `@mixin(from:, import:)` imports from such a module (`mixinsOK`),
    * `schema` and `defs` are two views of one type map (`defsMatch`), fragment spreads are acyclic (`fragsAcyclic`,
      NoFragmentCycles: checked on a candidate order, so that a rank function exists whenever the check passes).
  Core Lean only.
-/
import AriadneModel.Model.Package
import AriadneModel.Spec.Validate

namespace Ariadne.PackageValid
open Ariadne Ariadne.Gql Ariadne.Package

def gname (s : String) : Bool := decide (Names.GName s.toList)

/-- every name of the input is a GraphQL name -/
def namesOK (inp : Input) : Bool :=
  inp.schema.types.all (fun t => gname t.name && t.fields.all (fun f => gname f.name && f.args.all (gname ·.name))
    && t.values.all gname && t.inputFields.all (gname ·.name))
  && inp.frags.all (gname ·.name)
  && inp.ops.all fun o => (match o.op.name with | some n => gname n | none => true) && o.vars.all (gname ·.name)

def docValid (inp : Input) : Bool :=
  inp.ops.all (fun o => match Validate.rootOf inp.schema o.op with
    | some r => Validate.validSel inp.schema inp.frags Package.fuel r o.op.sel
    | none => false)
  && inp.frags.all fun f => Validate.isComposite inp.schema f.on && Validate.validSel inp.schema inp.frags Package.fuel f.on f.sel

/-- what `ArgumentsGenerator._parse_named_type_node` accepts: input objects, enums, scalars -/
def isInputKind : Option Kind → Bool
  | some .input => true
  | some .enum => true
  | some .scalar => true
  | _ => false

def varsTyped (inp : Input) : Bool :=
  inp.ops.all fun o => o.vars.all fun v => isInputKind (inp.schema.kindOf? v.type.base)

/-- what `parse_input_field_type` accepts -/
def inputKindOK : InputField.Kind → Bool
  | .composite => false
  | .unknown => false
  | _ => true

def inputFieldsTyped (cfg : Config) (inp : Input) : Bool :=
  inp.defs.all fun d => match d with
    | .input _ fs => fs.all fun f => inputKindOK (InputField.kindOf (inputCfg cfg) inp.defs f.type.base)
    | _ => true

/-! ### the configuration names importable things; the two vocabularies describe one type map; spreads are acyclic -/

/-- does the string start with a dot (`from .x import …` written with the dots inside the module string)? -/
def leadingDot (s : String) : Bool := s.toList.head? == some '.'

/-- the files `_copy_files` puts into the package -/
def copiedFiles (cfg : Config) : List String := filesToCopy cfg ++ [cfg.baseClientFile, baseModelFile]

/-- an import the USER names (a custom scalar's `import` / dotted names, a `@mixin(from:, import:)`): absolute, or relative
    to the package with one dot and naming a file that is copied into the package (and, for the files whose contents the
    generator knows, a name that file defines) -/
def userImportOK (cfg : Config) (i : Import) : Bool :=
  let n := normImport i
  n.level == 0 ||
    (n.level == 1 && (copiedFiles cfg).contains (pyFile n.module) &&
      match (copiedModule cfg (pyFile n.module)).provides with
      | none => true
      | some ns => n.names.all ns.contains)

/-- names every emitted module that can carry a custom scalar annotation binds anyway -/
def alwaysBound : List String := ["str", "int", "float", "bool", "bytes", "dict", "list", "object", "tuple", "set", "Any"]

/-- a configured custom scalar: the names its annotations mention (`type`, `parse`, `serialize` after the last dot) are
    builtins or bound by the imports `generate_scalar_imports` emits for it, and those imports are importable -/
def scalarOK (cfg : Config) (d : Scalars.ScalarData) : Bool :=
  let bound := alwaysBound ++ Scalars.boundNames (Scalars.scalarImports d)
  bound.contains d.typeName
  && (match d.parseName with | some p => bound.contains p | none => true)
  && (match d.serializeName with | some p => bound.contains p | none => true)
  && (Scalars.scalarImports d).all fun i => i.module != "" && userImportOK cfg (ofScalarImport i)

/-- a supported configuration, as far as names are concerned: module names are not empty and not written with leading dots, the base
    client file is a `.py` file not called like one of the bundled files, every configured custom scalar is importable -/
def cfgOK (cfg : Config) : Bool :=
  cfg.enumsModule != "" && cfg.inputsModule != "" && stem cfg.baseClientFile != ""
  && !leadingDot cfg.enumsModule && !leadingDot cfg.inputsModule && !leadingDot cfg.fragmentsModule && !leadingDot cfg.clientFile
  && !leadingDot (stem cfg.baseClientFile) && pyFile (stem cfg.baseClientFile) == cfg.baseClientFile
  && cfg.baseClientFile != baseModelFile && cfg.baseClientFile != exceptionsFile && cfg.baseClientFile != baseOperationFile
  && cfg.scalars.all fun nd => scalarOK cfg nd.2

/-- `_parse_mixin_arguments`: later duplicates of an argument name win -/
def mixinArg (d : Directive) (k : String) : Option String := (d.args.reverse.find? (·.1 == k)).bind (·.2)

/-- the `(from, import)` pair of a well-formed `@mixin` directive -/
def mixinPairOf (d : Directive) : Option (String × String) :=
  if d.name == Tables.mixinName then
    match mixinArg d Tables.mixinFromName, mixinArg d Tables.mixinImportName with
    | some fr, some im => some (fr, im)
    | _, _ => none
  else none

def dirsOK (cfg : Config) (dirs : List Directive) : Bool :=
  dirs.all fun d => match mixinPairOf d with
    | some (fr, im) => userImportOK cfg ⟨0, fr, [im]⟩
    | none => true

mutual
  /-- every `@mixin` on a field anywhere inside the selection names an importable module -/
  def selDirsOK (cfg : Config) : Selection → Bool
    | .field _ _ dirs _ sub => dirsOK cfg dirs && selsDirsOK cfg sub
    | .spread _ _ => true
    | .inline _ _ _ sub => selsDirsOK cfg sub
  def selsDirsOK (cfg : Config) : List Selection → Bool
    | [] => true
    | s :: rest => selDirsOK cfg s && selsDirsOK cfg rest
end

/-- every `@mixin(from:, import:)` of the document imports from an importable module -/
def mixinsOK (cfg : Config) (inp : Input) : Bool :=
  inp.ops.all (fun o => dirsOK cfg o.op.dirs && selsDirsOK cfg o.op.sel)
  && inp.frags.all fun f => dirsOK cfg f.dirs && selsDirsOK cfg f.sel

/-- `schema` and `defs` describe the same `type_map` (the harness derives both from one graphql-core schema) -/
def defsMatch (inp : Input) : Bool :=
  inp.schema.types.all (fun t =>
    match t.kind, InputGen.findDef inp.defs t.name with
    | .input, some (.input _ _) => true
    | .enum, some (.enum _ _) => true
    | .scalar, some (.scalar _) => true
    | .object, some (.composite _) => true
    | .interface, some (.composite _) => true
    | .union, some (.composite _) => true
    | _, _ => false)
  && inp.defs.all fun d =>
    match d with
    | .input n _ => inp.schema.kindOf? n == some .input
    | .enum n _ => inp.schema.kindOf? n == some .enum
    | _ => true

mutual
  /-- names of the fragment spreads written inside a selection (through fields and inline fragments) -/
  def selSpreadNames : Selection → List String
    | .field _ _ _ _ sub => selsSpreadNames sub
    | .spread n _ => [n]
    | .inline _ _ _ sub => selsSpreadNames sub
  def selsSpreadNames : List Selection → List String
    | [] => []
    | s :: rest => selSpreadNames s ++ selsSpreadNames rest
end

/-- one round of peeling: the fragments all of whose spreads are already ordered come next -/
def peelRound (frags : List Fragment) (done : List String) : List String :=
  done ++ ((frags.filter fun f => !done.contains f.name && (selsSpreadNames f.sel).all done.contains).map (·.name))

def peel (frags : List Fragment) : Nat → List String → List String
  | 0, done => done
  | k + 1, done => peel frags k (peelRound frags done)

/-- a candidate topological order of the fragment definitions (dependencies first) -/
def fragOrder (frags : List Fragment) : List String := peel frags frags.length []

/-- NoFragmentCycles, as a check of the candidate order: every fragment spread inside a fragment definition names a
    fragment that comes strictly earlier -/
def fragsAcyclic (inp : Input) : Bool :=
  let ord := fragOrder inp.frags
  inp.frags.all fun f => (selsSpreadNames f.sel).all fun m => decide (ord.idxOf m < ord.idxOf f.name)

/-! ### a decidable region in which the quoted forward references of the result modules are PROVED to resolve -/

mutual
  /-- names of the fields selected WITHOUT a sub-selection, anywhere inside the selection -/
  def selLeafNames : Selection → List String
    | .field _ name _ _ sub => (if sub.isEmpty then [name] else []) ++ selsLeafNames sub
    | .spread _ _ => []
    | .inline _ _ _ sub => selsLeafNames sub
  def selsLeafNames : List Selection → List String
    | [] => []
    | s :: rest => selLeafNames s ++ selsLeafNames rest
end

/-- the names of the fields of composite (object / interface / union) type, over all types of the schema -/
def compositeFieldNames (S : Schema) : List String :=
  S.types.flatMap fun t => (t.fields.filter fun fd => Validate.isComposite S fd.type.base).map (·.name)

/-- no field name that the document selects as a LEAF (without sub-selection) is the name of a composite-typed field of
    some type of the schema (and `String`, the type of `__typename`, is no composite type; no type declares a composite
    `__typename` field of its own).  In a valid document a leaf
    is a scalar- or enum-typed field of ITS parent type; this region asks the same of every type with a field of that
    name, which makes the question independent of the type a selection set is evaluated for. -/
def leafNamesOK (inp : Input) : Bool :=
  !Validate.isComposite inp.schema "String" && !(compositeFieldNames inp.schema).contains Tables.typenameFieldName &&
  (inp.ops.flatMap (fun o => selsLeafNames o.op.sel) ++ inp.frags.flatMap (fun f => selsLeafNames f.sel)).all fun n =>
    !(compositeFieldNames inp.schema).contains n

def validB (cfg : Config) (inp : Input) : Bool :=
  namesOK inp && docValid inp && varsTyped inp && inputFieldsTyped cfg inp
  && cfgOK cfg && mixinsOK cfg inp && defsMatch inp && fragsAcyclic inp

/-- which conjuncts fail (what the driver reports) -/
def invalidParts (cfg : Config) (inp : Input) : List String :=
  (if namesOK inp then [] else ["namesOK"]) ++ (if docValid inp then [] else ["docValid"])
  ++ (if varsTyped inp then [] else ["varsTyped"]) ++ (if inputFieldsTyped cfg inp then [] else ["inputFieldsTyped"])
  ++ (if cfgOK cfg then [] else ["cfgOK"]) ++ (if mixinsOK cfg inp then [] else ["mixinsOK"])
  ++ (if defsMatch inp then [] else ["defsMatch"]) ++ (if fragsAcyclic inp then [] else ["fragsAcyclic"])

end Ariadne.PackageValid
