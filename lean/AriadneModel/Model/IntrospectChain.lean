/-
  Model of the remote side of `ariadne_codegen/schema.py` and of the part of `settings.py` /
  `main.py` that decides which source is used and what is sent (C19).

      def introspect_remote_schema(url, headers=None, verify_ssl=True) -> IntrospectionQuery:
          try:
              response = httpx.post(url, json={"query": get_introspection_query(descriptions=False)},
                                    headers=headers, verify=verify_ssl)
          except httpx.InvalidURL as exc:
              raise IntrospectionError(f"Invalid remote schema url: {url}") from exc
          except httpx.TransportError as exc:                                   # since 23ffd85 (finding C19-F2)
              raise IntrospectionError(f"Failure of remote schema introspection: {exc}") from exc
          if not response.is_success:
              raise IntrospectionError("Failure of remote schema introspection. HTTP status code: ...")
          try: response_json = response.json()
          except ValueError as exc: raise IntrospectionError("Introspection result is not a valid json.") from exc
          if (not isinstance(response_json, dict)) or ("data" not in response_json):
              raise IntrospectionError("Invalid introspection result format.")
          errors = response_json.get("errors")
          if errors: raise IntrospectionError(f"Introspection errors: {errors}")
          data = response_json["data"]
          if not isinstance(data, dict): raise IntrospectionError("Invalid data key in introspection result.")
          return cast(IntrospectionQuery, data)

      def get_graphql_schema_from_url(url, headers=None, verify_ssl=True) -> GraphQLSchema:
          return build_client_schema(introspect_remote_schema(url=url, headers=headers, verify_ssl=verify_ssl),
                                     assume_valid=True)

      # settings.py, BaseSettings.__post_init__
          if not self.schema_path and not self.remote_schema_url: raise InvalidConfiguration(...)
          if self.schema_path: assert_path_exists(self.schema_path)
          self.remote_schema_headers = resolve_headers(self.remote_schema_headers)
      def resolve_headers(headers): return {key: get_header_value(value) for key, value in headers.items()}
      def get_header_value(value):
          if value.startswith("$"):
              env_var_name = value.lstrip("$"); var_value = os.environ.get(env_var_name)
              if not var_value: raise InvalidConfiguration(f"Environment variable {env_var_name} not found.")
              return var_value
          return value

      # main.py, client()
          if settings.schema_path: schema = get_graphql_schema_from_path(settings.schema_path)
          else: schema = get_graphql_schema_from_url(url=settings.remote_schema_url,
                     headers=settings.remote_schema_headers, verify_ssl=settings.remote_schema_verify_ssl)

  External calls are parameters: what `httpx.post` did is a `PostResult`; `build_client_schema`
  is an abstract `build`; the process environment is `env`.  Core Lean only.
-/
import AriadneModel.Model.Json
import AriadneModel.Generated.Tables

namespace Ariadne.Introspect
open Ariadne

/-- A Python exception as an `except` clause sees it: the qualified names (`module.qualname`) of
    `type(e).__mro__`, most specific class first, and `str(e)`.  `except C` catches `e` iff `C` is in
    the MRO, so user-defined subclasses and multiple inheritance need no special case. -/
structure Exc where
  mro : List String
  msg : String
  deriving Repr

/-- `isinstance(e, cls)` -/
def Exc.isa (e : Exc) (cls : String) : Bool := e.mro.contains cls

def clsInvalidURL : String := "httpx.InvalidURL"
def clsTransportError : String := "httpx.TransportError"
/-- httpx: "base class for all exceptions that may occur when issuing a `.request()`" -/
def clsRequestError : String := "httpx.RequestError"

/-- What `httpx.post(...)` did: raised, or returned a response, of which the code looks at the
    status and at `response.json()` (`none` = it raised ValueError). -/
inductive PostResult where
  | raised (e : Exc)
  | response (status : Nat) (body : Option J)
  deriving Repr

/-- The messages of `IntrospectionError` in `introspect_remote_schema`. -/
inductive ErrKind where
  | invalidUrl
  | transport (msg : String)     -- f"Failure of remote schema introspection: {exc}"
  | httpStatus (status : Nat)
  | notJson
  | badFormat
  | errors (e : J)
  | badData
  deriving Repr

inductive Outcome where
  | introspectionError (k : ErrKind)
  | escaped (e : Exc)                        -- the exception of `httpx.post` escapes as it is
  | data (kvs : List (String × J))           -- the returned `data` dict
  deriving Repr

/-- `httpx.Response.is_success`. -/
def isSuccess (status : Nat) : Bool := 200 ≤ status && status ≤ 299

def introspect : PostResult → Outcome
  | .raised e =>
    if e.isa clsInvalidURL then .introspectionError .invalidUrl               -- first clause wins
    else if e.isa clsTransportError then .introspectionError (.transport e.msg)
    else .escaped e
  | .response status body =>
    if !isSuccess status then .introspectionError (.httpStatus status)
    else
      match body with
      | none => .introspectionError .notJson
      | some (.obj kvs) =>
        match J.lookup "data" kvs with
        | none => .introspectionError .badFormat
        | some data =>
          let errors := J.getD "errors" kvs
          if errors.truthy then .introspectionError (.errors errors)
          else
            match data with
            | .obj d => .data d
            | _ => .introspectionError .badData
      | some _ => .introspectionError .badFormat

/-- The exceptions of `httpx.post` that the property lists as introspection failures: `InvalidURL` (bad URL)
    and the `RequestError` family (httpx: every exception "that may occur when issuing a .request()");
    `TransportError` is named separately although httpx derives it from `RequestError`, so that the
    claim does not rest on that. Anything else is outside the property. -/
def listedFailureExc (e : Exc) : Bool :=
  e.isa clsInvalidURL || e.isa clsTransportError || e.isa clsRequestError

/-- Trigger of finding C19-F6 (twin: `harness/c19.py trig_request_exc_untyped`): `httpx.post` raised an
    `httpx.RequestError` that is neither an `InvalidURL` nor a `TransportError` - what is left of the
    trigger of the repaired finding F2, which was "raised anything that is not an InvalidURL". -/
def trigRequestExcUntyped : PostResult → Bool
  | .raised e => !e.isa clsInvalidURL && !e.isa clsTransportError && e.isa clsRequestError
  | .response _ _ => false

/-- Outcome of `get_graphql_schema_from_url`; `σ` is whatever `build_client_schema` returns. -/
inductive UrlOutcome (σ : Type) where
  | introspectionError (k : ErrKind)
  | escaped (e : Exc)                        -- an exception of `httpx.post` that no clause catches
  | other (exc : String)                     -- an exception of `build_client_schema` (class name)
  | schema (s : σ)

/-- `build_client_schema(introspect_remote_schema(...), assume_valid=True)`: an exception of the
    builder escapes as it is (no `try` around it). -/
def schemaFromUrl {σ : Type} (build : List (String × J) → Except String σ) (p : PostResult) : UrlOutcome σ :=
  match introspect p with
  | .introspectionError k => .introspectionError k
  | .escaped e => .escaped e
  | .data d =>
    match build d with
    | .ok s => .schema s
    | .error exc => .other exc

/-- The decision chain as it was BEFORE commit 23ffd85 (only `except httpx.InvalidURL`): kept to state, in
    Properties/C19.lean, that the recorded witnesses of finding C19-F2 violate the property on it - i.e. why a
    return of that defect must be caught.  Not used by the driver. -/
def introspectBefore23ffd85 : PostResult → Outcome
  | .raised e => if e.isa clsInvalidURL then .introspectionError .invalidUrl else .escaped e
  | p@(.response _ _) => introspect p

/-! ### which source, and what is sent -/

/-- `get_header_value`; `Except.error name` = InvalidConfiguration("Environment variable <name> not found."). -/
def headerValue (env : String → Option String) (v : String) : Except String String :=
  match v.toList with
  | '$' :: rest =>
    let name := String.ofList (rest.dropWhile (· == '$'))     -- value.lstrip("$")
    match env name with
    | some x => if x = "" then .error name else .ok x
    | none => .error name
  | _ => .ok v

/-- `resolve_headers`: dict comprehension in insertion order, the first failure escapes. -/
def resolveHeaders (env : String → Option String) : List (String × String) → Except String (List (String × String))
  | [] => .ok []
  | (k, v) :: rest =>
    match headerValue env v with
    | .error n => .error n
    | .ok x =>
      match resolveHeaders env rest with
      | .error n => .error n
      | .ok r => .ok ((k, x) :: r)

structure SourceCfg where
  schemaPath : String
  remoteUrl : String
  headers : List (String × String)
  verifySsl : Bool
  deriving Repr

/-- The arguments of the one `httpx.post` call.  `queryFlags` are the keyword arguments of
    `get_introspection_query(...)` (re-extracted from the source: `Tables.introspectionQueryFlags`). -/
structure PostCall where
  url : String
  headers : List (String × String)
  verify : Bool
  queryFlags : List (String × String)
  deriving Repr

inductive Chosen where
  | path (p : String)
  | remote (call : PostCall)
  deriving Repr

inductive CfgErr where
  | noSource                         -- InvalidConfiguration: schema source not provided
  | pathMissing                      -- InvalidConfiguration from assert_path_exists
  | envMissing (name : String)       -- InvalidConfiguration: environment variable not found
  deriving Repr

/-- `BaseSettings.__post_init__` followed by the branch in `main.client`. -/
def chooseSource (env : String → Option String) (pathExists : Bool) (c : SourceCfg) : Except CfgErr Chosen :=
  if c.schemaPath = "" ∧ c.remoteUrl = "" then .error .noSource
  else if c.schemaPath ≠ "" ∧ !pathExists then .error .pathMissing
  else
    match resolveHeaders env c.headers with
    | .error n => .error (.envMissing n)
    | .ok hs =>
      if c.schemaPath ≠ "" then .ok (.path c.schemaPath)
      else .ok (.remote ⟨c.remoteUrl, hs, c.verifySsl, Tables.introspectionQueryFlags⟩)

/-! ### the same decision, stage by stage

`chooseSource` above states the end-to-end decision.  The code reaches it through four calls, and a value that is
computed in one of them is *state* for the following ones (the settings object keeps the resolved headers):

    settings = get_client_settings(config_dict)              -- BaseSettings.__post_init__ : resolves the headers ONCE
    main.client / main.graphql_schema                        -- reads settings.schema_path / .remote_schema_url / ...
      get_graphql_schema_from_url(url=, headers=, verify_ssl=)    -- passes its three arguments on, unchanged
        introspect_remote_schema(url=, headers=, verify_ssl=)     -- passes them on to httpx.post, unchanged

The stages are modelled separately so that each one is tied to the real function on its own (ops `urlcall`,
`source`) and so that the theorems can say *where* `$ENV` substitution happens (in the first stage, once) and where
it does not (below `main`: what `get_graphql_schema_from_url` is given is what is sent, `$` or not). -/

/-- The fields of the settings object this property reads, after `__post_init__` (headers resolved). -/
structure Settings where
  schemaPath : String
  remoteUrl : String
  headers : List (String × String)
  verifySsl : Bool
  deriving Repr

/-- `BaseSettings.__post_init__` (shared by `ClientSettings` and `GraphQLSchemaSettings`). -/
def postInit (env : String → Option String) (pathExists : Bool) (c : SourceCfg) : Except CfgErr Settings :=
  if c.schemaPath = "" ∧ c.remoteUrl = "" then .error .noSource
  else if c.schemaPath ≠ "" ∧ !pathExists then .error .pathMissing
  else
    match resolveHeaders env c.headers with
    | .error n => .error (.envMissing n)
    | .ok hs => .ok ⟨c.schemaPath, c.remoteUrl, hs, c.verifySsl⟩

/-- `introspect_remote_schema(url, headers, verify_ssl)`: the arguments of its one `httpx.post` call.
    No environment, no settings: the function has neither. -/
def introspectCall (url : String) (headers : List (String × String)) (verify : Bool) : PostCall :=
  ⟨url, headers, verify, Tables.introspectionQueryFlags⟩

/-- `get_graphql_schema_from_url(url, headers, verify_ssl)`: hands its arguments to `introspect_remote_schema`. -/
def urlCall (url : String) (headers : List (String × String)) (verify : Bool) : PostCall :=
  introspectCall url headers verify

/-- The branch in `main.client` and in `main.graphql_schema` (the same expression in both). -/
def mainSource (s : Settings) : Chosen :=
  if s.schemaPath ≠ "" then .path s.schemaPath
  else .remote (urlCall s.remoteUrl s.headers s.verifySsl)

/-- the four calls in sequence -/
def chooseSourceStaged (env : String → Option String) (pathExists : Bool) (c : SourceCfg) : Except CfgErr Chosen :=
  match postInit env pathExists c with
  | .error e => .error e
  | .ok s => .ok (mainSource s)

/-- A value of the *resolved* header list that a second `get_header_value` would not leave alone: it starts with `$`
    (an environment value such as a crypt hash `$2y$10$...`, or the name of another variable).  Twin:
    `harness/c19.py resolved_value_starts_with_dollar`; the directed search aims at it. -/
def startsWithDollar (v : String) : Bool := v.toList.head? == some '$'

/-- effective value of a flag of the introspection query: the keyword passed by ariadne-codegen,
    else graphql-core's default. -/
def queryFlag (name : String) : Bool :=
  match Tables.introspectionQueryFlags.lookup name with
  | some v => v == "True"
  | none => (Tables.introspectionQueryDefaults.lookup name) == some "True"

end Ariadne.Introspect
