/-
  TOML values as `toml.load` hands them to ariadne-codegen (C17), and the pieces of Python that the
  settings code applies to them WITHOUT looking at their type first.

  The six kinds are kept apart because Python does not keep them apart by itself: `1 == True`,
  `0.0 == False`, `hash(1) == hash(True) == hash(1.0)`, `"x" in "xyz"`, `for c in "abc"`, `bool([])`.
  A configuration value of the "wrong" kind is therefore not an error by itself; what happens depends on
  the operation the code applies first (`not v`, `Path(v)`, `v.isidentifier()`, `v.items()`,
  `v["type"]`, `"." in v`, `d[(v, w)]`, `for x in v`, `f"{v}"`), and each of those is written down here
  for every kind.

  `float` carries Python's `repr` of the number (the harness sends `repr(x)`), so that `nan`, `inf`,
  `-0.0` and the int/float distinction survive the wire; `int` is exact.  TOML dates/times are outside
  the domain.  Core Lean only.
-/
namespace Ariadne

inductive TV where
  | bool (b : Bool)
  | int (i : Int)
  | float (repr : String)
  | str (s : String)
  | list (xs : List TV)
  | table (kvs : List (String × TV))
  deriving Repr, Inhabited

namespace TV

/-! ## decidable equality (`TV` is a nested inductive: no deriving handler) -/

mutual
  def beq : TV → TV → Bool
    | .bool a, .bool b => a == b
    | .int a, .int b => a == b
    | .float a, .float b => a == b
    | .str a, .str b => a == b
    | .list xs, .list ys => beqList xs ys
    | .table xs, .table ys => beqKvs xs ys
    | _, _ => false
  def beqList : List TV → List TV → Bool
    | [], [] => true
    | x :: xs, y :: ys => beq x y && beqList xs ys
    | _, _ => false
  def beqKvs : List (String × TV) → List (String × TV) → Bool
    | [], [] => true
    | (k, x) :: xs, (k', y) :: ys => k == k' && beq x y && beqKvs xs ys
    | _, _ => false
end

mutual
  theorem beq_iff : ∀ (a b : TV), beq a b = true ↔ a = b
    | .bool a, b => by cases b <;> simp [beq]
    | .int a, b => by cases b <;> simp [beq]
    | .float a, b => by cases b <;> simp [beq]
    | .str a, b => by cases b <;> simp [beq]
    | .list xs, b => by
      cases b <;> simp [beq]
      exact beqList_iff xs _
    | .table xs, b => by
      cases b <;> simp [beq]
      exact beqKvs_iff xs _
  theorem beqList_iff : ∀ (xs ys : List TV), beqList xs ys = true ↔ xs = ys
    | [], ys => by cases ys <;> simp [beqList]
    | x :: xs, ys => by
      cases ys with
      | nil => simp [beqList]
      | cons y ys => simp [beqList, beq_iff x y, beqList_iff xs ys]
  theorem beqKvs_iff : ∀ (xs ys : List (String × TV)), beqKvs xs ys = true ↔ xs = ys
    | [], ys => by cases ys <;> simp [beqKvs]
    | (k, x) :: xs, ys => by
      cases ys with
      | nil => simp [beqKvs]
      | cons y ys =>
        obtain ⟨k', y⟩ := y
        simp [beqKvs, beq_iff x y, beqKvs_iff xs ys, and_assoc]
end

instance : DecidableEq TV := fun a b => decidable_of_iff (beq a b = true) (beq_iff a b)

/-! ## dict access -/

/-- `d.get(k)` / `k in d` on a table (first binding; TOML tables have unique keys) -/
def lookup (k : String) : List (String × TV) → Option TV
  | [] => none
  | (k', v) :: rest => if k' = k then some v else lookup k rest

def hasKey (k : String) (kvs : List (String × TV)) : Bool := (lookup k kvs).isSome

/-! ## kinds -/

inductive Kind where
  | bool | int | float | str | list | table
  deriving Repr, DecidableEq

def kind : TV → Kind
  | .bool _ => .bool | .int _ => .int | .float _ => .float | .str _ => .str | .list _ => .list | .table _ => .table

def Kind.all : List Kind := [.bool, .int, .float, .str, .list, .table]

def isStr : TV → Bool | .str _ => true | _ => false
def isBool : TV → Bool | .bool _ => true | _ => false
def isTable : TV → Bool | .table _ => true | _ => false

/-! ## Python on a value of unknown kind -/

/-- is the float (given by its `repr`) equal to zero?  (`repr` of a zero float is `0.0` or `-0.0`) -/
def floatIsZero (r : String) : Bool := r == "0.0" || r == "-0.0"

/-- `bool(v)` -/
def truthy : TV → Bool
  | .bool b => b
  | .int i => i != 0
  | .float r => !floatIsZero r
  | .str s => s != ""
  | .list xs => !xs.isEmpty
  | .table kvs => !kvs.isEmpty

/-- What a dict keyed by `True`/`False` finds for `v` as (part of) a key:
    `none` = `v` is unhashable (`TypeError`), `some none` = hashable but equal to neither (`KeyError`),
    `some (some b)` = equal to `b` with the same hash (`1 == True`, `0.0 == False`, ...). -/
def boolKey : TV → Option (Option Bool)
  | .bool b => some (some b)
  | .int i => if i == 0 then some (some false) else if i == 1 then some (some true) else some none
  | .float r => if floatIsZero r then some (some false) else if r == "1.0" then some (some true) else some none
  | .str _ => some none
  | .list _ => none
  | .table _ => none

/-- `for x in v`: `none` = not iterable (`TypeError`) -/
def pyIter : TV → Option (List TV)
  | .list xs => some xs
  | .str s => some (s.toList.map fun c => .str (String.singleton c))
  | .table kvs => some (kvs.map fun kv => .str kv.1)
  | _ => none

/-- `repr(s)` for a `str` (printable characters; the quote is chosen as CPython does) -/
def reprStr (s : String) : String :=
  let cs := s.toList
  let q : Char := if cs.contains '\'' && !cs.contains '"' then '"' else '\''
  let esc (c : Char) : List Char :=
    if c == '\\' then ['\\', '\\']
    else if c == q then ['\\', q]
    else if c == '\n' then ['\\', 'n']
    else if c == '\r' then ['\\', 'r']
    else if c == '\t' then ['\\', 't']
    else [c]
  String.ofList (q :: cs.flatMap esc ++ [q])

/-- decimal rendering of an `int` -/
def reprInt (i : Int) : String :=
  match i with
  | .ofNat n => toString n
  | .negSucc n => "-" ++ toString (n + 1)

mutual
  /-- `repr(v)` -/
  def pyRepr : TV → String
    | .bool b => if b then "True" else "False"
    | .int i => reprInt i
    | .float r => r
    | .str s => reprStr s
    | .list xs => "[" ++ ", ".intercalate (reprList xs) ++ "]"
    | .table kvs => "{" ++ ", ".intercalate (reprKvs kvs) ++ "}"
  def reprList : List TV → List String
    | [] => []
    | x :: xs => pyRepr x :: reprList xs
  def reprKvs : List (String × TV) → List String
    | [] => []
    | (k, v) :: rest => (reprStr k ++ ": " ++ pyRepr v) :: reprKvs rest
end

/-- `str(v)` / `f"{v}"` -/
def pyStr : TV → String
  | .str s => s
  | v => pyRepr v

/-- `x in v` for a `str` x: `none` = `TypeError` (argument of type ... is not iterable) -/
def containsStr (x : String) : TV → Option Bool
  | .str s => some (decide (x.toList.isEmpty) || (s.toList.length ≥ x.toList.length &&
      (List.range (s.toList.length - x.toList.length + 1)).any fun i => (s.toList.drop i).take x.toList.length == x.toList))
  | .list xs => some (xs.any fun y => y == .str x)
  | .table kvs => some (hasKey x kvs)
  | _ => none

end TV
end Ariadne

namespace Ariadne
/-- string / boolean literals where a configuration value is expected (examples and witnesses) -/
instance : Coe String TV := ⟨TV.str⟩
instance : Coe Bool TV := ⟨TV.bool⟩
end Ariadne
