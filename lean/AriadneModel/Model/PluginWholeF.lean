/-
  C15: what reaches ClientForwardRefs when it stands in a list after other plugins `a` and before plugins `b` that only
  put imports in front (ExtractOperations, NoReimports, identity): the decidable hygiene of the module it is handed under
  which adding ClientForwardRefs to the list is proved to preserve the whole-pipeline statement (`genShapedFR`).
  Core Lean only.
-/
import AriadneModel.Model.PluginWholeSE

namespace Ariadne.C15
open Ariadne Ariadne.Py Ariadne.Plugins Ariadne.ClientSem

/-- an annotation with every reachable locally imported class quoted -/
def quoted (IC : List (String × String)) (e : Ex) : Ex := (toConst IC e []).1

def argsQuoted (IC : List (String × String)) (args : List (String × Option Ex)) : List (String × Option Ex) :=
  args.map (fun a => (a.1, a.2.map (quoted IC)))

/-- the names `_update_name_to_constant` can reach in the signature of a method -/
def sigLeaves (md : Method) : List String :=
  md.args.flatMap (fun a => match a.2 with | some e => annLeafNames e | none => []) ++
  (match md.returns with | some r => annLeafNames r | none => [])

/-- the classes ClientForwardRefs regards as locally imported in a module -/
def icOf (M : Module) : List (String × String) := (fwdStoreImported {} M.body).importedClasses

/-- the names ClientForwardRefs takes out of the module-level imports: quoted signature classes and validated classes -/
def dropNames (IC : List (String × String)) (methods : List Method) : List String :=
  methods.flatMap (fun md => (sigLeaves md).filter (fun n => ahas n IC)) ++
  methods.filterMap (fun md => (shapeOf md).map (·.retClass))

/-- the names still evaluated when the rewritten `def` statement runs -/
def quotedSigNames (IC : List (String × String)) (md : Method) : List String :=
  defTimeNames { md with args := argsQuoted IC md.args, returns := md.returns.map (quoted IC) }

def isImpB : Top → Bool
  | .simple (.importFrom _) => true
  | .simple (.import_ _) => true
  | _ => false

def noAsB (pre : List Top) : Bool :=
  pre.all (fun t => match t with
    | .simple (.importFrom i) => i.names.all (fun nm => nm.2.isNone)
    | _ => true)

/-- the configured list around ClientForwardRefs: (plugins before it, plugins after it) -/
def splitAtFwd : List PState → Option (List PState × List PState)
  | [] => none
  | .fwd _ :: rest => some ([], rest)
  | p :: rest =>
    match splitAtFwd rest with
    | some (a, b) => some (p :: a, b)
    | none => none

/-- the runtime name of the operation source of a method: `gql` for an inlined string, the constant otherwise -/
def opSourceName (s : Shape) : String :=
  match s.op with
  | .inline _ _ => "gql"
  | .const c => c

def genShapedFR (x : Input) : Bool :=
  match splitAtFwd x.plugins with
  | some (a, b) =>
    (match splitAtClientModule x.events, (runWith (a ++ b) x).1.clientModule? with
     | some (_, cm, post), some B0 =>
       (match cm.payload with | .module _ => true | _ => false) &&
       post.all (fun e => e.call.hook != "generate_client_module") &&
       (moduleNames B0).contains "gql" &&
       (match splitClient { body := B0.body.drop (b.countP PState.isExtract) } with
        | some (pre0, _, C0) =>
          let IC := icOf { body := B0.body.drop (b.countP PState.isExtract) }
          let dn := dropNames IC C0.methods
          let ops := (runWith (a ++ b) x).1.opsFile?
          -- the statements in front of `def gql` are import statements without renaming, and there are some
          pre0.all isImpB && !pre0.isEmpty && noAsB pre0 && !C0.methods.isEmpty &&
          -- every method has the generated shape and validates a locally imported class
          C0.methods.all (fun md => match shapeOf md with
            | some s => decide (s.proj.length ≤ 1) && ahas s.retClass IC
            | none => false) &&
          -- some signature mentions a locally imported class (otherwise `if TYPE_CHECKING:` stays empty: finding C15-F7)
          C0.methods.any (fun md => (sigLeaves md).any (fun n => ahas n IC)) &&
          -- no name that stays evaluated is one of the names taken out of the module-level imports
          C0.methods.all (fun md => (quotedSigNames IC md).all (fun n => !dn.contains n)) &&
          C0.methods.all (fun md => match shapeOf md with
            | some s => !dn.contains (opSourceName s) && (exNames s.variables).all (fun n => !dn.contains n)
            | none => true) &&
          -- the module-level import of the validated class is the one ClientForwardRefs recorded
          C0.methods.all (fun md => match shapeOf md with
            | some s =>
              (match alookup s.retClass IC with
               | some src => resolveRuntime { client := B0, ops := ops } s s.retClass == some (src, s.retClass)
               | none => true)
            | none => true)
        | none => false)
     | _, _ => false)
  | none => false

/-! ### membership in `Proved_15` (Properties/C15.lean) as a Bool — what the driver evaluates on every case
    (`proved15B_iff` of Properties/C15.lean: it IS `Proved_15`) -/

/-- a list made of the identity plugin, NoReimports and plugins satisfying `ok` -/
def onlyB (ok : PState → Bool) (ps : List PState) : Bool :=
  ps.all (fun p => (match p with | .identity => true | .noReimports => true | _ => false) || ok p)

def provedNoFwdB (x : Input) : Bool :=
  onlyB (fun _ => false) x.plugins ||
  (onlyB PState.isShorter x.plugins && genShapedS x) ||
  (onlyB PState.isExtract x.plugins && genShapedE x) ||
  (onlyB (fun p => p.isShorter || p.isExtract) x.plugins &&
    genShapedE { x with plugins := x.plugins.filter (fun p => !p.isShorter) } &&
    genShapedSR (x.plugins.filter (fun p => !p.isShorter)) x)

def proved15B (x : Input) : Bool :=
  provedNoFwdB x ||
  (match splitAtFwd x.plugins with
   | some (a, b) => onlyB PState.isExtract b && provedNoFwdB { x with plugins := a ++ b } && genShapedFR x
   | none => false)

end Ariadne.C15
