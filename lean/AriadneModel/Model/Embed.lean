/-
  Model of how an operation string becomes the `gql("""…""")` literal of a generated client
  method (and the constant of ExtractOperationsPlugin's operations module):

    client_generators/client.py  ClientGenerator._generate_operation_str_assign
        args=[[generate_constant(l + "\n") for l in operation_str.splitlines()]]
      -> one `ast.Constant` per line; `ast.unparse` writes the list as ADJACENT string literals
         `gql('line1\n''line2\n'…)` (each one `repr(line + "\n")`)
    contrib/extract_operations.py _get_operations_module: the same constants, `NAME = 'l1\n''l2\n'`,
        `_module_to_str` calls `format_multiline_strings(code, offset=0)`
    utils.py  ast_to_str(…, multiline_strings=True) -> format_multiline_strings -> for every regex
        match `.*?=.*?('.*?'\s*){2,}`: `orginal_str = re.search("'.*'", line)`, replaced by
        convert_to_multiline_string(orginal_str, get_variable_indent_size(line), offset):
            joined_source = source.replace("\\n", "\n").replace("'", "")
            joined_source += '"""' if joined_source.endswith("\n") else '\n"""'
            return '"""\n' + indent(joined_source, (variable_indent_size + offset) * " ")

  The rewriting is REGEX BASED TEXT PROCESSING OF PYTHON SOURCE.  Four classes of texts are damaged by it
  (findings C02-F1…F5, F8; each is a `Trig`, decided by `trigger`):

    blockString  the text contains `"""`               (closes the emitted literal early)
    quote        the text contains `'`                 (every `'` is deleted / the regex mis-pairs)
    escN         the text contains backslash + `n`     (`replace("\\n", "\n")` hits inside the line)
    lineSep      the text contains a `str.splitlines` separator other than `\n`
                 (U+2028/U+2029 are printed raw by graphql-core's `print_ast` inside string
                  literals: the literal is cut in two; the others can only come from block strings)

  MODELLED EXACTLY: every text without `'` and without `"""` — the safe texts AND the regions `escN` and
  `lineSep`.  There the two regexes act as on a safe text (one run of adjacent `'…'` literals, no `'` inside), and
  what is left is `str.replace`, `textwrap.indent` and Python's reading of the literal, all of which are in this
  file / Spec/PyStr.lean.  What comes out is described in closed form by `describedSent` (theorem
  `embed_described`, Proofs/EmbedBN.lean): every extra line separator has become a line break, and every
  backslash-`n` pair of a line has become "backslash, newline" in the literal, which Python reads as a line
  CONTINUATION — the two characters vanish and the indentation `textwrap.indent` put in front of the rest of
  the line takes their place (`"a\nb"` is sent as `"a            b"`: finding C02-F2; `"a\\nb"` as
  `"a\            b"`: C02-F3).
  DECLINED (`.unmodelled`, DESIGN.md §1.2) — `quote` and `blockString` only: there the outcome is decided by
  (i) the backtracking semantics of the two regexes `.*?=.*?('.*?'\s*){2,}` / `'.*'` over the whole unparsed
  statement when the quotes no longer pair up (`repr` switches to `"…"` for a line with `'` and no `"`, writes
  `\'` otherwise; an `=` in the text — a variable default — restarts the outer match), and (ii) whether Python's /
  black's PARSER accepts the damaged module (`InvalidInput` = an internal error instead of a client: F1, F4) —
  a parser of Python source is outside the model.  Those findings are demonstrated on the real code by the
  harness on every run and no theorem is claimed for them.

  `embed` is validated against the real `ast_to_str` on every run for texts of at least two lines — a printed
  operation has at least three; a single constant is not rewritten at all by `format_multiline_strings` (its
  regex asks for two or more adjacent literals).
  `vi` = `get_variable_indent_size` of the assignment (8 in a client method, 0 in the operations
  module), `off` = `multiline_strings_offset` (4 for `ast_to_str`, 0 for ExtractOperations).

  Core Lean only.
-/
import AriadneModel.Spec.PyStr

namespace Ariadne.Embed
open Ariadne.PyStr

inductive Trig where
  | blockString | quote | escN | lineSep
  deriving Repr, DecidableEq

/-- the regions in which the model declines to answer (see the header) -/
def Trig.declined : Trig → Bool
  | .blockString => true
  | .quote => true
  | .escN => false
  | .lineSep => false

def Trig.name : Trig → String
  | .blockString => "textBlockString"
  | .quote => "textQuote"
  | .escN => "textEscN"
  | .lineSep => "textLineSep"

/-- the text contains `"""` -/
def hasTQ : List Char → Bool
  | [] => false
  | c :: rest =>
    (c == '"' && match rest with
      | a :: b :: _ => a == '"' && b == '"'
      | _ => false) || hasTQ rest

/-- the text contains `'` -/
def hasQuote (q : List Char) : Bool := q.any (· == '\'')

/-- the text contains a backslash immediately followed by `n` -/
def hasBsN : List Char → Bool
  | [] => false
  | c :: rest =>
    (c == '\\' && match rest with
      | a :: _ => a == 'n'
      | _ => false) || hasBsN rest

/-- the text contains a `splitlines` separator other than `\n` -/
def hasExtraSep (q : List Char) : Bool := q.any fun c => isLineSep c && c != '\n'

def trigger (q : List Char) : Option Trig :=
  if hasTQ q then some .blockString
  else if hasQuote q then some .quote
  else if hasBsN q then some .escN
  else if hasExtraSep q then some .lineSep
  else none

/-- `[generate_constant(l + "\n") for l in operation_str.splitlines()]` -/
def constants (q : List Char) : List (List Char) := (splitlines q).map (· ++ ['\n'])

/-- `ast.unparse` of the adjacent constants -/
def unparseConsts (env : Char → Bool) (cs : List (List Char)) : List Char := cs.flatMap (reprStr env)

/-- `str.replace("\\n", "\n")`: leftmost, non-overlapping -/
def replaceBN : List Char → List Char
  | [] => []
  | '\\' :: 'n' :: rest => '\n' :: replaceBN rest
  | c :: rest => c :: replaceBN rest

/-- `str.replace("'", "")` -/
def deleteQuotes (s : List Char) : List Char := s.filter (· != '\'')

def tq : List Char := ['"', '"', '"']

/-- `convert_to_multiline_string(source, variable_indent_size, offset)` -/
def convert (vi off : Nat) (source : List Char) : List Char :=
  let joined := deleteQuotes (replaceBN source)
  let joined := if joined.getLast? == some '\n' then joined ++ tq else joined ++ '\n' :: tq
  tq ++ '\n' :: pyIndent (List.replicate (vi + off) ' ') joined

inductive Embedded where
  | ok (literal : List Char)        -- the `"""…"""` literal that replaces the adjacent constants
  | unmodelled (t : Trig)
  deriving Repr

/-- operation text ↦ emitted literal -/
def embed (env : Char → Bool) (vi off : Nat) (q : List Char) : Embedded :=
  match trigger q with
  | some .blockString => .unmodelled .blockString
  | some .quote => .unmodelled .quote
  | _ => .ok (convert vi off (unparseConsts env (constants q)))

/-- the string the generated method hands to the transport: the value of the emitted literal -/
def sentText (env : Char → Bool) (vi off : Nat) (q : List Char) : Option (List Char) :=
  match embed env vi off q with
  | .ok lit => evalTripleQuoted lit
  | .unmodelled _ => none

/-- what the sent text is expected to be: every line of the operation text, indented unless it
    consists of blanks only, behind a leading newline and followed by the indentation of the
    closing quotes -/
def indentLines (k : Nat) (ls : List (List Char)) : List Char :=
  ls.flatMap fun l => (if l.all (· == ' ') then l else List.replicate k ' ' ++ l) ++ ['\n']

def expectedSent (k : Nat) (q : List Char) : List Char :=
  '\n' :: (indentLines k (splitlines q) ++ List.replicate k ' ')

/-! ### the specification: the text, re-indented, character for character -/

/-- the lines of a text: only `\n` ends a line (a final `\n` does not open an empty last line) -/
def splitNL : List Char → List (List Char)
  | [] => []
  | c :: cs =>
    if c == '\n' then [] :: splitNL cs
    else
      match splitNL cs with
      | [] => [[c]]
      | l :: ls => (c :: l) :: ls

/-- what a correct embedding hands to the transport: every character of every line is kept.  Equal to
    `expectedSent` for texts without extra line separators (`expectedSent_eq_expectedText`). -/
def expectedText (k : Nat) (q : List Char) : List Char :=
  '\n' :: (indentLines k (splitNL q) ++ List.replicate k ' ')

/-! ### the description: what IS sent for a text without `'` and `"""` -/

/-- a line cut at every backslash-`n` pair (leftmost first, non-overlapping — `str.replace`), the pairs
    dropped: (first segment, further segments) -/
def segsBN : List Char → List Char × List (List Char)
  | [] => ([], [])
  | '\\' :: 'n' :: rest => ([], (segsBN rest).1 :: (segsBN rest).2)
  | c :: rest => (c :: (segsBN rest).1, (segsBN rest).2)

/-- what is sent for the segments of one line: a segment that ended in a backslash-`n` pair is followed directly
    (line continuation) by the indentation and the next segment; `textwrap.indent` indents such a segment always
    (its source line holds the backslash) and the last one unless it is blank -/
def sentSegs (k : Nat) (s : List Char) : List (List Char) → List Char
  | [] => (if s.all (· == ' ') then s else List.replicate k ' ' ++ s) ++ ['\n']
  | t :: ts => List.replicate k ' ' ++ (s ++ sentSegs k t ts)

def sentLine (k : Nat) (l : List Char) : List Char := sentSegs k (segsBN l).1 (segsBN l).2

/-- the text the transport receives, in closed form, for every text without `'` and `"""` -/
def describedSent (k : Nat) (q : List Char) : List Char :=
  '\n' :: ((splitlines q).flatMap (sentLine k) ++ List.replicate k ' ')

end Ariadne.Embed
