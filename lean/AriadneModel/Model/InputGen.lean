/-
  Model of the schema-driven generators whose output C19 compares across schema sources:
  `InputTypesGenerator._parse_input_definition`, `parse_input_field_type`,
  `parse_input_field_default_value`, `parse_input_const_value_node`
  (client_generators/input_types.py, input_fields.py) and `EnumsGenerator._parse_enum_definition`
  (client_generators/enums.py).

      def parse_input_field_default_value(node, annotation, field_type=""):
          if node and node.default_value:
              return parse_input_const_value_node(node=node.default_value, field_type=field_type)
          if (node and not isinstance(node.type, NonNullTypeNode)) or (
              isinstance(annotation, ast.Subscript) and isinstance(annotation.value, ast.Name)
              and annotation.value.id == OPTIONAL):
              return generate_constant(None)
          return None

  `node` is `field.ast_node`: the SDL node for a schema built by `build_ast_schema`, `None` for a
  schema built by `build_client_schema` (introspection).  That is the ONLY place where the client
  strategy reads something that differs between the two builders (`Tables.sourceSensitiveUses`,
  re-extracted from the source on every run; theorem `C19.ast_uses_confined`).

  The second modelled difference is in what the *introspection query that ariadne-codegen sends*
  asks for: `get_introspection_query(descriptions=False)` leaves graphql-core's default
  `input_value_deprecation=False`, so `inputFields` / `args` are requested without
  `includeDeprecated: true` and a spec-conformant server omits deprecated input fields and
  arguments (`Mode.intro false`).  The flag is read from the regenerated tables
  (`Introspect.queryFlag`), so the model follows the source if the call is changed.

  Not modelled here: Python names (`process_name`, aliases — C18's model; fields are identified by
  their GraphQL names and the correspondence runs with plain names), configured custom scalars
  (none configured: every non-built-in scalar is `Any`), plugins.  Core Lean only.
-/
import AriadneModel.Generated.Tables

namespace Ariadne.InputGen

inductive TypeRef where
  | named (n : String)
  | list (t : TypeRef)
  | nonNull (t : TypeRef)
  deriving Repr, DecidableEq

/-- GraphQL const value literals (`ConstValueNode`). `float` keeps the lexeme (`float(node.value)`). -/
inductive Lit where
  | int (v : Int)
  | float (lexeme : String)
  | str (s : String)
  | bool (b : Bool)
  | null
  | enum (v : String)
  | list (xs : List Lit)
  | obj (kvs : List (String × Lit))
  deriving Repr

/-- The Python expression emitted as the value of an input field. -/
inductive PyExpr where
  | none
  | int (v : Int)
  | float (lexeme : String)
  | str (s : String)
  | bool (b : Bool)
  | name (s : String)                                -- `Color.RED`
  | list (xs : List PyExpr)
  | dict (kvs : List (String × PyExpr))
  | fieldFactory (body : PyExpr)                     -- Field(default_factory=lambda: <body>)
  | fieldFactoryModel (ty : String) (arg : PyExpr)   -- Field(default_factory=lambda: globals()["ty"].model_validate(<arg>))
  deriving Repr

structure InputField where
  name : String
  type : TypeRef
  default : Option Lit
  deprecated : Bool
  deriving Repr

inductive TypeDef where
  | enum (name : String) (values : List String)
  | input (name : String) (fields : List InputField)
  | scalar (name : String)
  | composite (name : String)          -- object / interface / union: not an input type
  deriving Repr

def TypeDef.name : TypeDef → String
  | .enum n _ => n
  | .input n _ => n
  | .scalar n => n
  | .composite n => n

/-! ### default values -/

mutual
  /-- `parse_input_const_value_node(node, field_type, nested_list, nested_object)`. -/
  def constValue (ft : String) : Lit → Bool → Bool → PyExpr
    | .int v, _, _ => .int v
    | .float x, _, _ => .float x
    | .str s, _, _ => .str s
    | .bool b, _, _ => .bool b
    | .null, _, _ => .none
    | .enum v, _, _ => .name (ft ++ "." ++ v)
    | .list xs, nestedList, nestedObject =>
      if nestedList then .list (constValues ft xs nestedObject)
      else .fieldFactory (.list (constValues ft xs nestedObject))
    | .obj kvs, _, nestedObject =>
      if nestedObject then .dict (constFields ft kvs)
      else .fieldFactoryModel ft (.dict (constFields ft kvs))
  /-- items of a list literal: `nested_list=True`, `nested_object` inherited. -/
  def constValues (ft : String) : List Lit → Bool → List PyExpr
    | [], _ => []
    | x :: xs, nestedObject => constValue ft x true nestedObject :: constValues ft xs nestedObject
  /-- fields of an object literal: `nested_list=True, nested_object=True`. -/
  def constFields (ft : String) : List (String × Lit) → List (String × PyExpr)
    | [] => []
    | (k, v) :: rest => (k, constValue ft v true true) :: constFields ft rest
end

def TypeRef.isNonNull : TypeRef → Bool
  | .nonNull _ => true
  | _ => false

/-- innermost named type -/
def TypeRef.base : TypeRef → String
  | .named n => n
  | .list t => t.base
  | .nonNull t => t.base

/-- Which builder produced the schema the generator runs on.  `intro d`: introspection, where
    `d` says whether the query asked for deprecated input values. -/
inductive Mode where
  | sdl
  | intro (inputValueDeprecation : Bool)
  deriving Repr, DecidableEq

/-- `parse_input_field_default_value`.  `optionalAnn` = the annotation is `Optional[...]`, which
    `parse_input_field_type` produces exactly for types that are not `NonNull` at the top. -/
def fieldDefault (m : Mode) (ft : String) (f : InputField) : Option PyExpr :=
  let optionalAnn := !f.type.isNonNull
  match m with
  | .sdl =>
    match f.default with
    | some lit => some (constValue ft lit false false)
    | none => if !f.type.isNonNull || optionalAnn then some .none else none
  | .intro _ => if optionalAnn then some .none else none      -- node is None

/-! ### annotations -/

inductive Ann where
  | name (s : String)
  | fwd (s : String)          -- quoted forward reference `"In2"`
  | optional (a : Ann)
  | list (a : Ann)
  deriving Repr, DecidableEq

def Ann.render : Ann → String
  | .name s => s
  | .fwd s => "\"" ++ s ++ "\""
  | .optional a => "Optional[" ++ a.render ++ "]"
  | .list a => "List[" ++ a.render ++ "]"

inductive Kind where
  | scalar (py : String)
  | enum
  | input
  | composite
  | unknown
  deriving Repr, DecidableEq

def specifiedScalars : List String := ["String", "Int", "Float", "Boolean", "ID"]

def findDef (defs : List TypeDef) (n : String) : Option TypeDef := defs.find? (fun d => d.name == n)

/-- how graphql-core resolves a type name (by name, through `type_map`) and what
    `parse_input_field_type` makes of the result when no custom scalar is configured -/
def kindOf (defs : List TypeDef) (n : String) : Kind :=
  match findDef defs n with
  | some (.enum _ _) => .enum
  | some (.input _ _) => .input
  | some (.composite _) => .composite
  | some (.scalar _) => .scalar ((Tables.inputScalarsMap.lookup n).getD "Any")
  | none => if specifiedScalars.contains n then .scalar ((Tables.inputScalarsMap.lookup n).getD "Any") else .unknown

def wrapNullable (nullable : Bool) (a : Ann) : Ann := if nullable then .optional a else a

/-- `parse_input_field_type(type_, nullable)`: annotation and `field_type` name; `none` = ParsingError
    ("Invalid input field type.") or an unknown type name (graphql-core refuses to build the schema). -/
def annOf (kinds : String → Kind) : TypeRef → Bool → Option (Ann × String)
  | .named n, nullable =>
    match kinds n with
    | .scalar py => some (wrapNullable nullable (.name py), "")
    | .input => some (wrapNullable nullable (.fwd n), n)
    | .enum => some (wrapNullable nullable (.name n), n)
    | .composite => none
    | .unknown => none
  | .list t, nullable =>
    match annOf kinds t nullable with         -- sic: the element inherits the list's nullability
    | some (a, ft) => some (wrapNullable nullable (.list a), ft)
    | none => none
  | .nonNull t, _ => annOf kinds t false

structure FieldDecl where
  name : String
  ann : Ann
  default : Option PyExpr      -- `none`: no value, the field is required
  deriving Repr

/-- one iteration of the loop of `_parse_input_definition` -/
def genField (m : Mode) (kinds : String → Kind) (f : InputField) : Option FieldDecl :=
  match annOf kinds f.type true with
  | none => none
  | some (a, ft) => some ⟨f.name, a, fieldDefault m ft f⟩

/-- the input fields graphql-core's schema object has: all of them for SDL; for introspection the
    ones the server returned for the query that was sent -/
def visibleFields (m : Mode) (fs : List InputField) : List InputField :=
  match m with
  | .sdl => fs
  | .intro true => fs
  | .intro false => fs.filter (fun f => !f.deprecated)

structure ClassResult where
  name : String
  fields : List (Option FieldDecl)     -- `none` at the first position raises ParsingError
  deriving Repr

def genInput (m : Mode) (kinds : String → Kind) (name : String) (fs : List InputField) : ClassResult :=
  ⟨name, (visibleFields m fs).map (genField m kinds)⟩

/-- one entry per input object type of the schema (the real generator walks `schema.type_map`,
    whose order is graphql-core's; C19 compares class *sets*) -/
def inputOf (m : Mode) (kinds : String → Kind) : TypeDef → Option ClassResult
  | .input n fs => some (genInput m kinds n fs)
  | _ => none

def inputResultsK (m : Mode) (kinds : String → Kind) (defs : List TypeDef) : List ClassResult :=
  defs.filterMap (inputOf m kinds)

def inputResults (m : Mode) (defs : List TypeDef) : List ClassResult := inputResultsK m (kindOf defs) defs

structure EnumDecl where
  name : String
  members : List (String × String)       -- (python member name, value)
  deriving Repr, DecidableEq

/-- `_parse_enum_definition`: `name = val_name if not iskeyword(val_name) else val_name + "_"`. -/
def genEnum (name : String) (values : List String) : EnumDecl :=
  ⟨name, values.map fun v => (if Tables.kwlist.contains v then v ++ "_" else v, v)⟩

def enumResults (defs : List TypeDef) : List EnumDecl :=
  defs.filterMap fun
    | .enum n vs => some (genEnum n vs)
    | _ => none

/-! ### finding triggers (decidable; the Python twins are in harness/c19.py) -/

/-- the field has a default that the SDL path emits and the introspection path cannot see:
    any default except the literal `null` on a nullable type (finding C19-F1) -/
def effectiveDefault (f : InputField) : Bool :=
  match f.default with
  | none => false
  | some .null => f.type.isNonNull
  | some _ => true

def trigDefaultLost (defs : List TypeDef) : Bool :=
  defs.any fun
    | .input _ fs => fs.any effectiveDefault
    | _ => false

/-- a deprecated input field that the introspection query does not ask for (finding C19-F4) -/
def trigDeprecatedInput (inputValueDeprecation : Bool) (defs : List TypeDef) : Bool :=
  !inputValueDeprecation && defs.any fun
    | .input _ fs => fs.any (·.deprecated)
    | _ => false

end Ariadne.InputGen
