/-
  Model of `ClientGenerator.add_method` / `get_variable_names` (client_generators/client.py):
  which method is emitted for an operation, as far as the request it sends is concerned (C03).

      def get_variable_names(self, arguments):
          mapped_variable_names = ["query", "variables", "response", "data"]     # the four method locals
          argument_names = set(arg.arg for arg in arguments.args)                 # incl. "self", NOT "kwargs"
          return {v: f"_{v}" if v in argument_names else v for v in mapped_variable_names}

      def add_method(self, definition, name, return_type, return_type_module, operation_str, async_=True):
          arguments, arguments_dict = self.arguments_generator.generate(definition.variable_definitions)
          variable_names = self.get_variable_names(arguments)
          operation_name = definition.name.value if definition.name else ""
          subscription: if not async_: raise NotSupported(...) else _generate_subscription_method_def
          async_:       _generate_async_method      else: _generate_method

  Body of every emitted method (`L` = the possibly renamed locals):

          L.query = gql(<operation string>)
          L.variables: Dict[str, object] = {<org name>: <py name> | <serialize>(<py name>), …}
          L.response = [await] self.execute(query=L.query, operation_name=<op name>, variables=L.variables, **kwargs)
          L.data = self.get_data(L.response)
          return <ReturnType>.model_validate(L.data)
      subscription:
          L.query = …; L.variables = …
          async for L.data in self.execute_ws(query=L.query, operation_name=…, variables=L.variables, **kwargs):
              yield <ReturnType>.model_validate(L.data)

  Core Lean only.
-/
import AriadneModel.Model.Arguments

namespace Ariadne.ClientMethod
open Ariadne Ariadne.Arguments

/-- the names of the four method locals after `get_variable_names` -/
structure Locals where
  query : String
  variables : String
  response : String
  data : String
  deriving Repr, DecidableEq, Inhabited

def rename (argNames : List String) (v : String) : String := if argNames.contains v then "_" ++ v else v

/-- `get_variable_names`; `argNames` = `[a.arg for a in arguments.args]` (starts with `self`) -/
def getVariableNames (argNames : List String) : Locals :=
  ⟨rename argNames "query", rename argNames "variables", rename argNames "response", rename argNames "data"⟩

inductive MKind where
  | sync | async | subscription
  deriving Repr, DecidableEq, Inhabited

/-- what `add_method` appends to the client class (the parts that decide what is sent) -/
structure Method where
  name : String
  kind : MKind
  out : Out                     -- signature (without `self`, `**kwargs`) and `variables` dict
  locals : Locals
  opText : String               -- the operation string handed to `gql(...)`
  opName : String               -- `operation_name=` constant
  returnType : String
  deriving Repr, DecidableEq, Inhabited

def selfName : String := "self"

def Method.argNames (m : Method) : List String := selfName :: m.out.params.map (·.py)

inductive OpType where
  | query | mutation | subscription
  deriving Repr, DecidableEq, Inhabited

/-- `add_method` (returns the method and the arguments generator's lists afterwards) -/
def addMethod (env : Env) (opType : OpType) (opName : Option String) (defs : List VarDef)
    (name returnType opText : String) (async : Bool) (st : St) : Except GenErr (Method × St) :=
  match generate env defs st with
  | .error e => .error e
  | .ok (out, st) =>
    let locals := getVariableNames (selfName :: out.params.map (·.py))
    let mk (k : MKind) : Method := ⟨name, k, out, locals, opText, opName.getD "", returnType⟩
    match opType with
    | .subscription =>
      if async then .ok (mk .subscription, st)
      else .error (.notSupported "Subscriptions are only available when using async client.")
    | _ => .ok (mk (if async then .async else .sync), st)

end Ariadne.ClientMethod
