/-
  The VARIABLES side of `execute` on OBJECTS (core Lean only; the C11 driver links it).

  `Model/BaseClient.lean` is value-level: a `PV` is a tree, an Upload is its identity tag and nothing
  else.  Two things the property quantifies over are invisible there:

  (1) ALIASING AND OWNERSHIP OF CONTAINERS.  The caller's `variables` is a graph of dict/list objects:
      one nested dict may be referenced from two places, and the same objects are handed to a second
      call (a retry, another client).  `_convert_dict_to_json_serializable`, `_convert_value` and
      `separate_files` are modelled here statement by statement on a store of container objects
      (`OStore`; address = position, allocation = append, `nulled_list.append(v)` /
      `nulled_dict[key] = v` = a write at an address).  What they are given (`Val`) is a reference to
      a container object or an immediate value.  Note that `_convert_value` RETURNS THE CALLER'S OWN
      dict objects (it rebuilds the top-level dict, lists, and dumps models — nothing else), so
      `separate_files` walks caller-owned objects: that it never writes one of them is a theorem about
      this code (Proofs/BaseClientObjects.lean: every address that existed before the call holds what
      it held), not the shape of the definitions — the variant that assigns into the container it
      walks (`sepInPlaceS` below, same vocabulary) does not have it.

          def separate_files(path, obj):
              if isinstance(obj, list):
                  nulled_list = []                                   # alloc
                  for index, value in enumerate(obj):
                      value = separate_files(f"{path}.{index}", value)
                      nulled_list.append(value)                      # write at nulled_list's address
                  return nulled_list
              if isinstance(obj, dict):
                  nulled_dict = {}                                   # alloc
                  for key, value in obj.items():
                      value = separate_files(f"{path}.{key}", value)
                      nulled_dict[key] = value                       # write at nulled_dict's address
                  return nulled_dict
              if isinstance(obj, Upload): ...; return None
              return obj

      The loops iterate over the items the container holds when the loop starts; the recursion follows
      references, so it takes fuel (Python: the interpreter's recursion limit — a cyclic `variables`
      raises RecursionError; `none` here).  `value.model_dump(...)` is pydantic's and returns a tree of
      containers nobody else holds (checked on the real objects by harness/c11.py): such a tree is an
      immediate `PV` and is processed by the value-level functions.

  (2) `==` ON UPLOAD OBJECTS.  `if obj in files_list: file_index = files_list.index(obj)` compares with
      `x is obj or x == obj`.  `sepG eqv` is `separate_files` under an arbitrary answer `eqv` of that
      comparison; `class Upload` (base_model.py) defines no `__eq__`
      (Generated/UploadTables.lean, re-extracted from the working tree on every run; theorem
      `upload_class_compares_by_identity` in Properties/C11.lean), so the comparison of the code that
      exists is identity, `uploadEq`, whatever the fields of the two objects are — and
      Proofs/BaseClientObjects.lean shows that under any `==` that equates two different Upload objects
      one of them is not sent.  Upload objects carry their fields (`UploadObj`) so that "the file part
      of an Upload is made of that object's own filename / content / content_type" is a statement.
-/
import AriadneModel.Model.BaseClientHeap

namespace Ariadne.BaseClient
open Ariadne

/-! ### `separate_files` under an arbitrary `==` of Upload objects -/

/-- `if obj in files_list: i = files_list.index(obj); files_map[str(i)].append(path)
     else: files_list.append(obj); files_map[str(len - 1)] = [path]`
    where `eqv x obj` is what `x is obj or x == obj` answers. -/
def addPathG (eqv : Nat → Nat → Bool) (id : Nat) (p : String) : List Entry → List Entry
  | [] => [⟨id, [p]⟩]
  | e :: es => if eqv e.id id then ⟨e.id, e.paths ++ [p]⟩ :: es else e :: addPathG eqv id p es

mutual
  def sepG (eqv : Nat → Nat → Bool) (path : String) : PV → List Entry → PV × List Entry
    | .list xs, st => let r := sepListG eqv path 0 xs st; (.list r.1, r.2)
    | .dict kvs, st => let r := sepDictG eqv path kvs st; (.dict r.1, r.2)
    | .upload i, st => (.none, addPathG eqv i path st)
    | .none, st => (.none, st)
    | .unset, st => (.unset, st)
    | .bool b, st => (.bool b, st)
    | .num m e, st => (.num m e, st)
    | .str s, st => (.str s, st)
    | .model d j, st => (.model d j, st)
    | .leaf j, st => (.leaf j, st)
  def sepListG (eqv : Nat → Nat → Bool) (path : String) (i : Nat) : List PV → List Entry → List PV × List Entry
    | [], st => ([], st)
    | x :: xs, st =>
      let r := sepG eqv (path ++ "." ++ toString i) x st
      let r2 := sepListG eqv path (i + 1) xs r.2
      (r.1 :: r2.1, r2.2)
  def sepDictG (eqv : Nat → Nat → Bool) (path : String) : List (String × PV) → List Entry → List (String × PV) × List Entry
    | [], st => ([], st)
    | (k, x) :: rest, st =>
      let r := sepG eqv (path ++ "." ++ k) x st
      let r2 := sepDictG eqv path rest r.2
      ((k, r.1) :: r2.1, r2.2)
end

/-- `_process_variables` under an arbitrary `==` of Upload objects -/
def processVariablesG (eqv : Nat → Nat → Bool) : Option (List (String × PV)) → List (String × PV) × List Entry
  | none => ([], [])
  | some [] => ([], [])
  | some kvs => sepDictG eqv "variables" (convertDict kvs) []

/-- An `Upload` object: the three attributes `__init__` sets (`content` is a file object: its identity). -/
structure UploadObj where
  filename : String
  contentType : String
  stream : Nat
  deriving Repr, DecidableEq

/-- `x is obj or x == obj` for two Upload objects (addresses): `Upload` defines no `__eq__`, so `==` is
    `object.__eq__` — identity, whatever the attributes of the two objects are. -/
def uploadEq (a b : Nat) : Bool := a == b

/-- `files = {str(i): (file_.filename, file_.content, file_.content_type) for i, file_ in enumerate(files_list)}`;
    `none` for an entry that names no Upload object. -/
def filesDict (ups : List UploadObj) (i : Nat) : List Entry → List (String × Option (String × Nat × String))
  | [] => []
  | e :: es => (toString i, (ups[e.id]?).map fun u => (u.filename, u.stream, u.contentType)) :: filesDict ups (i + 1) es

/-! ### container objects -/

/-- what a variable, a list item or a dict value IS: a reference to a list/dict object of the store, or
    anything else (None, UNSET, bool, number, str, an Upload — its tag is its address in the table of
    Upload objects —, a pydantic model instance, any other object).  An immediate `PV` that is itself
    a list/dict stands for a container nobody else holds; only `model_dump` produces those. -/
inductive Val where
  | ref (a : Nat)
  | imm (v : PV)
  deriving Inhabited

inductive Obj where
  | list (xs : List Val)
  | dict (kvs : List (String × Val))
  deriving Inhabited

/-- list and dict objects; address = position -/
abbrev OStore := List Obj

def Val.isUnset : Val → Bool
  | .imm .unset => true
  | _ => false

/-! #### reading: the tree a value denotes -/

def derefList (f : Val → Option PV) : List Val → Option (List PV)
  | [] => some []
  | x :: xs => match f x, derefList f xs with
    | some v, some vs => some (v :: vs)
    | _, _ => none

def derefKvs (f : Val → Option PV) : List (String × Val) → Option (List (String × PV))
  | [] => some []
  | (k, x) :: rest => match f x, derefKvs f rest with
    | some v, some vs => some ((k, v) :: vs)
    | _, _ => none

/-- the tree below a value, following at most `fuel` references on any branch (`none`: a dangling
    reference, or deeper than that — in particular a cyclic structure) -/
def derefV (s : OStore) : Nat → Val → Option PV
  | _, .imm v => some v
  | 0, .ref _ => none
  | f + 1, .ref a =>
    match s[a]? with
    | some (.list xs) => (derefList (derefV s f) xs).map PV.list
    | some (.dict kvs) => (derefKvs (derefV s f) kvs).map PV.dict
    | none => none

/-! #### `_convert_value`, `_convert_dict_to_json_serializable` on objects -/

/-- `[self._convert_value(item) for item in value]` -/
def convertItemsS (rec : Val → OStore → Option (Val × OStore)) : List Val → OStore → Option (List Val × OStore)
  | [], s => some ([], s)
  | x :: xs, s =>
    match rec x s with
    | none => none
    | some (y, s1) =>
      match convertItemsS rec xs s1 with
      | none => none
      | some (ys, s2) => some (y :: ys, s2)

/-- `_convert_value`: a model is dumped (a tree of its own), a list is REBUILT (a new list object holding
    the converted items), anything else — a dict object in particular — is returned AS IT IS. -/
def convertValueS : Nat → Val → OStore → Option (Val × OStore)
  | _, .imm v, s => some (.imm (convertValue v), s)
  | 0, .ref _, _ => none
  | f + 1, .ref a, s =>
    match s[a]? with
    | some (.list xs) =>
      match convertItemsS (convertValueS f) xs s with
      | none => none
      | some (ys, s1) => some (.ref s1.length, s1 ++ [.list ys])
    | some (.dict _) => some (.ref a, s)
    | none => none

/-- `{key: self._convert_value(value) for key, value in dict_.items() if value is not UNSET}` -/
def convertDictItemsS (rec : Val → OStore → Option (Val × OStore)) :
    List (String × Val) → OStore → Option (List (String × Val) × OStore)
  | [], s => some ([], s)
  | (k, x) :: rest, s =>
    if x.isUnset then convertDictItemsS rec rest s
    else
      match rec x s with
      | none => none
      | some (y, s1) =>
        match convertDictItemsS rec rest s1 with
        | none => none
        | some (ys, s2) => some ((k, y) :: ys, s2)

/-! #### `separate_files` on objects -/

/-- the store and `(files_list, files_map)` -/
abbrev SepSt := OStore × List Entry

/-- `store[a].append(v)` -/
def appendAt (a : Nat) (v : Val) (s : OStore) : Option OStore :=
  match s[a]? with
  | some (.list xs) => some (s.set a (.list (xs ++ [v])))
  | _ => none

/-- `store[a][k] = v` for a key the dict does not hold yet (the keys of `obj.items()` are distinct) -/
def insertAt (a : Nat) (k : String) (v : Val) (s : OStore) : Option OStore :=
  match s[a]? with
  | some (.dict kvs) => some (s.set a (.dict (kvs ++ [(k, v)])))
  | _ => none

/-- `for index, value in enumerate(obj): value = separate_files(f"{path}.{index}", value); nulled_list.append(value)`
    with `nulled_list` at address `own` -/
def sepLoopList (rec : String → Val → SepSt → Option (Val × SepSt)) (path : String) (own : Nat) :
    Nat → List Val → SepSt → Option SepSt
  | _, [], st => some st
  | i, x :: xs, st =>
    match rec (path ++ "." ++ toString i) x st with
    | none => none
    | some (v, (s1, es1)) =>
      match appendAt own v s1 with
      | none => none
      | some s2 => sepLoopList rec path own (i + 1) xs (s2, es1)

/-- `for key, value in obj.items(): value = separate_files(f"{path}.{key}", value); nulled_dict[key] = value`
    with `nulled_dict` at address `own` -/
def sepLoopDict (rec : String → Val → SepSt → Option (Val × SepSt)) (path : String) (own : Nat) :
    List (String × Val) → SepSt → Option SepSt
  | [], st => some st
  | (k, x) :: rest, st =>
    match rec (path ++ "." ++ k) x st with
    | none => none
    | some (v, (s1, es1)) =>
      match insertAt own k v s1 with
      | none => none
      | some s2 => sepLoopDict rec path own rest (s2, es1)

/-- `separate_files(path, obj)` on objects, under the comparison `eqv` of Upload objects. -/
def sepS (eqv : Nat → Nat → Bool) : Nat → String → Val → SepSt → Option (Val × SepSt)
  | _, path, .imm v, st => let r := sepG eqv path v st.2; some (.imm r.1, (st.1, r.2))
  | 0, _, .ref _, _ => none
  | f + 1, path, .ref a, st =>
    match st.1[a]? with
    | some (.list xs) =>
      let own := st.1.length                                         -- nulled_list = []
      (sepLoopList (sepS eqv f) path own 0 xs (st.1 ++ [.list []], st.2)).map fun st' => (.ref own, st')
    | some (.dict kvs) =>
      let own := st.1.length                                         -- nulled_dict = {}
      (sepLoopDict (sepS eqv f) path own kvs (st.1 ++ [.dict []], st.2)).map fun st' => (.ref own, st')
    | none => none

/-- `_process_variables` on objects: `root` is the address of the dict passed as `variables` (`none` =
    `variables=None`).  Returns the tree `json.dumps` walks (`nulled_variables`, read off the store),
    the store afterwards and `(files_list, files_map)`; `none`: `root` names no dict object, or the
    structure is deeper than `fuel + 1` references. -/
def processVariablesS (eqv : Nat → Nat → Bool) (fuel : Nat) (s : OStore) :
    Option Nat → Option (List (String × PV) × OStore × List Entry)
  | none => some ([], s, [])                                         -- `if not variables: return {}, {}, {}`
  | some a =>
    match s[a]? with
    | some (.dict []) => some ([], s, [])
    | some (.dict kvs) =>
      match convertDictItemsS (convertValueS fuel) kvs s with
      | none => none
      | some (kvs1, s1) =>
        let d1 := s1.length                                          -- `serializable_variables`: a new dict object
        match sepS eqv (fuel + 1) "variables" (.ref d1) (s1 ++ [.dict kvs1], []) with
        | none => none
        | some (r, (s2, es)) =>
          match derefV s2 (fuel + 1) r with
          | some (.dict vars) => some (vars, s2, es)
          | _ => none
    | _ => none

/-! #### the write-where-you-walk variant (NOT the code; the counter-model of the frame theorems) -/

/-- `store[a][i] = v` -/
def setIndexAt (a i : Nat) (v : Val) (s : OStore) : Option OStore :=
  match s[a]? with
  | some (.list xs) => if i < xs.length then some (s.set a (.list (xs.set i v))) else none
  | _ => none

def setKeyV (k : String) (v : Val) : List (String × Val) → List (String × Val)
  | [] => [(k, v)]
  | (k', v') :: rest => if k' = k then (k', v) :: rest else (k', v') :: setKeyV k v rest

/-- `store[a][k] = v` -/
def setKeyAt (a : Nat) (k : String) (v : Val) (s : OStore) : Option OStore :=
  match s[a]? with
  | some (.dict kvs) => some (s.set a (.dict (setKeyV k v kvs)))
  | _ => none

/-- `for index, value in enumerate(obj): obj[index] = separate_files(f"{path}.{index}", value)` -/
def sepLoopListIP (rec : String → Val → SepSt → Option (Val × SepSt)) (path : String) (a : Nat) :
    Nat → List Val → SepSt → Option SepSt
  | _, [], st => some st
  | i, x :: xs, st =>
    match rec (path ++ "." ++ toString i) x st with
    | none => none
    | some (v, (s1, es1)) =>
      match setIndexAt a i v s1 with
      | none => none
      | some s2 => sepLoopListIP rec path a (i + 1) xs (s2, es1)

/-- `for key, value in obj.items(): obj[key] = separate_files(f"{path}.{key}", value)` -/
def sepLoopDictIP (rec : String → Val → SepSt → Option (Val × SepSt)) (path : String) (a : Nat) :
    List (String × Val) → SepSt → Option SepSt
  | [], st => some st
  | (k, x) :: rest, st =>
    match rec (path ++ "." ++ k) x st with
    | none => none
    | some (v, (s1, es1)) =>
      match setKeyAt a k v s1 with
      | none => none
      | some s2 => sepLoopDictIP rec path a rest (s2, es1)

/-- `separate_files` rewritten to null the files where they are and return the container it walked -/
def sepInPlaceS (eqv : Nat → Nat → Bool) : Nat → String → Val → SepSt → Option (Val × SepSt)
  | _, path, .imm v, st => let r := sepG eqv path v st.2; some (.imm r.1, (st.1, r.2))
  | 0, _, .ref _, _ => none
  | f + 1, path, .ref a, st =>
    match st.1[a]? with
    | some (.list xs) => (sepLoopListIP (sepInPlaceS eqv f) path a 0 xs st).map fun st' => (.ref a, st')
    | some (.dict kvs) => (sepLoopDictIP (sepInPlaceS eqv f) path a kvs st).map fun st' => (.ref a, st')
    | none => none

/-- `_process_variables` with that variant in place of `separate_files` -/
def processVariablesInPlaceS (eqv : Nat → Nat → Bool) (fuel : Nat) (s : OStore) :
    Option Nat → Option (List (String × PV) × OStore × List Entry)
  | none => some ([], s, [])
  | some a =>
    match s[a]? with
    | some (.dict []) => some ([], s, [])
    | some (.dict kvs) =>
      match convertDictItemsS (convertValueS fuel) kvs s with
      | none => none
      | some (kvs1, s1) =>
        let d1 := s1.length
        match sepInPlaceS eqv (fuel + 1) "variables" (.ref d1) (s1 ++ [.dict kvs1], []) with
        | none => none
        | some (r, (s2, es)) =>
          match derefV s2 (fuel + 1) r with
          | some (.dict vars) => some (vars, s2, es)
          | _ => none
    | _ => none

/-! ### `execute` on objects -/

/-- Everything a caller can share between calls, as objects. -/
structure OHeap where
  hdrs : Store                                   -- dicts passed as `headers=`
  objs : OStore                                  -- the list/dict objects the `variables` arguments are made of
  ups : List UploadObj                           -- the Upload objects (address = the `upload` tag)

/-- the headers argument of a call, by value (`none`: dangling) -/
def OHeap.headers? (h : OHeap) (c : HCall) : Option (Option HDict) :=
  match c.headers with
  | none => some none
  | some a => (h.hdrs[a]?).map some

/-- the variables argument of a call, by value, following at most `fuel + 1` references on a branch -/
def OHeap.variables? (h : OHeap) (fuel : Nat) (c : HCall) : Option (Option (List (String × PV))) :=
  match c.variables with
  | none => some none
  | some a =>
    match derefV h.objs (fuel + 1) (.ref a) with
    | some (.dict kvs) => some (some kvs)
    | _ => none

/-- dereference: the value-level call the caller *meant* (contents of the objects at call time) -/
def OHeap.call? (h : OHeap) (fuel : Nat) (c : HCall) : Option Call :=
  match h.variables? fuel c, h.headers? c with
  | some v, some hd => some { query := c.query, opName := c.opName, variables := v, headers := hd, kwargs := c.kwargs }
  | _, _ => none

inductive OResult where
  /-- client object after the call, the caller's objects after the call, what was sent, and the `files`
      dict handed to httpx -/
  | ok (cl : Client) (h : OHeap) (r : Request) (files : List (String × Option (String × Nat × String)))
  /-- an argument names no object (outside Python's states), or `variables` is nested deeper than the
      fuel allows (Python: RecursionError beyond the interpreter's limit, e.g. a cyclic structure) -/
  | illFormed

/-- the `files=` argument: only a multipart request carries one -/
def filesFor (ups : List UploadObj) (es : List Entry) : Request → List (String × Option (String × Nat × String))
  | .multipart .. => filesDict ups 0 es
  | _ => []

/-- `execute` after `_process_variables` returned `vars`, the store `s'` and `es`.  The caller keeps the
    addresses it had (`take`): objects allocated during the call are unreachable for it. -/
def finishO (cl : Client) (h : OHeap) (c : HCall) (hd : Option HDict) (vars : List (String × PV)) (s' : OStore)
    (es : List Entry) : OResult :=
  let call : Call := { query := c.query, opName := c.opName, variables := none, headers := hd, kwargs := c.kwargs }
  let objs' := s'.take h.objs.length
  if cl.kind.isOT && cl.tracer && (toJsonKvs vars).isNone then
    .ok cl { h with objs := objs' } .serializationError []        -- the span attribute `json.dumps(variables)` raised
  else if es.isEmpty then
    match executeJsonH cl h.hdrs c.headers call vars with
    | none => .illFormed
    | some (hd', rq) => .ok cl { h with hdrs := hd', objs := objs' } rq []
  else
    let rq := executeMultipart cl call vars es
    .ok cl { h with objs := objs' } rq (filesFor h.ups es rq)

/-- `execute` on objects.  The arguments must name objects and `variables` must be nested no deeper than
    `fuel + 1` references (`call?`); then the code runs on the store. -/
def executeO (fuel : Nat) (cl : Client) (h : OHeap) (c : HCall) : OResult :=
  match h.call? fuel c with
  | none => .illFormed
  | some _ =>
    match h.headers? c, processVariablesS uploadEq fuel h.objs c.variables with
    | some hd, some (vars, s', es) => finishO cl h c hd vars s' es
    | _, _ => .illFormed

/-- the same with the write-where-you-walk `separate_files` (counter-model) -/
def executeInPlaceO (fuel : Nat) (cl : Client) (h : OHeap) (c : HCall) : OResult :=
  match h.call? fuel c with
  | none => .illFormed
  | some _ =>
    match h.headers? c, processVariablesInPlaceS uploadEq fuel h.objs c.variables with
    | some hd, some (vars, s', es) => finishO cl h c hd vars s' es
    | _, _ => .illFormed

/-- Calls one after the other, each on its own client (any of the four kinds), all sharing one heap of
    objects: the heap at the end and what each call sent (`none`: ill-formed). -/
def runSeqO (fuel : Nat) : OHeap → List (Client × HCall) → OHeap × List (Option Request)
  | h, [] => (h, [])
  | h, (cl, c) :: rest =>
    match executeO fuel cl h c with
    | .ok _ h' r _ => let out := runSeqO fuel h' rest; (out.1, some r :: out.2)
    | .illFormed => let out := runSeqO fuel h rest; (out.1, none :: out.2)

def runSeqInPlaceO (fuel : Nat) : OHeap → List (Client × HCall) → OHeap × List (Option Request)
  | h, [] => (h, [])
  | h, (cl, c) :: rest =>
    match executeInPlaceO fuel cl h c with
    | .ok _ h' r _ => let out := runSeqInPlaceO fuel h' rest; (out.1, some r :: out.2)
    | .illFormed => let out := runSeqInPlaceO fuel h rest; (out.1, none :: out.2)

end Ariadne.BaseClient
