/-
  Model/OrderResult.lean — the set-fed emission points INSIDE one result module
  (`client_generators/result_types.py`, `result_fields.py`) and the ORDERED configuration list that
  decides in which order plugin hooks rewrite everything (`plugins/explorer.py`, `plugins/manager.py`).
  Property C10; companion of Model/Order.lean (same enumeration-oracle discipline: a Python `set` is a
  listing of its elements and the code may only look at `e listing`, `EnumOK e`).

  Core Lean only (the C10 driver links this file).

  Modelled source (quoted next to each definition):
    client_generators/result_types.py   _parse_type_definition (class bases out of the set `fragments`),
                                        _get_typename_values (`list(set(possible) - set(types_names))`),
                                        get_operation_as_str / _get_all_related_fragments
    client_generators/result_fields.py  generate_typename_annotation (`sorted(typename_values)`)
    client_generators/custom_generator_utils.py  TypeCollector.collect (`sorted(self.collected_types)`)
    plugins/explorer.py                 get_plugins_types, get_plugins_types_from_module
    plugins/manager.py                  PluginManager.__init__, _apply_plugins_on_object
-/
import AriadneModel.Model.Order
import AriadneModel.Spec.Isort

namespace Ariadne.Order
open Ariadne.Isort

/-! ### result_types.py — `_parse_type_definition`: the bases of a generated result class

```python
resolved_selection_set, fragments = self._resolve_selection_set(selection_set, type_name)   # fragments: Set[str]
...
if fragments:
    class_bases = [str_to_pascal_case(f) for f in sorted(fragments)]
else:
    class_bases = [BASE_MODEL_CLASS_NAME]
if extra_bases:
    class_bases.extend(extra_bases)
class_def = generate_class_def(class_name, class_bases)
```
`fragments` is a listing of the set of spread fragments that are kept as mixins; `extraBases` comes from
`@mixin` directives (a list, document order). -/
def classBases (e : EnumOracle) (pascal : Name → Name) (baseModel : Name) (fragments extraBases : List Name) : List Name :=
  (if fragments.isEmpty then [baseModel] else (pySorted (e fragments)).map pascal) ++ extraBases

/-! ### result_types.py — `_get_typename_values`, result_fields.py — `generate_typename_annotation`

```python
types_names = [rc.type_name for rc in field_context.related_classes]
result = {name: [name] for name in types_names}
abstract_type = next(filter(is_abstract_type, [self.schema.type_map[n] for n in types_names]), None)
if not abstract_type: return result
possible_types_names = [t.name for t in self.schema.get_possible_types(abstract_type)]
types_without_class = list(set(possible_types_names) - set(types_names))
result[abstract_type.name].extend(types_without_class)

def generate_typename_annotation(typename_values):
    elts = [generate_name(f'"{v}"') for v in sorted(typename_values)]          # Literal["A", "B", ...]
```
-/

/-- `list(set(possible) - set(types_names))`: a listing of the difference, in the oracle's order -/
def typesWithoutClass (e : EnumOracle) (possible typesNames : List Name) : List Name :=
  e ((dedupFirst possible).filter (fun n => !typesNames.contains n))

/-- `_get_typename_values`: the dictionary `type name ↦ values` (insertion order = `types_names`; a
    repeated name is one key).  `abstract = none`: no related class is an abstract type. -/
def typenameValues (e : EnumOracle) (typesNames : List Name) (abstract : Option Name) (possible : List Name) :
    List (Name × List Name) :=
  (dedupFirst typesNames).map (fun n =>
    (n, if abstract = some n then n :: typesWithoutClass e possible typesNames else [n]))

/-- `generate_typename_annotation`: the elements of `Literal[...]` -/
def typenameLiteral (values : List Name) : List Name := pySorted values

/-- what reaches the file: for every related class the elements of its `typename__: Literal[...]` -/
def typenameLiterals (e : EnumOracle) (typesNames : List Name) (abstract : Option Name) (possible : List Name) :
    List (Name × List Name) :=
  (typenameValues e typesNames abstract possible).map (fun p => (p.1, typenameLiteral p.2))

/-! ### result_types.py — `get_operation_as_str`: the fragment definitions appended to the operation text

```python
if self._fragments_used_as_mixins or self._unpacked_fragments:
    for used_fragment in sorted(self._get_all_related_fragments()):
        operation_str += "\n\n" + print_ast(... self.fragments_definitions[used_fragment] ...)

def _get_all_related_fragments(self):
    fragments_names = self._fragments_used_as_mixins.copy()
    for fragment_name in self._fragments_used_as_mixins:                                   # a set
        fragments_names = fragments_names.union(self._get_fragments_names(self.fragments_definitions[fragment_name].selection_set))
    return fragments_names.union(self._unpacked_fragments)
```
`closure f` = a listing of the set `_get_fragments_names(definition of f)` (every fragment spread below `f`,
transitively); `none` = `fragments_definitions[f]` raises KeyError. -/
def closureOf (closure : Name → Option (List Name)) (f : Name) : Except Err (List Name) :=
  match closure f with
  | some ns => .ok ns
  | none => .error (.keyError f)

def relatedFragments (e : EnumOracle) (mixins unpacked : List Name) (closure : Name → Option (List Name)) :
    Except Err (List Name) := do
  let below ← (e mixins).mapM (closureOf closure)
  pure (e (dedupFirst (mixins ++ below.flatten ++ unpacked)))

/-- names of the fragment definitions that follow the operation in the operation string, in order -/
def operationFragments (e : EnumOracle) (mixins unpacked : List Name) (closure : Name → Option (List Name)) :
    Except Err (List Name) :=
  if mixins.isEmpty && unpacked.isEmpty then .ok []
  else (relatedFragments e mixins unpacked closure).map pySorted

/-! ### custom_generator_utils.py — `TypeCollector.collect`: `return sorted(self.collected_types)` -/
def collectedTypes (e : EnumOracle) (collected : List Name) : List Name := pySorted (e collected)

/-! ### plugins/explorer.py — the ORDER in which plugin classes are loaded

```python
def get_plugins_types(plugins_strs):
    classes = []
    for plugin_str in plugins_strs:                                   # the configured LIST
        if is_module_str(plugin_str):
            classes.extend(get_plugins_types_from_module(module_str=plugin_str))
        else:
            classes.append(get_plugin_type(plugin_str))               # may raise PluginImportError
    return classes

def get_plugins_types_from_module(module_str):
    module = importlib.import_module(module_str)
    return [obj for _, obj in inspect.getmembers(module) if is_plugin_type(obj)]
```
`inspect.getmembers` returns the (attribute name, value) pairs sorted by attribute name; the namespace of
the module (a dict) is the unordered collection here: `nsList` is the order in which it happens to be
listed. -/

abbrev Cls := String     -- a plugin class (module-qualified name)

/-- what the import system answers for one configured plugin string -/
inductive PluginTarget where
  | module (members : List (Name × Cls))   -- a module: its attributes that are Plugin subclasses (attribute name, class)
  | cls (c : Cls)                          -- `m.C`, a Plugin subclass
  | refused (msg : String)                 -- PluginImportError
  deriving Repr, DecidableEq

def memberLe (a b : Name × Cls) : Bool := strLe a.1 b.1

def pluginsFromModule (nsList : List (Name × Cls) → List (Name × Cls)) (members : List (Name × Cls)) : List Cls :=
  (sortBy memberLe (nsList members)).map (·.2)

/-- `get_plugins_types`: classes in the order of the configured list; the first refusal (in that order) escapes -/
def getPluginsTypes (nsList : List (Name × Cls) → List (Name × Cls)) (resolve : String → PluginTarget) :
    List String → Except String (List Cls)
  | [] => .ok []
  | s :: rest =>
    match resolve s with
    | .refused msg => .error msg
    | .module ms => (getPluginsTypes nsList resolve rest).map (pluginsFromModule nsList ms ++ ·)
    | .cls c => (getPluginsTypes nsList resolve rest).map (c :: ·)

/-! ### plugins/manager.py — hooks are applied in the order of `self.plugins`

```python
self.plugins = [cls(schema=schema, config_dict=config_dict or {}) for cls in plugins_types or []]
def _apply_plugins_on_object(self, method_name, obj, *args, **kwargs):
    modified_obj = obj
    for plugin in self.plugins:
        modified_obj = getattr(plugin, method_name)(modified_obj, *args, **kwargs)
    return modified_obj
```
-/
def applyHooks {α : Type} (hookOf : Cls → α → α) (plugins : List Cls) (obj : α) : α :=
  plugins.foldl (fun acc c => hookOf c acc) obj

/-- one hook of a whole run: configured strings ↦ the rewritten object (or the refusal) -/
def runHook {α : Type} (nsList : List (Name × Cls) → List (Name × Cls)) (resolve : String → PluginTarget)
    (hookOf : Cls → α → α) (pluginsStrs : List String) (obj : α) : Except String α :=
  (getPluginsTypes nsList resolve pluginsStrs).map (fun ps => applyHooks hookOf ps obj)

/-! ### the result modules of a package, as far as unordered collections and plugin order reach them -/

/-- one generated class: the set of mixin fragments of its selection and its `@mixin` bases -/
structure ClassIn where
  name : Name
  fragments : List Name        -- a SET (listing)
  extraBases : List Name
  deriving Repr, DecidableEq

/-- one `_get_typename_values` call (a field whose type is abstract or has several related classes) -/
structure TypenameIn where
  typesNames : List Name
  abstract : Option Name
  possible : List Name
  deriving Repr, DecidableEq

structure ResultIn where
  module : Name
  classes : List ClassIn
  typenames : List TypenameIn
  mixins : List Name           -- `_fragments_used_as_mixins`: a SET
  unpacked : List Name         -- `_unpacked_fragments`: a SET
  deriving Repr, DecidableEq

structure ResultIR where
  module : Name
  bases : List (Name × List Name)                   -- class ↦ bases, class order
  literals : List (List (Name × List Name))         -- per field: related type ↦ Literal elements
  operationFragments : List Name                    -- fragment definitions appended to the operation string
  deriving Repr, DecidableEq

def emitResult (e : EnumOracle) (pascal : Name → Name) (baseModel : Name) (closure : Name → Option (List Name))
    (r : ResultIn) : Except Err ResultIR := do
  let frs ← operationFragments e r.mixins r.unpacked closure
  pure { module := r.module,
         bases := r.classes.map (fun c => (c.name, classBases e pascal baseModel c.fragments c.extraBases)),
         literals := r.typenames.map (fun t => typenameLiterals e t.typesNames t.abstract t.possible),
         operationFragments := frs }

/-! ### main.py — `graphql_schema(config_dict)`: the whole graphqlschema strategy

```python
schema = get_graphql_schema_from_path(settings.schema_path)              # load_graphql_files_from_path + build
plugin_manager = PluginManager(schema=schema, config_dict=config_dict, plugins_types=get_plugins_types(settings.plugins))
schema = plugin_manager.process_schema(schema)
assert_valid_schema(schema)
if settings.target_file_format == "py": generate_graphql_schema_python_file(schema, target_file_path, ...)   # ast_to_str + write_text
else: generate_graphql_schema_graphql_file(schema, target_file_path)                                          # print_schema + write_text
```
No set and no directory listing exists anywhere under `graphql_schema_generators/` (audited on every run:
harness/c10.py `audit_unordered`): the type map, fields, arguments and enum values are walked in dict order,
which is the order of the loaded text.  So the only unordered things the strategy can see are the directory
listing of the schema path, the namespace listing of a plugin module, and (through isort, python target
only) the working directory. `build`, `valid`, `render` are arbitrary deterministic functions. -/

inductive RunErr where
  | load (e : Err)              -- reading the schema files
  | plugin (msg : String)       -- PluginImportError
  | invalidSchema               -- assert_valid_schema
  deriving Repr, DecidableEq

def graphqlSchemaRun {S : Type} (dirList : List Entry → List Entry) (entries : List Entry) (build : String → S)
    (nsList : List (Name × Cls) → List (Name × Cls)) (resolve : String → PluginTarget) (processSchema : Cls → S → S)
    (pluginsStrs : List String) (valid : S → Bool) (render : Bool → S → String) (target : Name)
    (flag : Bool) (dir : Dir) : Except RunErr WriteLog :=
  match loadGraphqlFiles dirList entries with
  | .error e => .error (.load e)
  | .ok text =>
    match runHook nsList resolve processSchema pluginsStrs (build text) with
    | .error m => .error (.plugin m)
    | .ok schema =>
      if valid schema then .ok (runWrites render [(target, schema)] (fun _ => flag) dir) else .error .invalidSchema

end Ariadne.Order
