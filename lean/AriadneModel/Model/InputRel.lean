/-
  C06: the vocabulary of the acceptance theorem — canonical-form values, re-keying a value by Python
  field names, and the (decidable) relation between the coercion schema `CSchema`
  (Spec/CoerceInput.lean) and the environment of the generated module `Env` (Spec/PydInput.lean)
  that the generator establishes outside the finding triggers.  Core Lean only (the driver evaluates
  `related` on the generated cases, so that the hypotheses of the theorem are measured, too).
-/
import AriadneModel.Model.InputField
import AriadneModel.Spec.CoerceInput
import AriadneModel.Spec.PydInput

namespace Ariadne.InputRel
open Ariadne
open Ariadne.InputGen (TypeRef)
open Ariadne.InputField (Ann Kind annOf)
open Ariadne.CoerceInput
open Ariadne.PydInput

/-! ### canonical form (DESIGN.md §3.0): lists as lists, IDs as strings, custom scalars (and `Upload`)
    typed as the generated annotation says -/

def isOk {ε α : Type} : Except ε α → Bool
  | .ok _ => true
  | .error _ => false

def isStr : J → Bool
  | .str _ => true
  | _ => false

/-- a non-null value at a named type that is not an input object -/
def leafCanon (env : Env) (kinds : String → Kind) (n : String) (v : J) : Bool :=
  match kinds n with
  | .builtin py => if n == "ID" then isStr v else if py == "Upload" then isOk (validateName env py v) else true
  | .custom ty _ => isOk (validateName env ty v)
  | _ => true

mutual
  def canonical (env : Env) (kinds : String → Kind) (s : CSchema) : TypeRef → J → Bool
    | _, .null => true
    | t, .arr xs =>
      match CoerceInput.unNN t with
      | .list it => canonicalList env kinds s it xs
      | .named n => leafCanon env kinds n (.arr xs)
      | .nonNull _ => false
    | t, .obj kvs =>
      listDepth t == 0 &&
        (match s.find? t.base with
         | some (.input _ fs) => canonicalKvs env kinds s fs kvs
         | _ => leafCanon env kinds t.base (.obj kvs))
    | t, v => listDepth t == 0 && leafCanon env kinds t.base v
  def canonicalList (env : Env) (kinds : String → Kind) (s : CSchema) : TypeRef → List J → Bool
    | _, [] => true
    | t, x :: xs => canonical env kinds s t x && canonicalList env kinds s t xs
  def canonicalKvs (env : Env) (kinds : String → Kind) (s : CSchema) (fs : List CField) : List (String × J) → Bool
    | [] => true
    | (k, v) :: rest =>
      (match fs.find? (·.name == k) with
       | some f => canonical env kinds s f.type v
       | none => true) && canonicalKvs env kinds s fs rest
end

/-! ### the same value keyed by Python field names -/

/-- the Python name of the field whose validation alias is `k` -/
def pyOf (specs : List FieldSpec) (k : String) : String :=
  match findByKey specs k with
  | some sp => sp.py
  | none => k

def newKey (byName : Bool) (specs : List FieldSpec) (k : String) : String :=
  if byName then pyOf specs k else k

mutual
  /-- `byName = true`: every key of every input object in the value is replaced by the Python
      field name; `byName = false`: the value itself -/
  def rekey (env : Env) (s : CSchema) (byName : Bool) : TypeRef → J → J
    | t, .arr xs =>
      match CoerceInput.unNN t with
      | .list it => .arr (rekeyList env s byName it xs)
      | _ => .arr xs
    | t, .obj kvs =>
      match s.find? t.base with
      | some (.input n fs) =>
        match env.class? n with
        | some c => .obj (rekeyKvs env s byName fs c.fields kvs)
        | none => .obj kvs
      | _ => .obj kvs
    | _, v => v
  def rekeyList (env : Env) (s : CSchema) (byName : Bool) : TypeRef → List J → List J
    | _, [] => []
    | t, x :: xs => rekey env s byName t x :: rekeyList env s byName t xs
  def rekeyKvs (env : Env) (s : CSchema) (byName : Bool) (fs : List CField) (specs : List FieldSpec) :
      List (String × J) → List (String × J)
    | [] => []
    | (k, v) :: rest =>
      (match fs.find? (·.name == k) with
       | some f => (newKey byName specs k, rekey env s byName f.type v)
       | none => (k, v)) :: rekeyKvs env s byName fs specs rest
end

/-! ### what the generator establishes between schema and module (outside the triggers) -/

def all2 {α β : Type} (r : α → β → Bool) : List α → List β → Bool
  | [], [] => true
  | a :: as, b :: bs => r a b && all2 r as bs
  | _, _ => false

/-- one input field and the model field generated for it -/
def fieldRel (kinds : String → Kind) (cf : CField) (sp : FieldSpec) : Bool :=
  sp.key == cf.name
  && (match annOf kinds cf.type true with
      | some (a, _) => sp.ann == a
      | none => false)
  && !InputField.trigNullableListItem cf.type                               -- C06-F1 off
  && (sp.default.isNone == (cf.default.isNone && cf.type.isNonNull))        -- required iff non-null without default
  && (match sp.default with | some (.error _) => false | _ => true)         -- every default evaluates

def strDistinct : List String → Bool
  | [] => true
  | x :: xs => !xs.contains x && strDistinct xs

/-- Python names usable (C06-F7 off): keys pairwise different, Python names pairwise different, and
    a Python name that is the key of a field is that field's own -/
def namesOK (specs : List FieldSpec) : Bool :=
  strDistinct (specs.map (·.key)) && strDistinct (specs.map (·.py))
  && specs.all (fun sp => specs.all (fun sp' => sp'.key != sp.py || sp'.py == sp.py))

def typeRel (kinds : String → Kind) (env : Env) : CType → Bool
  | .input n fs =>
    kinds n == .input &&
      (match env.class? n with
       | some c => all2 (fieldRel kinds) fs c.fields && namesOK c.fields
       | none => false)
  | .enum n vals =>
    kinds n == .enum &&
      (match env.enum? n with
       | some ms => vals.all (fun v => ms.any (fun m => m.2 == v))
       | none => false)
  | .scalar n =>
    (match kinds n with
     | .builtin py => py == "Upload"
     | .custom _ _ => true
     | .any => true
     | _ => false)

def builtinNames : List (String × String) :=
  [("Int", "int"), ("Float", "float"), ("String", "str"), ("Boolean", "bool"), ("ID", "str")]

/-- the specified scalars map to the Python builtins, and no enum class shadows a builtin name -/
def builtinsOK (kinds : String → Kind) (env : Env) (s : CSchema) : Bool :=
  builtinNames.all (fun p => kinds p.1 == .builtin p.2 && (s.find? p.1).isNone)
  && ["int", "float", "str", "bool", "Any"].all (fun n => (env.enum? n).isNone)

def related (kinds : String → Kind) (s : CSchema) (env : Env) : Bool :=
  s.types.all (typeRel kinds env) && builtinsOK kinds env s && !env.broken

end Ariadne.InputRel
