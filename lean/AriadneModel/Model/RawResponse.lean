/-
  An `httpx.Response` as `get_data` receives it from the transport: status code and raw body BYTES
  (C12).  `response.json()` is Spec/PyJson.lean (`json.loads(self.content)`, httpx 0.28);
  `response.is_success` is `200 ≤ status ≤ 299` (Model/GetData.lean).

  Core Lean only.
-/
import AriadneModel.Model.GetData
import AriadneModel.Spec.PyJson

namespace Ariadne.RawResponse
open Ariadne Ariadne.GetData

structure Raw where
  status : Nat
  content : List Nat          -- the body, byte by byte
  deriving Repr

/-- `response.json()` -/
def jsonCall (cfg : PyJson.Cfg) (r : Raw) : JsonCall :=
  match PyJson.loads cfg r.content with
  | .value j => .value j
  | .valueError => .valueError
  | .raises x => .raises x

/-- `get_data(response)` on the raw response -/
def getDataRaw (cfg : PyJson.Cfg) (r : Raw) : Outcome := getDataCall r.status (jsonCall cfg r)

end Ariadne.RawResponse
