/-
  Model of the GraphQL-name -> Python-name mapping of ariadne-codegen (property C18).

  Modelled Python (ariadne_codegen/utils.py), quoted:

      def str_to_snake_case(name):
          lowercase_words = r"[A-Z]?[a-z]+"
          uppercase_words = r"[A-Z]+(?=[A-Z][a-z]|\d|\W|_|$)"
          numbers = r"\d+"
          words = re.findall(rf"{lowercase_words}|{uppercase_words}|{numbers}", name)
          return "_".join(map(str.lower, words))

      def str_to_pascal_case(name):
          return "".join(n[:1].upper() + n[1:] for n in name.split("_"))

      def process_name(name, convert_to_snake_case, plugin_manager=None, node=None,
                       trim_leading_underscore=False, handle_pydantic_resrved_field_names=False):
          processed_name = name
          if convert_to_snake_case: processed_name = str_to_snake_case(processed_name)
          if iskeyword(processed_name): processed_name += "_"
          if handle_pydantic_resrved_field_names and processed_name in PYDANTIC_RESERVED_FIELD_NAMES:
              processed_name += "_"
          if trim_leading_underscore: processed_name = processed_name.lstrip("_")
          if plugin_manager: processed_name = plugin_manager.process_name(processed_name, node=node)
          if set(name) == {"_"} and not processed_name: return "underscore_named_field_"
          return processed_name

  and its call sites (flags per scope):
      result_types.py  _process_field_name          snake = setting, trim = True,  reserved = True;  "__typename" -> TYPENAME_ALIAS
      input_types.py   _parse_input_definition      snake = setting, trim = True,  reserved = True
      arguments.py     ArgumentsGenerator.generate  snake = setting, trim = False, reserved = False
      package.py       add_operation                snake = True (always), trim = False, reserved = False; method = module = file stem
      enums.py         _parse_enum_definition       `val_name if not iskeyword(val_name) else val_name + "_"` (process_name is not used)

  Domain.  A name is its list of characters.  The model is exact on *word strings*
  `[_0-9A-Za-z]*` (checked exhaustively by harness/c18.py); GraphQL names are the word strings
  `[_A-Za-z][_0-9A-Za-z]*` (`GName`).  On that alphabet `\W` never matches, `\d` is `[0-9]`,
  `str.lower/upper` are the ASCII maps, so no Unicode question arises.

  The tokenizer.  `re.findall` scans left to right; at each position it tries the three
  alternatives in order, each greedy with backtracking.  On word strings this comes down to:
    * `[A-Z]?[a-z]+`  an optional single capital followed by a maximal run of small letters;
    * `[A-Z]+(?=…)`   a maximal run of capitals, *without* its last capital when a small letter
                      follows (the lookahead `[A-Z][a-z]` is the only one that can succeed
                      after backtracking one step; `\d`, `_`, `$` succeed at the end of the run);
    * `\d+`           a maximal run of digits;
    * `_` never matches and is skipped.
  Hence whether a character is glued to the character after it depends only on its own class and
  on the classes of the next two characters (`joins`).  `tokens` is written as that local rule
  (structural recursion from the right), which is what the proofs use; that it *is* `re.findall`
  is validated exhaustively (all word strings up to a length bound), not proved.

  Core Lean only (the driver links this file).
-/
import AriadneModel.Generated.Tables

namespace Ariadne.Names
open Ariadne

/-- A name as the list of its characters. -/
abbrev Name := List Char

/-! ### Character classes (the regex classes on the word alphabet, as explicit finite sets) -/

def uppers : List Char := "ABCDEFGHIJKLMNOPQRSTUVWXYZ".toList
def lowers : List Char := "abcdefghijklmnopqrstuvwxyz".toList
def digits : List Char := "0123456789".toList

inductive Cls where
  | U | L | D | O
  deriving DecidableEq, Repr

/-- `[A-Z]` / `[a-z]` / `\d` / anything else (`_` in the domain). -/
def cls (c : Char) : Cls :=
  if uppers.contains c then .U
  else if lowers.contains c then .L
  else if digits.contains c then .D
  else .O

/-- `str.lower` on one character (ASCII). -/
def lowerChar (c : Char) : Char :=
  if uppers.contains c then ((uppers.zip lowers).lookup c).getD c else c

/-- `str.upper` on one character (ASCII). -/
def upperChar (c : Char) : Char :=
  if lowers.contains c then ((lowers.zip uppers).lookup c).getD c else c

def lower (w : Name) : Name := w.map lowerChar

/-- `[_0-9A-Za-z]` -/
def isWordChar (c : Char) : Bool := cls c != .O || c == '_'

/-- `[_0-9A-Za-z]*` : the strings on which the model is exact. -/
def Word (n : Name) : Prop := ∀ c ∈ n, isWordChar c = true

/-- `[_A-Za-z][_0-9A-Za-z]*` : GraphQL names. -/
def GName (n : Name) : Prop :=
  match n with
  | [] => False
  | c :: cs => (cls c = .U ∨ cls c = .L ∨ c = '_') ∧ Word cs

instance : DecidablePred Word := fun n => by unfold Word; infer_instance
instance : DecidablePred GName := fun n => by
  unfold GName; cases n <;> infer_instance

/-- Python identifiers over ASCII: `[_A-Za-z][_0-9A-Za-z]*` (`str.isidentifier` on word strings). -/
def PyIdent (n : Name) : Prop := GName n
instance : DecidablePred PyIdent := fun n => by unfold PyIdent; infer_instance

/-- The letters and digits of a name, in order. -/
def alnum (n : Name) : Name := n.filter (fun c => cls c != .O)

/-! ### `re.findall(r"[A-Z]?[a-z]+|[A-Z]+(?=[A-Z][a-z]|\d|\W|_|$)|\d+", name)` -/

/-- class of the next character; the end of the string behaves like a separator -/
def cls1 : Name → Cls
  | [] => .O
  | c :: _ => cls c

/-- Is a character of class `c` glued to the character after it (classes `n1`, `n2` of the next
    two characters)?  small·small, digit·digit, Capital·small, and Capital·Capital unless that
    second capital is itself followed by a small letter (then it starts the next word). -/
def joins (c n1 n2 : Cls) : Bool :=
  match c, n1 with
  | .L, .L => true
  | .D, .D => true
  | .U, .L => true
  | .U, .U => n2 != .L
  | _, _ => false

/-- put `c` in front of the first token -/
def consTok (c : Char) : List Name → List Name
  | t :: r => (c :: t) :: r
  | [] => [[c]]

def tokens : Name → List Name
  | [] => []
  | c :: cs =>
    if cls c = .O then tokens cs
    else if joins (cls c) (cls1 cs) (cls1 cs.tail) then consTok c (tokens cs)
    else [c] :: tokens cs

/-- `"_".join(ws)` -/
def joinU : List Name → Name
  | [] => []
  | [w] => w
  | w :: ws => w ++ '_' :: joinU ws

/-- `str_to_snake_case` -/
def snake (n : Name) : Name := joinU ((tokens n).map lower)

/-- `name.split("_")` (always at least one piece) -/
def splitU : Name → List Name
  | [] => [[]]
  | c :: cs =>
    if c = '_' then [] :: splitU cs
    else match splitU cs with
      | p :: ps => (c :: p) :: ps
      | [] => [[c]]

/-- `n[:1].upper() + n[1:]` -/
def capitalize : Name → Name
  | [] => []
  | c :: cs => upperChar c :: cs

/-- `str_to_pascal_case` -/
def pascal (n : Name) : Name := ((splitU n).map capitalize).flatten

/-! ### `process_name` -/

def kwlistC : List Name := Tables.kwlist.map String.toList
def softkwlistC : List Name := Tables.softkwlist.map String.toList
def reservedC : List Name := Tables.pydanticReserved.map String.toList
def fallbackName : Name := Tables.underscoreFallbackName.toList
def typenameField : Name := Tables.typenameFieldName.toList
def typenameAlias : Name := Tables.typenameAlias.toList

/-- the three flags of `process_name` -/
structure Cfg where
  snake : Bool      -- convert_to_snake_case
  trim : Bool       -- trim_leading_underscore
  reserved : Bool   -- handle_pydantic_resrved_field_names
  deriving DecidableEq, Repr

/-- `if iskeyword(p): p += "_"` -/
def suffixKw (p : Name) : Name := if p ∈ kwlistC then p ++ ['_'] else p

/-- `if handle… and p in PYDANTIC_RESERVED_FIELD_NAMES: p += "_"` -/
def suffixRes (on : Bool) (p : Name) : Name := if on = true ∧ p ∈ reservedC then p ++ ['_'] else p

/-- `p.lstrip("_")` -/
def lstripU (p : Name) : Name := p.dropWhile (· == '_')

/-- `set(name) == {"_"}` -/
def allUnderscore (n : Name) : Bool := !n.isEmpty && n.all (· == '_')

/-- `process_name` with the plugin hook as a parameter (`plugin_manager.process_name`; the
    identity when there is no plugin manager or no plugin overrides the hook). -/
def processNameH (hook : Name → Name) (cfg : Cfg) (n : Name) : Name :=
  let p0 := if cfg.snake then snake n else n
  let p1 := suffixKw p0
  let p2 := suffixRes cfg.reserved p1
  let p3 := if cfg.trim then lstripU p2 else p2
  let p4 := hook p3
  if allUnderscore n && p4.isEmpty then fallbackName else p4

def processName (cfg : Cfg) (n : Name) : Name := processNameH id cfg n

/-! ### A generation run: many calls with different flags

  One run of the generator calls `process_name` for every name of every scope, each scope with its
  own flags (`scopeCfg`), interleaved.  The Python function reads nothing but its arguments and two
  module constants fixed at import time (`keyword.kwlist`, `PYDANTIC_RESERVED_FIELD_NAMES`) and
  writes nothing: a run is a map over its calls (utils.py `process_name`: no module-level state). -/

structure Call where
  cfg : Cfg
  name : Name
  deriving DecidableEq, Repr

def runCalls (calls : List Call) : List Name := calls.map (fun c => processName c.cfg c.name)

/-! ### Who calls it: the five scopes of the property -/

inductive Scope where
  | resultField   -- response keys of one selection set (alias, else field name)
  | inputField    -- fields of one input type
  | variable      -- variables of one operation (method parameters)
  | operation     -- operations of one client (method = module = file stem)
  | enumValue     -- values of one enum
  deriving DecidableEq, Repr

def fieldCfg (snakeSetting : Bool) : Cfg := ⟨snakeSetting, true, true⟩
def variableCfg (snakeSetting : Bool) : Cfg := ⟨snakeSetting, false, false⟩
def operationCfg : Cfg := ⟨true, false, false⟩

/-- The Python name a GraphQL name gets in a scope (`snakeSetting` = `convert_to_snake_case`). -/
def pyName (snakeSetting : Bool) : Scope → Name → Name
  | .resultField, n => if n = typenameField then typenameAlias else processName (fieldCfg snakeSetting) n
  | .inputField, n => processName (fieldCfg snakeSetting) n
  | .variable, n => processName (variableCfg snakeSetting) n
  | .operation, n => processName operationCfg n
  | .enumValue, n => suffixKw n

/-- What is emitted for one name: the Python name and, for pydantic fields, the `alias=` keyword.
      result_types.py `_process_field_implementation`:  `if target.id != field_schema_name: alias = field_schema_name`
      input_types.py  `_parse_input_definition`:        `if name != org_name: … alias = org_name`
    Variables keep the original as the key of the `variables` dict, operations as `operation_name=`,
    enum values as the member's value: recorded as `wire`. -/
structure Emitted where
  py : Name
  alias : Option Name
  wire : Name            -- the name that travels: alias if present, else what the scope sends
  deriving DecidableEq, Repr

def emit (snakeSetting : Bool) (s : Scope) (n : Name) : Emitted :=
  let py := pyName snakeSetting s n
  match s with
  | .resultField | .inputField =>
    let alias := if py ≠ n then some n else none
    ⟨py, alias, alias.getD py⟩       -- pydantic: the alias when given, else the attribute name
  | .variable | .operation | .enumValue => ⟨py, none, n⟩

/-- One scope of generated code: the Python names in source order.  The generators contain no
    duplicate check for any of the five scopes; the only refusal that depends on names is
    `PackageGenerator._validate_unique_file_names` (ParsingError "Duplicated file names") for an
    operation whose module collides with one of the fixed modules of the package (`fixed`, file
    stems: client, base client, base model, enums, input types, fragments, exceptions …).  Two
    operations with the same module name do NOT trip it (`_result_types_files` is a dict). -/
def scopeRefused (fixed : List Name) (s : Scope) (names : List Name) : Bool :=
  match s with
  | .operation => names.any (fun n => fixed.contains (pyName true .operation n))
  | _ => false

def scopeNames (snakeSetting : Bool) (s : Scope) (names : List Name) : List Name :=
  names.map (pyName snakeSetting s)

/-! ### Finding-trigger predicates (decidable; mirrored in harness/c18.py and cross-checked)

  Stated without calling `processName`, in terms of the input only. -/

/-- C18-F4: the output starts with a digit (`_1` -> `1`): snake-casing drops the leading
    underscores, and so does `lstrip("_")`. -/
def trigDigitLead (cfg : Cfg) (n : Name) : Bool :=
  if cfg.snake then cls1 (alnum n) == .D
  else cfg.trim && cls1 (lstripU n) == .D

/-- `p` would have been suffixed had it been the input: keyword, or reserved pydantic name when
    the flag is on. -/
def suspect (cfg : Cfg) (p : Name) : Bool := decide (p ∈ kwlistC) || (cfg.reserved && decide (p ∈ reservedC))

/-- C18-F5: snake-casing off, trimming on: the keyword / reserved check runs *before* the
    underscores are stripped (`_class` -> `class`, `_copy` -> `copy`). -/
def trigTrimToKeyword (cfg : Cfg) (n : Name) : Bool :=
  !cfg.snake && cfg.trim && n != lstripU n && suspect cfg (lstripU n)

/-- C18-F6: with snake-casing on, the fallback name of an all-underscore name is not a fixed
    point (`_` -> `underscore_named_field_` -> `underscore_named_field`). -/
def trigFallbackNotFixed (cfg : Cfg) (n : Name) : Bool := cfg.snake && allUnderscore n

/-- does the all-underscore fallback fire (hook = identity)? -/
def fallbackFires (cfg : Cfg) (n : Name) : Bool := allUnderscore n && (cfg.snake || cfg.trim)

/-- What the property demands of an emitted Python name under the flags `cfg`. -/
def OutOK (cfg : Cfg) (o : Name) : Prop :=
  PyIdent o ∧ o ∉ kwlistC ∧ (cfg.reserved = true → o ∉ reservedC)
instance (cfg : Cfg) : DecidablePred (OutOK cfg) := fun o => by unfold OutOK; infer_instance

/-! Pair triggers: when do two distinct names of one scope get the same Python name? -/

/-- C18-F1: same lower-cased word sequence (`fooBar`/`foo_bar`/`FooBar`, also `_x`/`x`, `_`/`__`). -/
def trigSnakeMerge (cfg : Cfg) (a b : Name) : Bool := cfg.snake && (snake a == snake b)

/-- C18-F2 (snake-casing off, trimming on): equal after `lstrip("_")`; when exactly one of the two
    had underscores to lose, the stripped name must not be a suffixed one (`_class`/`class` do not
    merge: `class` becomes `class_`). -/
def trigTrimMerge (cfg : Cfg) (a b : Name) : Bool :=
  !cfg.snake && cfg.trim && (lstripU a == lstripU b) &&
    ((a != lstripU a && b != lstripU b) || !suspect cfg (lstripU a))

/-- what reaches the suffix comparison: the name, stripped when trimming is on -/
def stem (cfg : Cfg) (a : Name) : Name := if cfg.trim then lstripU a else a

/-- C18-F3 (snake-casing off): one name is a keyword / reserved name, the other is that name
    with the underscore already appended (`class`/`class_`, `copy`/`copy_`, with trimming also `class`/`_class_`). -/
def trigSuffixMerge (cfg : Cfg) (a b : Name) : Bool :=
  !cfg.snake && ((suspect cfg b && stem cfg a == b ++ ['_']) || (suspect cfg a && stem cfg b == a ++ ['_']))

/-- (snake-casing off, trimming on) an all-underscore name meets a name that strips to the
    fallback literal (`_` / `underscore_named_field_`). -/
def trigFallbackMerge (cfg : Cfg) (a b : Name) : Bool :=
  !cfg.snake && cfg.trim &&
    ((allUnderscore a && !allUnderscore b && lstripU b == fallbackName) ||
     (allUnderscore b && !allUnderscore a && lstripU a == fallbackName))

def trigMerge (cfg : Cfg) (a b : Name) : Bool :=
  trigSnakeMerge cfg a b || trigTrimMerge cfg a b || trigSuffixMerge cfg a b || trigFallbackMerge cfg a b

/-! ### Scope level -/

/-- the flags a scope passes to `process_name` (enum values: the keyword suffix only, which is
    `process_name` with all three flags off) -/
def scopeCfg (snakeSetting : Bool) : Scope → Cfg
  | .resultField => fieldCfg snakeSetting
  | .inputField => fieldCfg snakeSetting
  | .variable => variableCfg snakeSetting
  | .operation => operationCfg
  | .enumValue => ⟨false, false, false⟩

/-- C18-F8 (response keys, snake-casing off): `__typename` is mapped to the constant
    `typename__`, which is also what `typename__` / `_typename__` are mapped to. -/
def trigTypenameClash (snakeSetting : Bool) (a b : Name) : Bool :=
  !snakeSetting &&
    ((a == typenameField && b != typenameField && lstripU b == typenameAlias) ||
     (b == typenameField && a != typenameField && lstripU a == typenameAlias))

/-- the merge regions of a scope -/
def trigScopeMerge (snakeSetting : Bool) (s : Scope) (a b : Name) : Bool :=
  if s = .resultField ∧ (a = typenameField ∨ b = typenameField) then trigTypenameClash snakeSetting a b
  else trigMerge (scopeCfg snakeSetting s) a b

/-- the single-name regions (C18-F4, C18-F5) of a scope -/
def trigScopeSingle (snakeSetting : Bool) (s : Scope) (n : Name) : Bool :=
  if s = .resultField ∧ n = typenameField then false
  else trigDigitLead (scopeCfg snakeSetting s) n || trigTrimToKeyword (scopeCfg snakeSetting s) n

/-- C18-F9: the result class of an operation is named `str_to_pascal_case(operation name)`, with no
    check at all: no letter or digit (`_` -> empty name), a leading digit (`_1` -> `1`), or a
    keyword (`none` -> `None`, `true` -> `True`, `false` -> `False`). -/
def trigPascalBad (n : Name) : Bool :=
  allUnderscore n || cls1 (lstripU n) == .D || decide (pascal n ∈ kwlistC)

end Ariadne.Names
