/-
  Model of ariadne-codegen's plugin machinery and of the four bundled plugins, over the Python-AST
  fragment of Model/PyIR.lean.  Modelled code (quoted piecewise below):

    plugins/manager.py      PluginManager._apply_plugins_on_object and the hook wrappers
    plugins/base.py         Plugin (every hook returns its argument)
    contrib/shorter_results.py      ShorterResultsPlugin
    contrib/extract_operations.py   ExtractOperationsPlugin
    contrib/client_forward_refs.py  ClientForwardRefsPlugin (after commit 0603080: level=0)
    contrib/no_reimports.py         NoReimportsPlugin

  Plugins are objects with mutable state; a hook is modelled as a function
  `state → payload → Except Err (state × payload)`.  Every Python exception that can escape a hook is
  an explicit `Except.error` (KeyError, IndexError, AttributeError, TypeError, RecursionError);
  `unmodelled:*` marks the one place where the model declines to follow CPython
  (`ast.literal_eval` on a Name id that is neither an identifier nor a simply quoted string).
  Core Lean only.
-/
import AriadneModel.Model.PyIR

namespace Ariadne.Plugins
open Ariadne.Py

abbrev Err := String
abbrev M := Except Err

/-- What a hook is handed and returns. -/
inductive Payload where
  | module (m : Module)
  | imp (i : ImportFrom)
  | method (m : Method)
  | klass (c : ClassDef)
  | str (s : String)
  | opaque (dump : String)
  deriving Repr, Inhabited

/-- One call of a hook wrapper of `PluginManager`: the hook name and the keyword arguments a bundled
    plugin reads (`operation_definition.name.value`, `.operation`).  `caller` tells the four
    callers of `generate_client_import` apart (client.py, custom_fields.py, custom_arguments.py,
    custom_operation.py each keep their own import list).  `opSnake` is
    `utils.str_to_snake_case(opName)` (owned by C18; handed in as an external value). -/
structure Call where
  hook : String
  opName : Option String := none
  opKind : Option String := none
  opSnake : Option String := none
  caller : Option String := none     -- class of the generator object that makes the call
  deriving Repr, Inhabited

/-! ## PluginManager -/

/-- `_apply_plugins_on_object`:

        modified_obj = obj
        for plugin in self.plugins:
            method = getattr(plugin, method_name)
            modified_obj = method(modified_obj, *args, **kwargs)
        return modified_obj

    as the loop it is: the accumulator is (plugins already visited with their new state, object). -/
def applyAll {σ : Type} (step : Call → σ → Payload → M (σ × Payload)) (c : Call)
    (plugins : List σ) (obj : Payload) : M (List σ × Payload) :=
  plugins.foldlM (fun (acc : List σ × Payload) p => do
      let (p', y) ← step c p acc.2
      pure (acc.1 ++ [p'], y)) ([], obj)

/-! ## ShorterResultsPlugin -/

structure ShorterState where
  fragmentsModuleName : String := "fragments"
  classDict : List (String × ClassDef) := []
  extendedImports : List (String × List String) := []
  importedTypes : List (String × String) := []
  deriving Repr, Inhabited

def isIdentStart (c : Char) : Bool := c.isAlpha || c == '_'
def isIdentChar (c : Char) : Bool := c.isAlphanum || c == '_'

def isIdent (s : String) : Bool :=
  match s.toList with
  | [] => false
  | c :: cs => isIdentStart c && cs.all isIdentChar

/-- `ast.literal_eval(node.id)` inside `try … except ValueError: pass`.
    `some s` = the id is a quoted string literal and evaluates to `s`; `none` = ValueError (an
    identifier is "not a literal").  Anything else is outside what the generator can emit. -/
def literalEval (id : String) : M (Option String) :=
  match id.toList with
  | [] => throw "unmodelled:literal_eval"
  | q :: rest =>
    if q == '"' || q == '\'' then
      match rest.reverse with
      | [] => throw "unmodelled:literal_eval"
      | q' :: innerRev =>
        if q' == q && innerRev.all (fun c => c != q && c != '\\' && c != '\n' && c != '\r') then
          pure (some (String.ofList innerRev.reverse))
        else throw "unmodelled:literal_eval"
    else if isIdent id && id != "None" && id != "True" && id != "False" then pure none
    else throw "unmodelled:literal_eval"

/-- `_update_node` (fuel = size of the annotation + 1; the Annotated case recurses into the
    *already rewritten* first element, hence no structural recursion):

        Name      -> id = literal_eval(id) if it is a literal; return node, [id]
        Subscript -> child, ids = _update_node(slice)
                     if value is Name "Annotated" and child is a 2-Tuple: return _update_node(child.elts[0])
                     node.slice = child; return node, ids
        Tuple     -> elementwise, ids concatenated
        other expr -> node, []          (non-expr -> ast.expr(), []) -/
def updateNode : Nat → Ex → M (Ex × List String)
  | 0, _ => throw "RecursionError"
  | n + 1, .name id => do
    let r ← literalEval id
    let id' := r.getD id
    pure (.name id', [id'])
  | n + 1, .sub value slice => do
    let (child, ids) ← updateNode n slice
    match value, child with
    | .name "Annotated", .tuple [a, _] => updateNode n a
    | _, _ => pure (.sub value child, ids)
  | n + 1, .tuple elts => do
    let rs ← elts.mapM (updateNode n)
    pure (.tuple (rs.map (·.1)), (rs.map (·.2)).flatten)
  | _ + 1, .strs _ => pure (.other "expr()" [], [])
  | _ + 1, e => pure (e, [])

/-- the `AnnAssign` members of a class body as (target, annotation) -/
def annAssignOf : ClassItem → Option (Ex × Ex)
  | .stmt (.annAssign t a _) => some (t, a)
  | _ => none

/-- `_get_all_fields` (fuel: a cycle among the recorded classes is a RecursionError):

        for base in class_def.bases:
            if not isinstance(base, ast.Name) or base.id not in class_dict: continue
            fields.extend(_get_all_fields(class_dict[base.id], class_dict))
        for field in class_def.body:
            if isinstance(field, ast.AnnAssign): fields.append(field) -/
def getAllFields (dict : List (String × ClassDef)) : Nat → ClassDef → M (List (Ex × Ex))
  | 0, _ => throw "RecursionError"
  | n + 1, cd => do
    let inherited ← cd.bases.mapM (fun b =>
      match b with
      | .name id =>
        match alookup id dict with
        | some c => getAllFields dict n c
        | none => pure []
      | _ => pure [])
    pure (inherited.flatten ++ cd.body.filterMap annAssignOf)

/-- `_return_or_yield_node_and_class` -/
def nodeAndClass (dict : List (String × ClassDef)) (cur : String) : M (Option (Ex × List String × String)) :=
  match alookup cur dict with
  | none => pure none
  | some cd => do
    let fields ← getAllFields dict (dict.length + 1) cd
    match fields with
    | [(.name f, ann)] => do
      let (node, classes) ← updateNode (ann.size + 1) ann
      pure (some (node, classes, f))
    | _ => pure none

/-- `_update_imports(method_def, single_field_classes)` -/
def shorterUpdateImports (st : ShorterState) (methodName : String) (classes : List String) : ShorterState :=
  classes.foldl (fun st c =>
    let src? : Option String :=
      match alookup c st.importedTypes with
      | some f => some f
      | none => if ahas c st.classDict then some methodName else none
    match src? with
    | none => st
    | some src =>
      let cur := (alookup src st.extendedImports).getD []
      { st with extendedImports := aset src (sadd c cur) st.extendedImports }) st

/-- `_generate_query_and_mutation_client_method` -/
def shorterQueryMutation (st : ShorterState) (m : Method) (retValue : Option Ex) : M (ShorterState × Method) :=
  match retValue, m.returns with
  | some value, some (.name id) => do
    match ← nodeAndClass st.classDict id with
    | none => pure (st, m)
    | some (node, classes, f) =>
      pure (shorterUpdateImports st m.name classes,
        { m with returns := some node,
                 body := m.body.dropLast ++ [.simple (.ret (some (.attr value f)))] })
  | _, _ => pure (st, m)

/-- `_generate_subscription_client_method` (+ `_get_yield_value_from_async_for`) -/
def shorterSubscription (st : ShorterState) (m : Method) (target iter : Ex) (body : List Simple)
    (bodyIsList : Bool) : M (ShorterState × Method) :=
  match m.returns with
  | some (.sub _ (.name id)) => do
    match ← nodeAndClass st.classDict id with
    | none => pure (st, m)
    | some (node, classes, f) =>
      if !bodyIsList then throw "TypeError"        -- len(stmt.body) on a bare ast.Expr
      else
        match body with
        | .expr (.yield prev) :: _ =>
          pure (shorterUpdateImports st m.name classes,
            { m with returns := some (.sub (.name "AsyncIterator") node),
                     body := m.body.dropLast ++
                       [.asyncFor target iter [.expr (.yield (.attr prev f))] false 0] })
        | _ => pure (st, m)
  | _ => pure (st, m)

/-- `_modify_method_def` -/
def shorterModifyMethod (st : ShorterState) (m : Method) : M (ShorterState × Method) :=
  match m.body.getLast? with
  | some (.simple (.ret v)) => shorterQueryMutation st m v
  | some (.asyncFor target iter body isList _) => shorterSubscription st m target iter body isList
  | _ => pure (st, m)

/-- thread a state through the methods of a class body (other members untouched) -/
def mapMethodsM {σ : Type} (f : σ → Method → M (σ × Method)) : σ → List ClassItem → M (σ × List ClassItem)
  | st, [] => pure (st, [])
  | st, .method m :: rest => do
    let (st1, m') ← f st m
    let (st2, rest') ← mapMethodsM f st1 rest
    pure (st2, .method m' :: rest')
  | st, it :: rest => do
    let (st2, rest') ← mapMethodsM f st rest
    pure (st2, it :: rest')

/-- rewrite the FIRST `ClassDef` of a module body -/
def mapFirstClassM {σ : Type} (g : σ → ClassDef → M (σ × ClassDef)) : σ → List Top → M (σ × List Top)
  | st, [] => pure (st, [])
  | st, .classDef c :: rest => do
    let (st', c') ← g st c
    pure (st', .classDef c' :: rest)
  | st, t :: rest => do
    let (st', rest') ← mapFirstClassM g st rest
    pure (st', t :: rest')

/-- the loop over `module.body` that appends the extra names to existing `from <m> import …`
    statements and pops the key -/
def shorterExtendExisting : List (String × List String) → List Top → List (String × List String) × List Top
  | ext, [] => (ext, [])
  | ext, t :: rest =>
    match t with
    | .simple (.importFrom i) =>
      match i.module with
      | some mname =>
        match alookup mname ext with
        | some extra =>
          let i' := { i with names := i.names ++ extra.map (fun n => (n, none)) }
          let (ext', rest') := shorterExtendExisting (aerase mname ext) rest
          (ext', .simple (.importFrom i') :: rest')
        | none =>
          let (ext', rest') := shorterExtendExisting ext rest
          (ext', t :: rest')
      | none =>
        let (ext', rest') := shorterExtendExisting ext rest
        (ext', t :: rest')
    | _ =>
      let (ext', rest') := shorterExtendExisting ext rest
      (ext', t :: rest')

/-- `ShorterResultsPlugin.generate_client_module` -/
def shorterClientModule (st : ShorterState) (mod : Module) : M (ShorterState × Module) :=
  match mod.firstClass? with
  | none => pure (st, mod)
  | some _ => do
    let (st1, body1) ← mapFirstClassM (fun s c => do
        let (s', items) ← mapMethodsM shorterModifyMethod s c.body
        pure (s', { c with body := items })) st mod.body
    if st1.extendedImports.isEmpty then pure (st1, { body := body1 })
    else
      let (ext2, body2) := shorterExtendExisting st1.extendedImports body1
      -- `for import_from, alias in self.extended_imports.items(): module.body.insert(0, …)`
      let fresh : List Top := ext2.map (fun (src, names) =>
        .simple (.importFrom { module := some src, names := names.map (fun n => (n, none)), level := 0 }))
      pure ({ st1 with extendedImports := ext2 }, { body := fresh.reverse ++ body2 })

/-- `generate_result_types_module`: record `name or asname -> "." * level + module` -/
def shorterResultTypesModule (st : ShorterState) (mod : Module) : ShorterState :=
  mod.body.foldl (fun st t =>
    match t.importFrom? with
    | some i =>
      match i.module with
      | some mname =>
        i.names.foldl (fun st (n : String × Option String) =>
          { st with importedTypes := aset (n.2.getD n.1) (dotted i.level mname) st.importedTypes }) st
      | none => st
    | none => st) st

/-- `generate_fragments_module`: every class of the module is importable from `.<fragments module>` -/
def shorterFragmentsModule (st : ShorterState) (mod : Module) : ShorterState :=
  (mod.body.filterMap Top.classDef?).foldl (fun st c =>
    { st with importedTypes := aset c.name ("." ++ st.fragmentsModuleName) st.importedTypes }) st

def shorterStep (c : Call) (st : ShorterState) (x : Payload) : M (ShorterState × Payload) :=
  match c.hook, x with
  | "generate_result_types_module", .module m => pure (shorterResultTypesModule st m, x)
  | "generate_result_class", .klass cd => pure ({ st with classDict := aset cd.name cd st.classDict }, x)
  | "generate_fragments_module", .module m => pure (shorterFragmentsModule st m, x)
  | "generate_client_module", .module m => do
    let (st', m') ← shorterClientModule st m
    pure (st', .module m')
  | _, _ => pure (st, x)

/-! ## ExtractOperationsPlugin -/

/-- the module `_generate_operations_module` writes: `__all__` and `NAME = 'line\n' 'line\n' …` -/
structure OpsFile where
  all : List String
  assigns : List (String × List String)
  deriving Repr, Inhabited

structure ExtractState where
  asyncClient : Bool := true
  opsModuleName : String := "operations"
  gqls : List (String × String) := []
  vars : List (String × String) := []
  written : Option OpsFile := none
  deriving Repr, Inhabited

def isLineBreak (c : Char) : Bool :=
  c == '\n' || c == '\r' || c == '\x0b' || c == '\x0c' || c == '\x1c' || c == '\x1d' || c == '\x1e' ||
  c == Char.ofNat 0x85 || c == Char.ofNat 0x2028 || c == Char.ofNat 0x2029

/-- Python `str.splitlines()` -/
def splitLinesAux : List Char → List Char → List String
  | [], cur => if cur.isEmpty then [] else [String.ofList cur.reverse]
  | '\r' :: '\n' :: rest, cur => String.ofList cur.reverse :: splitLinesAux rest []
  | c :: rest, cur =>
    if isLineBreak c then String.ofList cur.reverse :: splitLinesAux rest []
    else splitLinesAux rest (c :: cur)

def splitLines (s : String) : List String := splitLinesAux s.toList []

/-- `[generate_constant(l + "\n") for l in operation_str.splitlines()]` — the SAME expression in
    client.py `_generate_operation_str_assign` and in `_get_operations_module`. -/
def pyLines (s : String) : List String := (splitLines s).map (· ++ "\n")

/-- `_get_gql_variable_name`: `str_to_snake_case(operation_name).upper() + "_GQL"` -/
def gqlVarName (snake : String) : String := upperAscii snake ++ "_GQL"

/-- `generate_operation_str` -/
def extractOperationStr (st : ExtractState) (c : Call) (s : String) : M ExtractState :=
  match c.opName, c.opSnake with
  | some op, some snake =>
    pure { st with gqls := aset op s st.gqls, vars := aset op (gqlVarName snake) st.vars }
  | none, _ => throw "AttributeError"                 -- operation_definition.name is None
  | _, none => throw "driver:opSnake missing"

/-- replace the value of every keyword `query=` of a call -/
def replaceQueryKw (newVal : Ex) : List (Option String) → List Ex → List Ex
  | some "query" :: ns, _ :: vs => newVal :: replaceQueryKw newVal ns vs
  | _ :: ns, v :: vs => v :: replaceQueryKw newVal ns vs
  | _, vs => vs

/-- `generate_client_method`:

        method_def.body = method_def.body[1:]
        subscription: call = method_def.body[1].iter
        async client: call = method_def.body[1].value.value      (Assign -> Await -> Call)
        else:         call = method_def.body[1].value
        for keyword in call.keywords:
            if keyword.arg == "query": keyword.value = Name(self._operations_variables[op name]) -/
def extractClientMethod (st : ExtractState) (c : Call) (m : Method) : M Method := do
  let body := m.body.drop 1
  let s1 ← match body[1]? with
    | some s => pure s
    | none => throw "IndexError"
  let rewriteCall (e : Ex) : M Ex :=
    match e with
    | .call f args kwNames kwVals =>
      if kwNames.contains (some "query") then
        match c.opName with
        | none => throw "AttributeError"
        | some op =>
          match alookup op st.vars with
          | none => throw "KeyError"
          | some v => pure (.call f args kwNames (replaceQueryKw (.name v) kwNames kwVals))
      else pure e
    | _ => throw "AttributeError"
  let s1' ← match c.opKind, s1 with
    | some "subscription", .asyncFor t iter b l o => do
      let iter' ← rewriteCall iter
      pure (Stmt.asyncFor t iter' b l o)
    | some "subscription", _ => throw "AttributeError"
    | _, .simple (.assign t v) =>
      if st.asyncClient then
        match v with
        | .await e => do
          let e' ← rewriteCall e
          pure (Stmt.simple (.assign t (.await e')))
        | _ => throw "AttributeError"
      else do
        let v' ← rewriteCall v
        pure (Stmt.simple (.assign t v'))
    | _, _ => throw "AttributeError"
  pure { m with body := body.set 1 s1' }

def extractImport (st : ExtractState) : Top :=
  .simple (.importFrom { module := some st.opsModuleName, names := st.vars.map (fun kv => (kv.2, none)), level := 1 })

/-- `_get_operations_module` -/
def extractOpsFile (st : ExtractState) : M OpsFile := do
  let assigns ← st.gqls.mapM (fun (kv : String × String) =>
    match alookup kv.1 st.vars with
    | some v => pure (v, pyLines kv.2)
    | none => throw "KeyError")
  pure { all := sortStrings (st.vars.map (·.2)), assigns := assigns }

/-- `generate_init_module` (writes the operations module as a side effect) -/
def extractInitModule (st : ExtractState) (mod : Module) : M (ExtractState × Module) := do
  let mod' ←
    if mod.body.isEmpty then pure mod
    else
      let body1 := extractImport st :: mod.body
      match body1.getLast? with
      | some (.simple (.assignList t elts)) =>
        pure { body := body1.dropLast ++ [.simple (.assignList t (sortStrings (elts ++ st.vars.map (·.2))))] }
      | _ => throw "AttributeError"
  let f ← extractOpsFile st
  pure ({ st with written := some f }, mod')

def extractStep (c : Call) (st : ExtractState) (x : Payload) : M (ExtractState × Payload) :=
  match c.hook, x with
  | "generate_operation_str", .str s => do
    let st' ← extractOperationStr st c s
    pure (st', x)
  | "generate_client_method", .method m => do
    let m' ← extractClientMethod st c m
    pure (st, .method m')
  | "generate_client_module", .module m => pure (st, .module { body := extractImport st :: m.body })
  | "generate_init_module", .module m => do
    let (st', m') ← extractInitModule st m
    pure (st', .module m')
  | _, _ => pure (st, x)

/-! ## ClientForwardRefsPlugin -/

structure FwdState where
  inputAndReturnTypes : List String := []
  importedClasses : List (String × String) := []
  importedInMethod : List String := []
  deriving Repr, Inhabited

/-- `_store_imported_classes` -/
def fwdStoreImported (st : FwdState) (body : List Top) : FwdState :=
  body.foldl (fun st t =>
    match t.importFrom? with
    | some i =>
      match i.module with
      | some mname =>
        if i.level != 1 && !startsWithDot mname then st
        else i.names.foldl (fun st (n : String × Option String) =>
          { st with importedClasses := aset n.1 (dotted i.level mname) st.importedClasses }) st
      | none => st
    | none => st) st

mutual
  /-- `_update_name_to_constant`, threading the set `input_and_return_types` -/
  def toConst (classes : List (String × String)) : Ex → List String → Ex × List String
    | .name id, s => if ahas id classes then (.const id, sadd id s) else (.name id, s)
    | .sub v sl, s =>
      let r := toConst classes sl s
      (.sub v r.1, r.2)
    | .tuple es, s =>
      let r := toConstList classes es s
      (.tuple r.1, r.2)
    | e, s => (e, s)
  def toConstList (classes : List (String × String)) : List Ex → List String → List Ex × List String
    | [], s => ([], s)
    | e :: es, s =>
      let r1 := toConst classes e s
      let r2 := toConstList classes es r1.2
      (r1.1 :: r2.1, r2.2)
end

/-- `_rewrite_input_args_to_constants` -/
def fwdRewriteArgs (classes : List (String × String)) : List (String × Option Ex) → List String →
    List (String × Option Ex) × List String
  | [], s => ([], s)
  | (n, none) :: rest, s =>
    let r := fwdRewriteArgs classes rest s
    ((n, none) :: r.1, r.2)
  | (n, some a) :: rest, s =>
    let r1 := toConst classes a s
    let r2 := fwdRewriteArgs classes rest r1.2
    ((n, some r1.1) :: r2.1, r2.2)

/-- `_get_call_arg_from_return` / the tail of `_get_call_arg_from_async_for`:
    `X(...).attr` (one attribute, as ShorterResults produces) or `X(...)` -/
def fwdCallOf : Ex → Option Ex
  | .attr (.call f a n v) _ => some (.call f a n v)
  | .call f a n v => some (.call f a n v)
  | _ => none

/-- `_get_class_from_call`: `Name.attr(...)` -> the Name -/
def fwdClassOfCall : Ex → Option String
  | .call (.attr (.name id) _) _ _ _ => some id
  | _ => none

/-- which class (if any) `_insert_import_statement_in_method` imports at the top of the body -/
def fwdImportClass (last : Stmt) : Option String :=
  match last with
  | .simple (.ret (some v)) => (fwdCallOf v).bind fwdClassOfCall
  | .asyncFor _ _ body _ _ =>
    match body with
    | .expr (.yield v) :: _ => (fwdCallOf v).bind fwdClassOfCall
    | _ => none
  | _ => none

/-- one method of the client class in `generate_client_module` -/
def fwdMethod (st : FwdState) (m : Method) : M (FwdState × Method) := do
  let (args', s1) := fwdRewriteArgs st.importedClasses m.args st.inputAndReturnTypes
  let (returns', s2) : Option Ex × List String :=
    match m.returns with
    | some r => let x := toConst st.importedClasses r s1; (some x.1, x.2)
    | none => (none, s1)
  let st1 := { st with inputAndReturnTypes := s2 }
  let m1 := { m with args := args', returns := returns' }
  match m1.body.getLast? with
  | none => throw "IndexError"                           -- method_def.body[-1]
  | some last =>
    match fwdImportClass last with
    | none => pure (st1, m1)
    | some cls =>
      match alookup cls st1.importedClasses with
      | none => throw "KeyError"                         -- self.imported_classes[import_class_name]
      | some src =>
        pure ({ st1 with importedInMethod := sadd cls st1.importedInMethod },
          { m1 with body := .simple (.importFrom { module := some src, names := [(cls, none)], level := 0 }) :: m1.body })

/-- `_update_existing_imports`: returns (non_empty_imports, index of the last import statement) -/
def fwdScanImports (drop : List String) : List Top → Nat → List Top × Nat → List Top × Nat
  | [], _, acc => acc
  | t :: rest, i, (kept, last) =>
    match t with
    | .simple (.import_ _) => fwdScanImports drop rest (i + 1) (kept ++ [t], i)
    | .simple (.importFrom imp) =>
      let names := imp.names.filter (fun n => !drop.contains n.1)
      if names.isEmpty then fwdScanImports drop rest (i + 1) (kept, i)
      else fwdScanImports drop rest (i + 1) (kept ++ [.simple (.importFrom { imp with names := names })], i)
    | _ => fwdScanImports drop rest (i + 1) (kept, last)

/-- `_add_forward_ref_imports`: the imports under `if TYPE_CHECKING:` grouped by module -/
def fwdTypeCheckingImports (st : FwdState) : M (List (String × List String)) :=
  st.inputAndReturnTypes.foldlM (fun (acc : List (String × List String)) cls =>
    match alookup cls st.importedClasses with
    | none => throw "KeyError"
    | some mname => pure (aset mname ((alookup mname acc).getD [] ++ [cls]) acc)) []

/-- `_update_imports` -/
def fwdUpdateImports (st : FwdState) (mod : Module) : M Module := do
  let drop := st.inputAndReturnTypes ++ st.importedInMethod.filter (fun n => !st.inputAndReturnTypes.contains n)
  if drop.isEmpty then pure mod
  else
    let (kept, last) := fwdScanImports drop mod.body 0 ([], 0)
    let groups ← fwdTypeCheckingImports st
    let ifStmt : Top := .ifStmt (.name "TYPE_CHECKING")
      (groups.map (fun (g : String × List String) =>
        .importFrom { module := some g.1, names := g.2.map (fun n => (n, none)), level := 0 })) 0
    let typingImport : Top :=
      .simple (.importFrom { module := some "typing", names := [("TYPE_CHECKING", none)], level := 0 })
    pure { body := kept ++ [typingImport, ifStmt] ++ mod.body.drop (last + 1) }

/-- `ClientForwardRefsPlugin.generate_client_module` -/
def fwdClientModule (st : FwdState) (mod : Module) : M (FwdState × Module) := do
  let st0 := fwdStoreImported st mod.body
  match mod.firstClass? with
  | none => pure (st0, mod)
  | some _ =>
    let (st1, body1) ← mapFirstClassM (fun s c => do
        let (s', items) ← mapMethodsM fwdMethod s c.body
        pure (s', { c with body := items })) st0 mod.body
    let mod2 ← fwdUpdateImports st1 { body := body1 }
    pure (st1, mod2)

def fwdStep (c : Call) (st : FwdState) (x : Payload) : M (FwdState × Payload) :=
  match c.hook, x with
  | "generate_client_module", .module m => do
    let (st', m') ← fwdClientModule st m
    pure (st', .module m')
  | _, _ => pure (st, x)

/-! ## NoReimportsPlugin and the identity plugin -/

/-- `NoReimportsPlugin.generate_init_module`: `module.body = []` -/
def noReimportsStep (c : Call) (x : Payload) : Payload :=
  match c.hook, x with
  | "generate_init_module", .module _ => .module { body := [] }
  | _, _ => x

/-! ## The configured plugin list -/

inductive PState where
  | shorter (s : ShorterState)
  | extract (s : ExtractState)
  | fwd (s : FwdState)
  | noReimports
  | identity                      -- a plugin class that overrides no hook of `Plugin`
  deriving Repr, Inhabited

def PState.step (c : Call) : PState → Payload → M (PState × Payload)
  | .shorter s, x => do let (s', y) ← shorterStep c s x; pure (.shorter s', y)
  | .extract s, x => do let (s', y) ← extractStep c s x; pure (.extract s', y)
  | .fwd s, x => do let (s', y) ← fwdStep c s x; pure (.fwd s', y)
  | .noReimports, x => pure (.noReimports, noReimportsStep c x)
  | .identity, x => pure (.identity, x)

/-- the plugin manager over the bundled plugins -/
def manager (c : Call) (ps : List PState) (x : Payload) : M (List PState × Payload) :=
  applyAll PState.step c ps x

end Ariadne.Plugins
