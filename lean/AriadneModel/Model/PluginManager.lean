/-
  The plugin manager as a whole (plugins/manager.py), on top of the loop `applyAll` of Model/Plugins.lean:

    * construction (`PluginManager.__init__`):
          self.plugins = [cls(schema=schema, config_dict=config_dict or {}) for cls in plugins_types or []]
      one instance per configured class, in configuration order, every instance is handed the WHOLE
      configuration dictionary; what a bundled plugin reads from it (its "config lookup") is modelled by
      `shorterFragmentsModuleName`, `extractOpsModuleName`, `extractAsyncClient` below, next to what the
      generator itself reads (`config.get_section`, `ClientSettings` defaults);
    * the public hook wrappers: `PluginManager.<hook>(obj, extra…)` is
          return self._apply_plugins_on_object("<hook>", obj, extra=extra, …)
      for every hook but `process_schema`, which is the same loop written out (and additionally stores the
      schema on every plugin — an attribute no bundled plugin reads).  Which string each wrapper hands to
      `getattr` is DATA: it is read off the source into `Generated/PluginTables.lean` on every run and the
      model dispatches through that table (`wrapperTarget`, `managerVia`);
    * no guard on what a hook returns: `modified_obj = method(modified_obj, …)` — a hook returning `None`
      hands `None` to the next plugin and `None` is what the generator gets back.  For the manager `None`
      is an object like any other (`pyNone`); what a BUNDLED plugin does when it is handed `None` at a hook
      it overrides (AttributeError on `module.body`, …) is not modelled: no plugin of the property's
      quantifier returns `None` and the generator never passes it;
    * an exception raised by a hook propagates, the plugins after it are not called.

  `TestPlugin` is the model of the synthetic plugin classes with which the harness drives the REAL
  `PluginManager` through every hook of the regenerated table (harness/c15.py `manager_cases`).
  Core Lean only.
-/
import AriadneModel.Model.Json
import AriadneModel.Model.Plugins
import AriadneModel.Generated.PluginTables

namespace Ariadne.Plugins
open Ariadne Ariadne.Py

/-! ## the hook wrappers (table driven) -/

/-- the hook name `PluginManager.<w>` hands to `_apply_plugins_on_object` (or loops over itself:
    `process_schema`); `none`: `PluginManager` has no public method `w` -/
def wrapperTarget (w : String) : Option String :=
  match PluginTables.managerWrappers.find? (fun r => r.1 == w) with
  | some (_, hook, _, _, _) => if hook != "" then some hook else none
  | none => none

/-- calling `plugin_manager.<w>(obj, …)` -/
def managerVia {σ : Type} (step : Call → σ → Payload → M (σ × Payload)) (w : String) (c : Call)
    (ps : List σ) (x : Payload) : M (List σ × Payload) :=
  match wrapperTarget w with
  | some h => applyAll step { c with hook := h } ps x
  | none => throw "AttributeError"

/-! ## synthetic plugins (correspondence of the manager itself, every hook of the table) -/

inductive TestPlugin where
  | tag (t : String)        -- every hook returns `f"{obj}|{t}:{hook}"`
  | none                    -- every hook returns None
  | raise (e : String)      -- every hook raises the exception class `e`
  | base                    -- overrides nothing (`plugins.base.Plugin` itself)
  deriving Repr, Inhabited

/-- Python's `None` as an object travelling through the manager -/
def pyNone : Payload := .opaque "None"

/-- `str(obj)` of what a synthetic hook is handed -/
def payloadText : Payload → String
  | .opaque d => d
  | .str s => s
  | _ => "<ast>"

def testStep (c : Call) : TestPlugin → Payload → M (TestPlugin × Payload)
  | .tag t, x => pure (.tag t, .opaque (payloadText x ++ "|" ++ t ++ ":" ++ c.hook))
  | .none, _ => pure (.none, pyNone)
  | .raise e, _ => throw e
  | .base, x => pure (.base, x)

/-! ## configuration lookup -/

/-- `d.get(k, default)` -/
def cfgGet (k : String) (dflt : J) : J → M J
  | .obj kvs => pure ((J.lookup k kvs).getD dflt)
  | _ => throw "AttributeError"                       -- `.get` on something that is not a dict

def cfgStr : J → M String
  | .str s => pure s
  | _ => throw "unmodelled:non-string option"

/-- `config_dict.get("tool", {}).get("ariadne-codegen", {})` — where the BUNDLED PLUGINS look for options -/
def toolSection (config : J) : M J := do
  let tool ← cfgGet "tool" (.obj []) config
  cfgGet "ariadne-codegen" (.obj []) tool

/-- `config.get_section` — where the GENERATOR looks for options:

        if "tool" in config_dict and "ariadne-codegen" in config_dict.get("tool", {}): return config_dict["tool"]["ariadne-codegen"]
        if "ariadne-codegen" in config_dict: warn(DeprecationWarning …); return config_dict["ariadne-codegen"]
        raise MissingConfiguration -/
def getSection (config : J) : M J :=
  match config with
  | .obj kvs =>
    let inTool : Option J :=
      match J.lookup "tool" kvs with
      | some (.obj tkvs) => J.lookup "ariadne-codegen" tkvs
      | _ => none
    match inTool with
    | some s => pure s
    | none =>
      match J.lookup "ariadne-codegen" kvs with
      | some s => pure s
      | none => throw "MissingConfiguration"
  | _ => throw "AttributeError"

/-- `ShorterResultsPlugin.generate_fragments_module`:
    `self.config_dict.get("tool", {}).get("ariadne-codegen", {}).get("fragments_module_name", "fragments")` -/
def shorterFragmentsModuleName (config : J) : M String := do
  cfgStr (← cfgGet "fragments_module_name" (.str "fragments") (← toolSection config))

/-- `ClientSettings.fragments_module_name` as the generator uses it (`get_client_settings` → `get_section`) -/
def generatorFragmentsModuleName (config : J) : M String := do
  cfgStr (← cfgGet "fragments_module_name" (.str "fragments") (← getSection config))

/-- `ExtractOperationsPlugin.__init__`: `….get("extract-operations", {}).get("operations_module_name", "operations")` -/
def extractOpsModuleName (config : J) : M String := do
  let sect ← cfgGet "extract-operations" (.obj []) (← toolSection config)
  cfgStr (← cfgGet "operations_module_name" (.str "operations") sect)

/-- `ExtractOperationsPlugin.settings.async_client` (`get_client_settings(config_dict)`; default `True`) -/
def extractAsyncClient (config : J) : M Bool := do
  match ← cfgGet "async_client" (.bool true) (← getSection config) with
  | .bool b => pure b
  | _ => throw "unmodelled:non-bool option"

inductive PluginKind where
  | shorter | extract | fwd | noReimports | identity
  deriving Repr, Inhabited, DecidableEq

/-- `cls(schema=schema, config_dict=config_dict or {})` of one configured class -/
def initPlugin (config : J) : PluginKind → M PState
  | .shorter => do pure (.shorter { fragmentsModuleName := ← shorterFragmentsModuleName config })
  | .extract => do pure (.extract { asyncClient := ← extractAsyncClient config, opsModuleName := ← extractOpsModuleName config })
  | .fwd => pure (.fwd {})
  | .noReimports => pure .noReimports
  | .identity => pure .identity

/-! ## plugins/explorer.py: from the configured strings to the list of plugin classes -/

/-- one entry of `plugins = [...]` after resolution (importlib / `inspect.getmembers` are external): a class path
    names one class; a module string stands for the plugin classes found in the module, in the order
    `inspect.getmembers` lists them (sorted by name) -/
inductive PluginRef (α : Type) where
  | classPath (k : α)
  | module (classes : List α)
  deriving Repr, Inhabited

def PluginRef.classes {α : Type} : PluginRef α → List α
  | .classPath k => [k]
  | .module ks => ks

/-- `get_plugins_types`:

        classes = []
        for plugin_str in plugins_strs:
            if is_module_str(plugin_str): classes.extend(get_plugins_types_from_module(module_str=plugin_str))
            else:                         classes.append(get_plugin_type(plugin_str))
        return classes

    — one pass in configuration order, nothing re-ordered, nothing dropped (a class reachable twice is there twice) -/
def getPluginsTypes {α : Type} (entries : List (PluginRef α)) : List α :=
  entries.foldl (fun classes e => classes ++ e.classes) []

/-- `PluginManager.__init__`: one instance per class, in configuration order -/
def initPlugins (config : J) (kinds : List PluginKind) : M (List PState) := kinds.mapM (initPlugin config)

end Ariadne.Plugins
