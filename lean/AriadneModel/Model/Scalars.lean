/-
  Model of custom-scalar handling (properties C07, C03):

    client_generators/scalars.py   ScalarData.__post_init__, _get_object_name,
                                   generate_result_scalar_annotation, generate_input_scalar_annotation,
                                   generate_scalar_imports
    config.py get_client_settings  (`scalars` section: keys `type`, `serialize`, `parse`, `import`)

      @dataclass
      class ScalarData:
          type_: str; serialize: Optional[str] = None; parse: Optional[str] = None
          import_: Optional[str] = None; graphql_name: str = ""
          def __post_init__(self):
              self.type_name = self._get_object_name(self.type_)
              self.parse_name = self._get_object_name(self.parse) if self.parse else None
              self.serialize_name = self._get_object_name(self.serialize) if self.serialize else None
              self.names_to_import = [name for name in (self.type_, self.serialize, self.parse) if name]
          def _get_object_name(self, name):
              if "." in name:
                  _, object_name = name.rsplit(".", maxsplit=1)
                  return object_name
              return name

      def generate_scalar_imports(data):
          imports = []
          if data.import_:
              warn(...)                      # deprecated key
              if data.names_to_import:
                  imports.append(generate_import_from(names=data.names_to_import, from_=data.import_))
          for name in data.names_to_import:
              if "." in name:
                  module_name, object_name = name.rsplit(".", maxsplit=1)
                  imports.append(generate_import_from(names=[object_name], from_=module_name))
          return imports

  Python truthiness of `Optional[str]` (`if self.parse`, `if data.import_`, `if name`): `None` and
  `""` are false — `truthy?`.

  Annotations are kept in a *normal form* (`NAnn`): every `Optional[...]` the generators emit wraps
  exactly one name / `Annotated[...]` / `List[...]`, so "optional" is a flag on that node.  The
  harness canonicalises the real `ast` annotation into the same form and reports anything that does
  not fit as a mismatch.

  Core Lean only.
-/
import AriadneModel.Model.Json

namespace Ariadne.Scalars
open Ariadne

/-! ### names: `"." in name`, `name.rsplit(".", maxsplit=1)` -/

def hasDot (s : String) : Bool := s.toList.contains '.'

/-- characters after the last `.` (the whole string when there is none), computed from the right -/
def afterLastDot : List Char → List Char
  | [] => []
  | c :: cs => if cs.contains '.' then afterLastDot cs else if c == '.' then cs else c :: cs

/-- characters before the last `.` (empty when there is none) -/
def beforeLastDot : List Char → List Char
  | [] => []
  | c :: cs => if cs.contains '.' then c :: beforeLastDot cs else []

/-- `_get_object_name` -/
def objectName (name : String) : String :=
  if hasDot name then String.ofList (afterLastDot name.toList) else name

/-- `module_name` of `name.rsplit(".", maxsplit=1)` (only used when `"." in name`) -/
def moduleName (name : String) : String := String.ofList (beforeLastDot name.toList)

/-- Python truthiness of an `Optional[str]` -/
def truthy? : Option String → Option String
  | some s => if s == "" then none else some s
  | none => none

/-- one entry of the `scalars` configuration section, as `ScalarData(type_=…, serialize=…, parse=…, import_=…)` -/
structure ScalarData where
  type_ : String
  serialize : Option String := none
  parse : Option String := none
  import_ : Option String := none
  deriving Repr, DecidableEq, Inhabited

namespace ScalarData
def typeName (d : ScalarData) : String := objectName d.type_
def parseName (d : ScalarData) : Option String := (truthy? d.parse).map objectName
def serializeName (d : ScalarData) : Option String := (truthy? d.serialize).map objectName
/-- `[name for name in (type_, serialize, parse) if name]` -/
def namesToImport (d : ScalarData) : List String :=
  ((truthy? (some d.type_)).toList ++ (truthy? d.serialize).toList ++ (truthy? d.parse).toList)
end ScalarData

/-- `ast.ImportFrom(module, names, level=0)` (`generate_import_from` is called without `level`). -/
structure Import where
  module : String
  names : List String
  deriving Repr, DecidableEq, Inhabited

def dottedImports : List String → List Import
  | [] => []
  | n :: rest => if hasDot n then ⟨moduleName n, [objectName n]⟩ :: dottedImports rest else dottedImports rest

/-- `generate_scalar_imports` -/
def scalarImports (d : ScalarData) : List Import :=
  let first : List Import :=
    match truthy? d.import_ with
    | some m => if d.namesToImport.isEmpty then [] else [⟨m, d.namesToImport⟩]
    | none => []
  first ++ dottedImports d.namesToImport

/-- the configured scalars: GraphQL scalar name ↦ ScalarData (a Python dict: first binding) -/
abbrev ScalarCfg := List (String × ScalarData)

def lookupScalar (cfg : ScalarCfg) (n : String) : Option ScalarData :=
  match cfg.find? (·.1 == n) with
  | some p => some p.2
  | none => none

/-! ### annotations in normal form -/

inductive Leaf where
  | name (n : String)                   -- `int`, `Any`, an enum class, a custom scalar's type name …
  | fwd (cls : String)                  -- quoted forward reference `"Cls"` (input types)
  | before (type parse : String)        -- `Annotated[type, BeforeValidator(parse)]`
  | ser (type fn : String)              -- `Annotated[type, PlainSerializer(fn)]`
  deriving Repr, DecidableEq, Inhabited

inductive NAnn where
  | leaf (l : Leaf) (opt : Bool)        -- `l` / `Optional[l]`
  | list (item : NAnn) (opt : Bool)     -- `List[item]` / `Optional[List[item]]`
  deriving Repr, DecidableEq, Inhabited

namespace NAnn
def opt : NAnn → Bool
  | .leaf _ o => o
  | .list _ o => o
def setOpt (o : Bool) : NAnn → NAnn
  | .leaf l _ => .leaf l o
  | .list i _ => .list i o
end NAnn

/-- annotation language of generated *result* classes, in normal form; a class is inlined as the
    list of its fields (response key = alias, annotation) -/
inductive RAnn where
  | leaf (l : Leaf) (opt : Bool)
  | list (item : RAnn) (opt : Bool)
  | obj (fields : List (String × RAnn)) (opt : Bool)
  deriving Inhabited

/-- one `parse(raw)` call -/
structure ParseCall where
  fn : String
  raw : J

/-- `generate_result_scalar_annotation` (before the caller's `Optional[...]`) -/
def resultLeaf (d : ScalarData) : Leaf :=
  match d.parseName with
  | some p => .before d.typeName p
  | none => .name d.typeName

/-- `generate_input_scalar_annotation` -/
def inputLeaf (d : ScalarData) : Leaf :=
  match d.serializeName with
  | some f => .ser d.typeName f
  | none => .name d.typeName

/-- names an annotation leaf refers to (must be bound in the module that carries it) -/
def Leaf.uses : Leaf → List String
  | .name n => [n]
  | .fwd _ => []
  | .before t p => [t, p]
  | .ser t f => [t, f]

/-- names bound by a list of `from … import …` statements -/
def boundNames (is : List Import) : List String := (is.map (·.names)).flatten

end Ariadne.Scalars
