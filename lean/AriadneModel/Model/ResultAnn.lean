/-
  Result side of C07: which annotation the result-type generator emits at a position of a response
  shape, and which `parse` calls a conformant response value is entitled to.

      result_fields.py  parse_scalar_type:
          if name in SIMPLE_TYPE_MAP: generate_annotation_name(SIMPLE_TYPE_MAP[name], nullable)
          if name in custom_scalars:  annotation = generate_result_scalar_annotation(custom_scalars[name])
                                      if nullable: annotation = Optional[annotation]
          else:                       generate_annotation_name(ANY, nullable)
      parse_list_type:  slice = parse_operation_field_type(of_type, nullable=True, …)      # items: own nullability
                        generate_list_annotation(slice, nullable)
      NonNull:          parse_operation_field_type(of_type, nullable=False, …)

  A response shape `RT` is what a selection set (fragments flattened) asks for: custom-scalar leaves,
  other leaves, lists, objects.  The full generator for arbitrary selections is Model/ResultTypes.lean
  (C01); here only the custom-scalar wrapper cases matter, and the correspondence compares `annOfR`
  with the annotations of REAL generated result classes.  Core Lean only.
-/
import AriadneModel.Model.Scalars
import AriadneModel.Model.Json

namespace Ariadne.ResultAnn
open Ariadne Ariadne.Scalars

/-- shape of a response position (`nn` = the GraphQL type is non-null there) -/
inductive RT where
  | custom (scalar : String) (nn : Bool)          -- a custom scalar (configured or not)
  | plain (py : String) (nn : Bool)               -- any other leaf; `py` = the emitted annotation name
  | list (item : RT) (nn : Bool)
  | obj (fields : List (String × RT)) (nn : Bool) -- response key ↦ shape
  deriving Inhabited

mutual
  /-- the emitted annotation -/
  def annOfR (cfg : ScalarCfg) : RT → RAnn
    | .custom sc nn =>
      .leaf (match lookupScalar cfg sc with
             | some d => resultLeaf d
             | none => .name "Any") (!nn)
    | .plain py nn => .leaf (.name py) (!nn)
    | .list it nn => .list (annOfR cfg it) (!nn)
    | .obj fs nn => .obj (annOfFields cfg fs) (!nn)
  def annOfFields (cfg : ScalarCfg) : List (String × RT) → List (String × RAnn)
    | [] => []
    | (k, t) :: rest => (k, annOfR cfg t) :: annOfFields cfg rest
end

mutual
  /-- `j` is a value a spec-conformant server can return at a position of shape `t`
      (null only where nullable, arrays for lists, objects carrying every selected key) -/
  def conforms : RT → J → Bool
    | .custom _ nn, j => !(j.isNull && nn)
    | .plain _ nn, j => !(j.isNull && nn)
    | .list it nn, j =>
      match j with
      | .null => !nn
      | .arr xs => xs.all (conforms it)
      | _ => false
    | .obj fs nn, j =>
      match j with
      | .null => !nn
      | .obj kvs => conformsFields fs kvs
      | _ => false
  def conformsFields : List (String × RT) → List (String × J) → Bool
    | [], _ => true
    | (k, t) :: rest, kvs =>
      (match J.lookup k kvs with
       | some v => conforms t v
       | none => false) && conformsFields rest kvs
end

mutual
  /-- the non-null custom-scalar occurrences of a response value whose scalar has `parse`
      configured, in selection / list order -/
  def occurrences (cfg : ScalarCfg) : RT → J → List ParseCall
    | .custom sc _, j =>
      if j.isNull then []
      else match lookupScalar cfg sc with
        | some d => (match d.parseName with | some p => [⟨p, j⟩] | none => [])
        | none => []
    | .plain _ _, _ => []
    | .list it _, j =>
      match j with
      | .arr xs => (xs.map (occurrences cfg it)).flatten
      | _ => []
    | .obj fs _, j =>
      match j with
      | .obj kvs => occurrencesFields cfg fs kvs
      | _ => []
  def occurrencesFields (cfg : ScalarCfg) : List (String × RT) → List (String × J) → List ParseCall
    | [], _ => []
    | (k, t) :: rest, kvs =>
      (match J.lookup k kvs with
       | some v => occurrences cfg t v
       | none => []) ++ occurrencesFields cfg rest kvs
end

end Ariadne.ResultAnn
