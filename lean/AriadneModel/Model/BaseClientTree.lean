/-
  Vocabulary in which C11 is *stated* (core Lean only, so the driver can evaluate the decidable
  predicates on the harness's inputs): structured paths and their rendering as the multipart
  spec's dotted strings, upload positions of a variables tree, the tree with its uploads nulled,
  the "ideal" tree in which every pydantic model is replaced by its dump, validity of the encoding
  of a Python value, the two finding triggers, HTTP field lookup.

  Nothing here models ariadne-codegen code; Model/BaseClient.lean does.
-/
import AriadneModel.Model.BaseClient

namespace Ariadne.BaseClient
open Ariadne

/-! ### paths -/

inductive Seg where
  | key (k : String)
  | idx (i : Nat)
  deriving DecidableEq, Repr

def Seg.str : Seg → String
  | .key k => k
  | .idx i => toString i

abbrev Path := List Seg

/-- `"variables.a.0.b"`: the multipart request spec's object-path notation. -/
def render (base : String) : Path → String
  | [] => base
  | s :: rest => render (base ++ "." ++ s.str) rest

def lookupPV (k : String) : List (String × PV) → Option PV
  | [] => none
  | (k', v) :: rest => if k' = k then some v else lookupPV k rest

/-- the value at a path (`dict[k]`, `list[i]`); models and leaves are opaque. -/
def pvAt? : Path → PV → Option PV
  | [], v => some v
  | .idx i :: p, .list xs => match xs[i]? with | some x => pvAt? p x | none => none
  | .key k :: p, .dict kvs => match lookupPV k kvs with | some x => pvAt? p x | none => none
  | _ :: _, _ => none

/-- the same on decoded JSON (what the server does with a `map` entry). -/
def jAt? : Path → J → Option J
  | [], v => some v
  | .idx i :: p, .arr xs => match xs[i]? with | some x => jAt? p x | none => none
  | .key k :: p, .obj kvs => match J.lookup k kvs with | some x => jAt? p x | none => none
  | _ :: _, _ => none

/-! ### upload positions, nulling, expansion of models -/

mutual
  /-- the tree `separate_files` must return: every visible Upload replaced by `None`. -/
  def nullUploads : PV → PV
    | .upload _ => .none
    | .list xs => .list (nullUploadsList xs)
    | .dict kvs => .dict (nullUploadsKvs kvs)
    | .none => .none
    | .unset => .unset
    | .bool b => .bool b
    | .num m e => .num m e
    | .str s => .str s
    | .model d j => .model d j
    | .leaf j => .leaf j
  def nullUploadsList : List PV → List PV
    | [] => []
    | x :: xs => nullUploads x :: nullUploadsList xs
  def nullUploadsKvs : List (String × PV) → List (String × PV)
    | [] => []
    | (k, x) :: rest => (k, nullUploads x) :: nullUploadsKvs rest
end

mutual
  /-- the Upload positions of a tree in traversal order (models opaque). -/
  def upos : PV → List (Path × Nat)
    | .upload i => [([], i)]
    | .list xs => uposList 0 xs
    | .dict kvs => uposKvs kvs
    | .none => []
    | .unset => []
    | .bool _ => []
    | .num _ _ => []
    | .str _ => []
    | .model _ _ => []
    | .leaf _ => []
  def uposList (i : Nat) : List PV → List (Path × Nat)
    | [] => []
    | x :: xs => (upos x).map (fun pu => (Seg.idx i :: pu.1, pu.2)) ++ uposList (i + 1) xs
  def uposKvs : List (String × PV) → List (Path × Nat)
    | [] => []
    | (k, x) :: rest => (upos x).map (fun pu => (Seg.key k :: pu.1, pu.2)) ++ uposKvs rest
end

mutual
  /-- no Upload visible anywhere (models opaque) -/
  def noUpload : PV → Bool
    | .upload _ => false
    | .list xs => noUploadList xs
    | .dict kvs => noUploadKvs kvs
    | .none => true
    | .unset => true
    | .bool _ => true
    | .num _ _ => true
    | .str _ => true
    | .model _ _ => true
    | .leaf _ => true
  def noUploadList : List PV → Bool
    | [] => true
    | x :: xs => noUpload x && noUploadList xs
  def noUploadKvs : List (String × PV) → Bool
    | [] => true
    | (_, x) :: rest => noUpload x && noUploadKvs rest
end

mutual
  /-- the variables tree the property speaks about: every pydantic model, wherever it sits,
      stands for its `model_dump(by_alias=True, exclude_unset=True)`. -/
  def expand : PV → PV
    | .model d _ => expand d
    | .list xs => .list (expandList xs)
    | .dict kvs => .dict (expandKvs kvs)
    | .none => .none
    | .unset => .unset
    | .bool b => .bool b
    | .num m e => .num m e
    | .str s => .str s
    | .upload i => .upload i
    | .leaf j => .leaf j
  def expandList : List PV → List PV
    | [] => []
    | x :: xs => expand x :: expandList xs
  def expandKvs : List (String × PV) → List (String × PV)
    | [] => []
    | (k, x) :: rest => (k, expand x) :: expandKvs rest
end

/-- `{k: v for k, v in variables.items() if v is not UNSET}` -/
def dropUnset : List (String × PV) → List (String × PV)
  | [] => []
  | (k, v) :: rest => if v.isUnset then dropUnset rest else (k, v) :: dropUnset rest

/-- The variables tree of a call as the property reads it (`None` and `{}` are the empty dict). -/
def idealVars (vars : Option (List (String × PV))) : List (String × PV) :=
  expandKvs (dropUnset (vars.getD []))

/-- first occurrences, in order -/
def firstOcc : List Nat → List Nat
  | [] => []
  | x :: xs => x :: (firstOcc xs).filter (· ≠ x)

/-! ### validity of the encoding of a Python value (not findings: what a Python value *is*) -/

mutual
  def noModel : PV → Bool
    | .model _ _ => false
    | .list xs => noModelList xs
    | .dict kvs => noModelKvs kvs
    | .none => true
    | .unset => true
    | .bool _ => true
    | .num _ _ => true
    | .str _ => true
    | .upload _ => true
    | .leaf _ => true
  def noModelList : List PV → Bool
    | [] => true
    | x :: xs => noModel x && noModelList xs
  def noModelKvs : List (String × PV) → Bool
    | [] => true
    | (_, x) :: rest => noModel x && noModelKvs rest
end

def keysOf : List (String × PV) → List String
  | [] => []
  | (k, _) :: rest => k :: keysOf rest

def distinct : List String → Bool
  | [] => true
  | k :: ks => !ks.contains k && distinct ks

mutual
  /-- Python dicts have unique keys (also inside dumps). -/
  def uniq : PV → Bool
    | .dict kvs => distinct (keysOf kvs) && uniqKvs kvs
    | .list xs => uniqList xs
    | .model d _ => uniq d
    | .none => true
    | .unset => true
    | .bool _ => true
    | .num _ _ => true
    | .str _ => true
    | .upload _ => true
    | .leaf _ => true
  def uniqList : List PV → Bool
    | [] => true
    | x :: xs => uniq x && uniqList xs
  def uniqKvs : List (String × PV) → Bool
    | [] => true
    | (_, x) :: rest => uniq x && uniqKvs rest
end

mutual
  /-- pydantic dumps recursively: a dump contains no model instance. -/
  def plain : PV → Bool
    | .model d _ => noModel d
    | .list xs => plainList xs
    | .dict kvs => plainKvs kvs
    | .none => true
    | .unset => true
    | .bool _ => true
    | .num _ _ => true
    | .str _ => true
    | .upload _ => true
    | .leaf _ => true
  def plainList : List PV → Bool
    | [] => true
    | x :: xs => plain x && plainList xs
  def plainKvs : List (String × PV) → Bool
    | [] => true
    | (_, x) :: rest => plain x && plainKvs rest
end

mutual
  /-- Everything that is not an Upload can be serialised by `json.dumps(default=to_jsonable_python)`:
      leaves are serialisable objects, UNSET does not occur (it is only meaningful as a top-level
      variable value), and `to_jsonable_python(model)` succeeds unless the model holds an Upload. -/
  def ser : PV → Bool
    | .unset => false
    | .leaf j => j.isSome
    | .model d j => ser d && (j.isSome || !(upos d).isEmpty)
    | .list xs => serList xs
    | .dict kvs => serKvs kvs
    | .none => true
    | .bool _ => true
    | .num _ _ => true
    | .str _ => true
    | .upload _ => true
  def serList : List PV → Bool
    | [] => true
    | x :: xs => ser x && serList xs
  def serKvs : List (String × PV) → Bool
    | [] => true
    | (_, x) :: rest => ser x && serKvs rest
end

/-- top-level values: UNSET is allowed there (it is dropped). -/
def serTop : List (String × PV) → Bool
  | [] => true
  | (_, x) :: rest => (x.isUnset || ser x) && serTop rest

/-! ### keys that are GraphQL names: rendering a path is then injective -/

/-- a key that cannot be confused with a path separator or a list index: no '.', not a numeral -/
def keyOk (k : String) : Bool := !k.toList.contains '.' && k.toList.any (fun c => !c.isDigit)

def segOk : Seg → Bool
  | .key k => keyOk k
  | .idx _ => true

def pathOk : Path → Bool
  | [] => true
  | s :: r => segOk s && pathOk r

mutual
  def keysOk : PV → Bool
    | .dict kvs => keysOkKvs kvs
    | .list xs => keysOkList xs
    | .none => true
    | .unset => true
    | .bool _ => true
    | .num _ _ => true
    | .str _ => true
    | .model _ _ => true
    | .upload _ => true
    | .leaf _ => true
  def keysOkList : List PV → Bool
    | [] => true
    | x :: xs => keysOk x && keysOkList xs
  def keysOkKvs : List (String × PV) → Bool
    | [] => true
    | (k, x) :: rest => keyOk k && keysOk x && keysOkKvs rest
end

/-! ### HTTP header fields (RFC 9110: names are case-insensitive) -/

def lowerName (s : String) : List Char := s.toList.map Char.toLower

/-- all values of the field `name` in a header list, in order -/
def fieldValues (name : String) : List (String × String) → List String
  | [] => []
  | (k, v) :: rest => if lowerName k = lowerName name then v :: fieldValues name rest else fieldValues name rest

def headerKeys : List (String × String) → List String
  | [] => []
  | (k, _) :: rest => k :: headerKeys rest

/-- no two keys of the caller's dict name the same field -/
def ciDistinct : List (String × String) → Bool
  | [] => true
  | (k, _) :: rest => !((headerKeys rest).map lowerName).contains (lowerName k) && ciDistinct rest

/-! ### finding triggers -/

/-- the caller passes a Content-Type header spelled differently from `Content-Type` -/
def ctOtherSpelling (hs : Option (List (String × String))) : Bool :=
  (headerKeys (hs.getD [])).any fun k => lowerName k = lowerName "Content-Type" && k != "Content-Type"

mutual
  /-- below a raw dict nothing is dumped: a model there that holds an Upload hides it -/
  def hidden : PV → Bool
    | .model d _ => !(upos d).isEmpty
    | .list xs => hiddenList xs
    | .dict kvs => hiddenKvs kvs
    | .none => false
    | .unset => false
    | .bool _ => false
    | .num _ _ => false
    | .str _ => false
    | .upload _ => false
    | .leaf _ => false
  def hiddenList : List PV → Bool
    | [] => false
    | x :: xs => hidden x || hiddenList xs
  def hiddenKvs : List (String × PV) → Bool
    | [] => false
    | (_, x) :: rest => hidden x || hiddenKvs rest
end

mutual
  /-- at top level and through lists models are dumped; below the first raw dict they are not -/
  def hiddenTop : PV → Bool
    | .model _ _ => false
    | .list xs => hiddenTopList xs
    | .dict kvs => hiddenKvs kvs
    | .none => false
    | .unset => false
    | .bool _ => false
    | .num _ _ => false
    | .str _ => false
    | .upload _ => false
    | .leaf _ => false
  def hiddenTopList : List PV → Bool
    | [] => false
    | x :: xs => hiddenTop x || hiddenTopList xs
end

def hiddenTopKvs : List (String × PV) → Bool
  | [] => false
  | (_, x) :: rest => hiddenTop x || hiddenTopKvs rest

/-- C11-F2: a pydantic model that holds an Upload sits below a raw dict of the variables. -/
def trigUploadInModelBelowDict (c : Call) : Bool := hiddenTopKvs (c.variables.getD [])

/-- C11-F1: a JSON request (no Upload anywhere) whose caller spells Content-Type differently. -/
def trigContentTypeCase (c : Call) : Bool :=
  ctOtherSpelling c.headers && (uposKvs (idealVars c.variables)).isEmpty

/-- the encoding is that of a Python value within the property's quantifier -/
def validVars (vars : Option (List (String × PV))) : Bool :=
  let kvs := vars.getD []
  distinct (keysOf kvs) && uniqKvs kvs && plainKvs kvs && serTop kvs

def validHeaders (hs : Option (List (String × String))) : Bool := ciDistinct (hs.getD [])

def validCall (c : Call) : Bool := validVars c.variables && validHeaders c.headers

end Ariadne.BaseClient
