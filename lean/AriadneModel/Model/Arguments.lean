/-
  Model of `ArgumentsGenerator` (client_generators/arguments.py): the signature and the
  `variables` dict of a generated client method (property C03; custom-scalar branch also C07).

      def generate(self, variable_definitions):
          required_args = [generate_arg("self")]; optional_args = []; dict_ = generate_dict()
          for variable_definition in variable_definitions:
              org_name = variable_definition.variable.name.value
              name = process_name(org_name, convert_to_snake_case=self.convert_to_snake_case, …)
              annotation, used_custom_scalar = self._parse_type_node(variable_definition.type)
              arg = generate_arg(name, annotation)
              if self._is_nullable(annotation):
                  arg.annotation = self._process_optional_arg_annotation(annotation)   # Union[ann, UnsetType]
                  optional_args.append(arg)
              else:
                  required_args.append(arg)
              dict_.keys.append(generate_constant(org_name))
              dict_.values.append(self._get_dict_value(name, used_custom_scalar))
          arguments = generate_arguments(args=required_args + optional_args,
                                         defaults=[generate_name(UNSET_NAME) for _ in optional_args],
                                         kwarg=generate_arg(KWARGS_NAMES, annotation=generate_name(ANY)))

      def _parse_type_node(self, node, nullable=True):
          NamedTypeNode   -> self._parse_named_type_node(node, nullable)
          ListTypeNode    -> sub, used = self._parse_type_node(node.type, nullable)      # NB: `nullable` is
                             generate_list_annotation(sub, nullable), used               #     handed DOWN to the items
          NonNullTypeNode -> self._parse_type_node(node.type, False)

      def _parse_named_type_node(self, node, nullable=True):
          type_ = self.schema.type_map.get(name)
          if not type_: raise ParsingError(f"Argument type {name} not found in schema.")
          input object -> self._used_inputs.append(name)
          enum         -> self._used_enums.append(name)
          scalar       -> if name not in self.custom_scalars: name = INPUT_SCALARS_MAP.get(name, ANY)
                          else: used_custom_scalar = name; name = self.custom_scalars[name].type_name
          else         -> raise ParsingError(f"Incorrect argument type {name}")
          return generate_annotation_name(name, nullable), used_custom_scalar

      def _get_dict_value(self, name, used_custom_scalar):
          if used_custom_scalar:
              self._used_custom_scalars.append(used_custom_scalar)
              scalar_data = self.custom_scalars[used_custom_scalar]
              if scalar_data.serialize_name:
                  return generate_call(func=generate_name(scalar_data.serialize_name), args=[generate_name(name)])
          return generate_name(name)

  The three `_used_*` lists live on the generator object and grow over all `generate` calls
  (`St`).  Plugin hooks are the identity (no plugin).  Core Lean only.
-/
import AriadneModel.Model.Gql
import AriadneModel.Model.Util
import AriadneModel.Model.Names
import AriadneModel.Model.Scalars
import AriadneModel.Generated.Tables

namespace Ariadne.Arguments
open Ariadne Ariadne.Gql Ariadne.Scalars

structure VarDef where
  name : String
  type : TypeRef
  deriving Repr, DecidableEq, Inhabited

/-- `process_name(org_name, convert_to_snake_case=…)` at the arguments call site
    (no trimming, no reserved-name handling): `Names.variableCfg`. -/
def pyVar (snake : Bool) (n : String) : String :=
  String.ofList (Names.pyName snake .variable n.toList)

/-- one parameter of the emitted signature.  `ann` is the annotation `_parse_type_node` returned;
    for an optional parameter the emitted annotation is `Union[ann, UnsetType]` and the default `UNSET`. -/
structure Arg where
  py : String
  ann : NAnn
  optional : Bool
  deriving Repr, DecidableEq, Inhabited

/-- a value of the emitted `variables` dict literal -/
inductive DictVal where
  | name (py : String)                 -- `py`
  | call (fn py : String)              -- `fn(py)`
  deriving Repr, DecidableEq, Inhabited

inductive GenErr where
  | parsing (msg : String)             -- ParsingError
  | notSupported (msg : String)        -- NotSupported (client.py add_method)
  deriving Repr, DecidableEq

/-- `_used_inputs`, `_used_enums`, `_used_custom_scalars` -/
structure St where
  usedInputs : List String := []
  usedEnums : List String := []
  usedScalars : List String := []
  deriving Repr, DecidableEq, Inhabited

/-- `kind n` = which `isinstance` test `self.schema.type_map.get(n)` passes (`none` = not in the
    type map); `scalars` = `self.custom_scalars`; `snake` = `self.convert_to_snake_case` -/
structure Env where
  kind : String → Option Kind
  scalars : ScalarCfg := []
  snake : Bool := true

/-- what `_parse_named_type_node` appends to the generator's lists / reports as `used_custom_scalar` -/
inductive Use where
  | plain                       -- a scalar that is not configured
  | input (n : String)          -- `_used_inputs.append(n)`
  | enum (n : String)           -- `_used_enums.append(n)`
  | custom (n : String)         -- `used_custom_scalar = n`
  deriving Repr, DecidableEq, Inhabited

/-- `_parse_named_type_node` -/
def parseNamed (env : Env) (n : String) (nullable : Bool) : Except GenErr (NAnn × Use) :=
  match env.kind n with
  | none => .error (.parsing s!"Argument type {n} not found in schema.")
  | some .input => .ok (.leaf (.name n) nullable, .input n)
  | some .enum => .ok (.leaf (.name n) nullable, .enum n)
  | some .scalar =>
    match lookupScalar env.scalars n with
    | none => .ok (.leaf (.name ((Util.lookupStr n Tables.inputScalarsMap).getD "Any")) nullable, .plain)
    | some d => .ok (.leaf (.name d.typeName) nullable, .custom n)
  | some _ => .error (.parsing s!"Incorrect argument type {n}")

/-- `_parse_type_node` -/
def parseTypeNode (env : Env) : TypeRef → (nullable : Bool) → Except GenErr (NAnn × Use)
  | .named n, nullable => parseNamed env n nullable
  | .list t, nullable =>
    match parseTypeNode env t nullable with
    | .ok (sub, use) => .ok (.list sub nullable, use)
    | .error e => .error e
  | .nonNull t, _ => parseTypeNode env t false

/-- `_get_dict_value` (the expression; the append to `_used_custom_scalars` is `St.record`) -/
def dictValue (env : Env) (py : String) : Use → DictVal
  | .custom sc =>
    match lookupScalar env.scalars sc with
    | some d =>
      match d.serializeName with
      | some f => .call f py
      | none => .name py
    | none => .name py          -- unreachable: `custom` is only reported for configured scalars
  | _ => .name py

/-- the side effects of one loop iteration on the generator's lists -/
def St.record (st : St) : Use → St
  | .plain => st
  | .input n => { st with usedInputs := st.usedInputs ++ [n] }
  | .enum n => { st with usedEnums := st.usedEnums ++ [n] }
  | .custom n => { st with usedScalars := st.usedScalars ++ [n] }

/-- everything one loop iteration of `generate` produces for a variable definition -/
structure Item where
  org : String                -- the GraphQL variable name: key of the `variables` dict
  arg : Arg
  value : DictVal
  use : Use
  deriving Repr, DecidableEq, Inhabited

def item (env : Env) (v : VarDef) : Except GenErr Item :=
  let py := pyVar env.snake v.name
  match parseTypeNode env v.type true with
  | .error e => .error e
  | .ok (ann, use) => .ok ⟨v.name, ⟨py, ann, ann.opt⟩, dictValue env py use, use⟩

def items (env : Env) : List VarDef → Except GenErr (List Item)
  | [] => .ok []
  | v :: vs =>
    match item env v, items env vs with
    | .ok i, .ok is => .ok (i :: is)
    | .error e, _ => .error e
    | _, .error e => .error e

structure Out where
  required : List Arg := []          -- without the leading `self`
  optional : List Arg := []
  dict : List (String × DictVal) := []
  deriving Repr, DecidableEq, Inhabited

def outOf (is : List Item) : Out :=
  { required := (is.filter (fun i => !i.arg.optional)).map (·.arg),
    optional := (is.filter (fun i => i.arg.optional)).map (·.arg),
    dict := is.map (fun i => (i.org, i.value)) }

/-- `ArgumentsGenerator.generate`: the signature, the dict, and the generator's lists afterwards.
    (An exception leaves the lists partially extended; the whole run aborts then, so that state is
    never observed.) -/
def generate (env : Env) (defs : List VarDef) (st : St) : Except GenErr (Out × St) :=
  match items env defs with
  | .error e => .error e
  | .ok is => .ok (outOf is, is.foldl (fun st i => st.record i.use) st)

/-- `arguments.args` as emitted: `self`, required, optional (in that order) -/
def Out.params (o : Out) : List Arg := o.required ++ o.optional

end Ariadne.Arguments
