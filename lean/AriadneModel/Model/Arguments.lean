/-
  Model of `ArgumentsGenerator` (client_generators/arguments.py): the signature and the
  `variables` dict of a generated client method (property C03; custom-scalar branch also C07).

      def generate(self, variable_definitions):
          required_args = [generate_arg("self")]; optional_args = []; dict_ = generate_dict()
          for variable_definition in variable_definitions:
              org_name = variable_definition.variable.name.value
              name = process_name(org_name, convert_to_snake_case=self.convert_to_snake_case, …)
              annotation, used_custom_scalar = self._parse_type_node(variable_definition.type)
              arg = generate_arg(name, annotation)
              if self._is_nullable(annotation):
                  arg.annotation = self._process_optional_arg_annotation(annotation)   # Union[ann, UnsetType]
                  optional_args.append(arg)
              else:
                  required_args.append(arg)
              dict_.keys.append(generate_constant(org_name))
              dict_.values.append(self._get_dict_value(name, used_custom_scalar))
          arguments = generate_arguments(args=required_args + optional_args,
                                         defaults=[generate_name(UNSET_NAME) for _ in optional_args],
                                         kwarg=generate_arg(KWARGS_NAMES, annotation=generate_name(ANY)))

      def _parse_type_node(self, node, nullable=True):
          NamedTypeNode   -> self._parse_named_type_node(node, nullable)
          ListTypeNode    -> sub, used = self._parse_type_node(node.type, nullable)      # NB: `nullable` is
                             generate_list_annotation(sub, nullable), used               #     handed DOWN to the items
          NonNullTypeNode -> self._parse_type_node(node.type, False)

      def _parse_named_type_node(self, node, nullable=True):
          type_ = self.schema.type_map.get(name)
          if not type_: raise ParsingError(f"Argument type {name} not found in schema.")
          input object -> self._used_inputs.append(name)
          enum         -> self._used_enums.append(name)
          scalar       -> if name not in self.custom_scalars: name = INPUT_SCALARS_MAP.get(name, ANY)
                          else: used_custom_scalar = name; name = self.custom_scalars[name].type_name
          else         -> raise ParsingError(f"Incorrect argument type {name}")
          return generate_annotation_name(name, nullable), used_custom_scalar

      def _get_dict_value(self, name, used_custom_scalar):
          if used_custom_scalar:
              self._used_custom_scalars.append(used_custom_scalar)
              scalar_data = self.custom_scalars[used_custom_scalar]
              if scalar_data.serialize_name:
                  return generate_call(func=generate_name(scalar_data.serialize_name), args=[generate_name(name)])
          return generate_name(name)

  The three `_used_*` lists live on the generator object and grow over all `generate` calls
  (`St`).  Plugin hooks are the identity (no plugin).  Core Lean only.
-/
import AriadneModel.Model.Gql
import AriadneModel.Model.Util
import AriadneModel.Model.Names
import AriadneModel.Model.Scalars
import AriadneModel.Generated.Tables

namespace Ariadne.Arguments
open Ariadne Ariadne.Gql Ariadne.Scalars

structure VarDef where
  name : String
  type : TypeRef
  deriving Repr, DecidableEq, Inhabited

/-- `process_name(org_name, convert_to_snake_case=…)` at the arguments call site
    (no trimming, no reserved-name handling): `Names.variableCfg`. -/
def pyVar (snake : Bool) (n : String) : String :=
  String.ofList (Names.pyName snake .variable n.toList)

/-- one parameter of the emitted signature.  `ann` is the annotation `_parse_type_node` returned;
    for an optional parameter the emitted annotation is `Union[ann, UnsetType]` and the default `UNSET`. -/
structure Arg where
  py : String
  ann : NAnn
  optional : Bool
  deriving Repr, DecidableEq, Inhabited

/-- a value of the emitted `variables` dict literal -/
inductive DictVal where
  | name (py : String)                 -- `py`
  | call (fn py : String)              -- `fn(py)`
  deriving Repr, DecidableEq, Inhabited

inductive GenErr where
  | parsing (msg : String)             -- ParsingError
  | notSupported (msg : String)        -- NotSupported (client.py add_method)
  deriving Repr, DecidableEq

/-- `_used_inputs`, `_used_enums`, `_used_custom_scalars` -/
structure St where
  usedInputs : List String := []
  usedEnums : List String := []
  usedScalars : List String := []
  deriving Repr, DecidableEq, Inhabited

structure Env where
  schema : Schema
  scalars : ScalarCfg := []
  snake : Bool := true

/-- `_parse_named_type_node` -/
def parseNamed (env : Env) (n : String) (nullable : Bool) (st : St) : Except GenErr (NAnn × Option String × St) :=
  match env.schema.kindOf? n with
  | none => .error (.parsing s!"Argument type {n} not found in schema.")
  | some .input => .ok (.leaf (.name n) nullable, none, { st with usedInputs := st.usedInputs ++ [n] })
  | some .enum => .ok (.leaf (.name n) nullable, none, { st with usedEnums := st.usedEnums ++ [n] })
  | some .scalar =>
    match lookupScalar env.scalars n with
    | none => .ok (.leaf (.name ((Util.lookupStr n Tables.inputScalarsMap).getD "Any")) nullable, none, st)
    | some d => .ok (.leaf (.name d.typeName) nullable, some n, st)
  | some _ => .error (.parsing s!"Incorrect argument type {n}")

/-- `_parse_type_node` -/
def parseTypeNode (env : Env) : TypeRef → (nullable : Bool) → St → Except GenErr (NAnn × Option String × St)
  | .named n, nullable, st => parseNamed env n nullable st
  | .list t, nullable, st =>
    match parseTypeNode env t nullable st with
    | .ok (sub, used, st) => .ok (.list sub nullable, used, st)
    | .error e => .error e
  | .nonNull t, _, st => parseTypeNode env t false st

/-- `_get_dict_value` -/
def dictValue (env : Env) (py : String) (used : Option String) (st : St) : DictVal × St :=
  match used with
  | none => (.name py, st)
  | some sc =>
    let st := { st with usedScalars := st.usedScalars ++ [sc] }
    match lookupScalar env.scalars sc with
    | some d =>
      match d.serializeName with
      | some f => (.call f py, st)
      | none => (.name py, st)
    | none => (.name py, st)          -- unreachable: `used` is only set for configured scalars

structure Out where
  required : List Arg := []          -- without the leading `self`
  optional : List Arg := []
  dict : List (String × DictVal) := []
  deriving Repr, DecidableEq, Inhabited

/-- the loop body of `generate` -/
def step (env : Env) (acc : Out × St) (v : VarDef) : Except GenErr (Out × St) :=
  let (out, st) := acc
  let py := pyVar env.snake v.name
  match parseTypeNode env v.type true st with
  | .error e => .error e
  | .ok (ann, used, st) =>
    let (dv, st) := dictValue env py used st
    let arg : Arg := ⟨py, ann, ann.opt⟩
    let out :=
      if ann.opt then { out with optional := out.optional ++ [arg], dict := out.dict ++ [(v.name, dv)] }
      else { out with required := out.required ++ [arg], dict := out.dict ++ [(v.name, dv)] }
    .ok (out, st)

def generateFrom (env : Env) : List VarDef → Out × St → Except GenErr (Out × St)
  | [], acc => .ok acc
  | v :: vs, acc =>
    match step env acc v with
    | .ok acc => generateFrom env vs acc
    | .error e => .error e

/-- `ArgumentsGenerator.generate` -/
def generate (env : Env) (defs : List VarDef) (st : St) : Except GenErr (Out × St) :=
  generateFrom env defs ({}, st)

/-- `arguments.args` as emitted: `self`, required, optional (in that order) -/
def Out.params (o : Out) : List Arg := o.required ++ o.optional

end Ariadne.Arguments
