/-
  Shared GraphQL-side vocabulary of the generator models (DESIGN.md §2): schemas, type references,
  selection sets, fragments, operations — exactly the information ariadne-codegen's generators read
  from graphql-core's schema and AST objects.  Core Lean only.

  Every selection set carries a unique id `sid` (assigned by the harness when it serialises the
  parsed document): ariadne-codegen *mutates* selection sets in place (automatic `__typename`),
  and the fragment definitions are shared between operations, so the identity of a selection set
  is observable (DESIGN.md §3 C01, finding C01-F4).
-/
import AriadneModel.Model.Json

namespace Ariadne.Gql

inductive TypeRef where
  | named (n : String)
  | list (t : TypeRef)
  | nonNull (t : TypeRef)
  deriving Repr, DecidableEq, Inhabited

namespace TypeRef
def base : TypeRef → String
  | named n => n
  | list t => t.base
  | nonNull t => t.base
end TypeRef

inductive Kind where
  | scalar | object | interface | union | enum | input
  deriving Repr, DecidableEq, Inhabited

structure ArgDef where
  name : String
  type : TypeRef
  hasDefault : Bool := false
  deriving Repr, DecidableEq

structure FieldDef where
  name : String
  type : TypeRef
  args : List ArgDef := []
  deriving Repr, DecidableEq

structure InputFieldDef where
  name : String
  type : TypeRef
  hasDefault : Bool := false
  deriving Repr, DecidableEq

structure TypeDef where
  name : String
  kind : Kind
  fields : List FieldDef := []
  interfaces : List String := []
  members : List String := []
  values : List String := []
  inputFields : List InputFieldDef := []
  deriving Repr, DecidableEq

structure Schema where
  types : List TypeDef
  query : Option String := none
  mutation : Option String := none
  subscription : Option String := none
  deriving Repr

namespace Schema

/-- `schema.type_map.get(name)` -/
def get? (s : Schema) (n : String) : Option TypeDef := s.types.find? (·.name == n)

def kindOf? (s : Schema) (n : String) : Option Kind := (s.get? n).map (·.kind)

/-- graphql-core `is_abstract_type` -/
def isAbstract (s : Schema) (n : String) : Bool :=
  match s.kindOf? n with
  | some .interface => true
  | some .union => true
  | _ => false

/-- graphql-core `schema.is_sub_type(abstract_type, maybe_sub_type)`: union members, or the
    objects *and interfaces* that list the interface among their `interfaces`. -/
def isSubType (s : Schema) (abstract sub : String) : Bool :=
  match s.get? abstract with
  | some t =>
    match t.kind with
    | .union => t.members.contains sub
    | .interface =>
      match s.get? sub with
      | some st => (st.kind == .object || st.kind == .interface) && st.interfaces.contains abstract
      | none => false
    | _ => false
  | none => false

/-- graphql-core `schema.get_possible_types(abstract_type)` (object types only). -/
def possibleTypes (s : Schema) (abstract : String) : List String :=
  match s.get? abstract with
  | some t =>
    match t.kind with
    | .union => t.members
    | .interface => (s.types.filter fun o => o.kind == .object && o.interfaces.contains abstract).map (·.name)
    | _ => []
  | none => []

def fieldOf? (s : Schema) (typeName fieldName : String) : Option FieldDef :=
  match s.get? typeName with
  | some t => t.fields.find? (·.name == fieldName)
  | none => none

end Schema

/-- A directive as the generators see it: its name and its arguments; an argument value is
    `some s` when it is a string literal and `none` otherwise (`@mixin` demands strings). -/
structure Directive where
  name : String
  args : List (String × Option String) := []
  deriving Repr, DecidableEq

inductive Selection where
  | field (alias : Option String) (name : String) (dirs : List Directive) (sid : Nat) (sub : List Selection)
  | spread (name : String) (dirs : List Directive)
  | inline (on : Option String) (dirs : List Directive) (sid : Nat) (sub : List Selection)
  deriving Repr, Inhabited

structure Fragment where
  name : String
  on : String
  dirs : List Directive := []
  sid : Nat
  sel : List Selection
  deriving Repr

inductive OpKind where
  | query | mutation | subscription
  deriving Repr, DecidableEq

structure Operation where
  kind : OpKind
  name : Option String
  dirs : List Directive := []
  sid : Nat
  sel : List Selection
  deriving Repr

def findFragment? (frags : List Fragment) (n : String) : Option Fragment := frags.find? (·.name == n)

end Ariadne.Gql
