/-
  C14 — model of the generators that emit the builder classes (schema ↦ `Builder.Package`).
  Core Lean only.

  Python modelled (ariadne_codegen/client_generators)

  custom_generator_utils.py
      get_final_type(t):  strip `of_type` wrappers (and `.type` of fields/arguments)
      TypeCollector.collect(): closure from the final types of the Query and Mutation fields:
          object/interface T:  subfields whose final type is an OBJECT are followed, UNION-typed subfields
                               contribute the union's members (interface-typed subfields are not followed),
                               plus T.interfaces;   union U: its members.        -> sorted(collected)
  custom_fields.py  CustomFieldsGenerator
      _parse_object_type_definitions: for every collected object/interface T a class `T+"Fields"` /
          `T+"Interface"` (+ `on` for interfaces), always `fields` and `alias`
      _get_combined_fields(T): dict(T.fields); for i in T.interfaces: fields.update(i.fields)
      _generate_class_def_body / _get_field_name / _generate_class_field, for every combined field
          (org_name, field), name = process_name(org_name, convert_to_snake_case):
            final type object    -> classmethod returning  Final+"Fields"(name, arguments=…)
            final type interface -> classmethod returning  Final+"Interface"(name, arguments=…)
            final type union     -> field has args ? classmethod returning Final+"Union"(name, …)
                                                   : class attribute   Final+"Union"(org_name)
            otherwise            -> field has args ? classmethod returning T+"GraphQLField"(name, …)
                                                   : class attribute   T+"GraphQLField"(org_name)
          generate_product_type_method passes `generate_constant(name)` — the PYTHON name — as field_name
  custom_arguments.py  ArgumentGenerator.generate_arguments / _accumulate_return_arguments
          per argument (arg_name, arg):  final = get_final_type(arg); is_required = isinstance(arg.type, GraphQLNonNull)
            python parameter process_name(arg_name); positional if is_required else keyword-only `= None`
            arguments[arg_name] = {"type": f"{final.name}!" if is_required else final.name, "value": <param>}
          (list wrappers and inner non-null are NOT recorded)
  custom_operation.py  CustomOperationGenerator (classes `Query`, `Mutation`)
          per root field: classmethod str_to_snake_case(name) returning
            Final+"Fields" | Final+"Interface" | Final+"Union" | "GraphQLField" (field_name=<GraphQL name>, arguments=…)
  custom_fields_typing.py  CustomFieldsTypingGenerator
          every object/interface/union type except Query/Mutation/Subscription and `__*`:
            `T+"GraphQLField"` (alias)   |   `T+"Union"` (on, alias)

  Naming (`process_name`, `str_to_snake_case`) belongs to C18; here the python names are *inputs*
  (`FieldDef.py`, `FieldDef.opPy`, `ArgDef.py`), computed by the harness with the real functions.
  Python sets whose order does not reach the output (TypeCollector) are lists used for membership.
-/
import AriadneModel.Model.Builder

namespace Ariadne.CustomGen
open Ariadne Ariadne.Builder

inductive TRef where
  | named (n : String)
  | list (t : TRef)
  | nonNull (t : TRef)
  deriving Repr, DecidableEq

namespace TRef
def final : TRef → String
  | named n => n
  | list t => t.final
  | nonNull t => t.final
/-- GraphQL syntax of the type (what `print_ast` of the schema's type node gives) -/
def render : TRef → String
  | named n => n
  | list t => "[" ++ t.render ++ "]"
  | nonNull t => t.render ++ "!"
def isNonNull : TRef → Bool
  | nonNull _ => true
  | _ => false
def hasList : TRef → Bool
  | named _ => false
  | list _ => true
  | nonNull t => t.hasList
end TRef

inductive Kind where
  | object | interface | union | scalar | enum | input
  deriving Repr, DecidableEq

structure ArgDef where
  name : String
  py : String          -- process_name(name)
  ty : TRef
  deriving Repr

structure FieldDef where
  name : String
  py : String          -- process_name(name)
  opPy : String        -- str_to_snake_case(name), used by the Query/Mutation classes
  ty : TRef
  args : List ArgDef
  deriving Repr

structure TypeDef where
  name : String
  kind : Kind
  fields : List FieldDef := []
  interfaces : List String := []
  members : List String := []
  deriving Repr

structure Schema where
  types : List TypeDef
  query : Option String
  mutation : Option String
  deriving Repr

def Schema.find (s : Schema) (n : String) : Option TypeDef := s.types.find? (·.name == n)
def Schema.kindOf (s : Schema) (n : String) : Kind :=
  match s.find n with
  | some t => t.kind
  | none => .scalar

/-- `_accumulate_return_arguments`: the recorded type string -/
def typeString (t : TRef) : String := if t.isNonNull then t.final ++ "!" else t.final

def argSpec (a : ArgDef) : ArgSpec :=
  { key := a.name, ty := typeString a.ty, param := a.py, required := a.ty.isNonNull, exactTy := a.ty.render }

/-- `dict.update` on an insertion-ordered dict of fields keyed by GraphQL name -/
def updField (d : List FieldDef) (f : FieldDef) : List FieldDef :=
  if d.any (·.name == f.name) then d.map (fun g => if g.name == f.name then f else g) else d ++ [f]

/-- `_get_combined_fields` -/
def combinedFields (s : Schema) (t : TypeDef) : List FieldDef :=
  t.interfaces.foldl (fun d i =>
    match s.find i with
    | some it => it.fields.foldl updField d
    | none => d) t.fields

/-- `_generate_class_field` for field `f` of the class generated for type `tname` -/
def fieldAccessor (s : Schema) (tname : String) (f : FieldDef) : Accessor :=
  let fin := f.ty.final
  let args := f.args.map argSpec
  match s.kindOf fin with
  | .object => { attr := f.py, kind := .method, cls := fin ++ "Fields", fieldName := f.py, args := args, gqlName := f.name }
  | .interface => { attr := f.py, kind := .method, cls := fin ++ "Interface", fieldName := f.py, args := args, gqlName := f.name }
  | .union =>
    if f.args.isEmpty then { attr := f.py, kind := .shared, cls := fin ++ "Union", fieldName := f.name, args := [], gqlName := f.name }
    else { attr := f.py, kind := .method, cls := fin ++ "Union", fieldName := f.py, args := args, gqlName := f.name }
  | _ =>
    if f.args.isEmpty then { attr := f.py, kind := .shared, cls := tname ++ "GraphQLField", fieldName := f.name, args := [], gqlName := f.name }
    else { attr := f.py, kind := .method, cls := tname ++ "GraphQLField", fieldName := f.py, args := args, gqlName := f.name }

/-- `CustomOperationGenerator._generate_method` -/
def rootAccessor (s : Schema) (f : FieldDef) : Accessor :=
  let fin := f.ty.final
  let cls := match s.kindOf fin with
    | .object => fin ++ "Fields"
    | .interface => fin ++ "Interface"
    | .union => fin ++ "Union"
    | _ => "GraphQLField"
  { attr := f.opPy, kind := .method, cls := cls, fieldName := f.name, args := f.args.map argSpec, gqlName := f.name }

/-! ### TypeCollector (closure; membership only) -/

def addNew (acc : List String) (xs : List String) : List String :=
  xs.foldl (fun a x => if a.contains x then a else a ++ [x]) acc

/-- the names pushed on the stack when `n` is popped -/
def successors (s : Schema) (n : String) : List String :=
  match s.find n with
  | none => []
  | some t =>
    match t.kind with
    | .object | .interface =>
      (t.fields.flatMap fun f =>
        match s.find f.ty.final with
        | some ft =>
          match ft.kind with
          | .object => [ft.name]
          | .union => ft.members
          | _ => []
        | none => []) ++ t.interfaces
    | .union => t.members
    | _ => []

def closure (s : Schema) : Nat → List String → List String
  | 0, acc => acc
  | n + 1, acc => closure s n (addNew acc (acc.flatMap (successors s)))

def rootFields (s : Schema) (r : Option String) : List FieldDef :=
  match r with
  | none => []
  | some n =>
    match s.find n with
    | some t => t.fields
    | none => []

def collected (s : Schema) : List String :=
  closure s s.types.length
    (addNew [] ((rootFields s s.query ++ rootFields s s.mutation).map fun f => f.ty.final))

def operationTypes : List String := ["Query", "Mutation", "Subscription"]

/-- all classes a builder expression can mention -/
def genPackage (s : Schema) : Package :=
  let coll := collected s
  let fieldClasses := s.types.filterMap fun t =>
    if coll.contains t.name then
      match t.kind with
      | .object => some { name := t.name ++ "Fields", accessors := (combinedFields s t).map (fieldAccessor s t.name),
                          hasFields := true, hasOn := false, hasAlias := true : ClassDef }
      | .interface => some { name := t.name ++ "Interface", accessors := (combinedFields s t).map (fieldAccessor s t.name),
                             hasFields := true, hasOn := true, hasAlias := true }
      | _ => none
    else none
  let typingClasses := s.types.filterMap fun t =>
    if operationTypes.contains t.name || "__".toList.isPrefixOf t.name.toList then none
    else
      match t.kind with
      | .object | .interface => some { name := t.name ++ "GraphQLField", accessors := [], hasFields := false, hasOn := false, hasAlias := true : ClassDef }
      | .union => some { name := t.name ++ "Union", accessors := [], hasFields := false, hasOn := true, hasAlias := true }
      | _ => none
  let root (cname : String) (r : Option String) : List ClassDef :=
    match r with
    | none => []
    | some _ => [{ name := cname, accessors := (rootFields s r).map (rootAccessor s), hasFields := false, hasOn := false, hasAlias := false }]
  { classes := fieldClasses ++ typingClasses
      ++ [{ name := "GraphQLField", accessors := [], hasFields := false, hasOn := false, hasAlias := true }]
      ++ root "Query" s.query ++ root "Mutation" s.mutation }

end Ariadne.CustomGen
