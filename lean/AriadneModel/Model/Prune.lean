/-
  Model of the pruning of unused input types and enums (C09).  Core Lean only.

  Python modelled (ariadne_codegen/client_generators):

  input_types.py, class InputTypesGenerator
      __init__:   self._class_defs = [self._parse_input_definition(d) for d in self._filter_input_types()]
                  # schema.type_map order; per field: _save_dependencies(root_type=definition.name, field_type)
      _save_dependencies(root_type, field_type):
                  if not field_type: return                       # built-in scalar: parse_input_field_type gave ""
                  if   isinstance(type_map[field_type], GraphQLInputObjectType): self._dependencies[root_type].append(field_type)
                  elif isinstance(type_map[field_type], GraphQLEnumType):        self._used_enums[root_type].append(field_type)
                  elif isinstance(type_map[field_type], GraphQLScalarType):      self._used_scalars.append(field_type)
      _get_dependencies_of_type(type_name):
                  visited = set(); result = []
                  def dfs(node):
                      if node not in visited:
                          visited.add(node); result.append(node)
                          for neighbor in self._dependencies[node]: dfs(neighbor)
                  dfs(type_name); return result
      _filter_class_defs(types_to_include):
                  if types_to_include is None: return self._class_defs
                  types_names = set()
                  for name in types_to_include: types_names.update(self._get_dependencies_of_type(name))
                  return [c for c in self._class_defs if c.name in types_names]
      generate(types_to_include):  class_defs = self._filter_class_defs(types_to_include)
                  self._generated_public_names = [c.name for c in class_defs]; ...imports get_used_enums()...
      get_used_enums():  enums = []; for n in self._generated_public_names: enums.extend(self._used_enums[n]); return enums

  enums.py, class EnumsGenerator
      _filter_class_defs(types_to_include): None -> all; else [c for c in self._class_defs if c.name in types_to_include]

  arguments.py, ArgumentsGenerator._parse_named_type_node: input object -> _used_inputs.append(name);
      enum -> _used_enums.append(name)   (one generator instance shared by all client methods)

  package.py, class PackageGenerator
      add_operation(definition):  self._used_enums.extend(ResultTypesGenerator(...).get_used_enums())
                                  self.client_generator.add_method(...)      # runs ArgumentsGenerator.generate
      generate():  _generate_input_types(); _generate_result_types(); _generate_fragments(); _copy_files();
                   [custom operations]; _generate_client(); _generate_enums(); _generate_init()
      _generate_input_types:  include_all_inputs ? generate() : generate(types_to_include=arguments_generator.get_used_inputs())
                              self._used_enums.extend(self.input_types_generator.get_used_enums())
      _generate_fragments:    if not set(fragments_definitions) - unpacked: return
                              ...; self._used_enums.extend(self.fragments_generator.get_used_enums())
      _generate_client:       client_generator.generate()  (imports get_used_inputs() / get_used_enums() of the arguments generator)
                              self._used_enums.extend(arguments_generator.get_used_enums())
      _generate_enums:        include_all_enums ? generate() : generate(types_to_include=self._used_enums)

  custom_arguments.py, ArgumentGenerator._parse_graphql_type_name (enable_custom_operations only):
      input object -> `from .input_types import <name>`;  enum -> `from . import <name>`
      (nothing is reported back to the package generator).

  Abstraction (made by harness/c09.py from graphql-core's schema objects, trusted): an input type is its
  name plus, per field in order, the named type under the list/non-null wrappers classified by what
  `schema.type_map` holds; class bodies are opaque (`body`).  Python sets whose iteration order does
  not reach the output (`types_names`, `visited`) are lists used for membership only.
-/
namespace Ariadne.Prune

abbrev Name := String

/-- `field_type` as classified by `_save_dependencies`. Built-in scalars give `""` and are dropped
    by the abstraction; `scalar` is a custom scalar (recorded in `_used_scalars`, irrelevant here). -/
inductive Ref where
  | input (n : Name)
  | enum (n : Name)
  | scalar (n : Name)
  deriving Repr, DecidableEq

/-- One element of `InputTypesGenerator._class_defs` (the `ast.ClassDef`; its text is opaque). -/
structure InputDef where
  name : Name
  fields : List Ref
  body : String := ""
  deriving Repr, DecidableEq

/-- One element of `EnumsGenerator._class_defs`. -/
structure EnumDef where
  name : Name
  body : String := ""
  deriving Repr, DecidableEq

def inputRefs (d : InputDef) : List Name :=
  d.fields.filterMap fun | .input n => some n | _ => none

def enumRefs (d : InputDef) : List Name :=
  d.fields.filterMap fun | .enum n => some n | _ => none

/-- `self._dependencies[n]` after `__init__` (a `defaultdict(list)` filled by appends in
    `_class_defs` order: the concatenation over the definitions called `n`; `[]` for a missing key). -/
def depsOf (tbl : List InputDef) (n : Name) : List Name :=
  (tbl.filter (fun d => d.name == n)).flatMap inputRefs

/-- `self._used_enums[n]` after `__init__`. -/
def usedEnumsOf (tbl : List InputDef) (n : Name) : List Name :=
  (tbl.filter (fun d => d.name == n)).flatMap enumRefs

/-- The inner `dfs(node)` of `_get_dependencies_of_type`, threading `result` (which lists exactly
    the members of `visited`, in visiting order).  Python recursion is unbounded; the model takes
    fuel and answers `none` when it runs out (`Proofs/Prune.lean`: never with the fuel used below). -/
def dfs (deps : Name → List Name) : Nat → Name → List Name → Option (List Name)
  | 0, _, _ => none
  | fuel + 1, node, vis =>
    if node ∈ vis then some vis
    else (deps node).foldlM (fun v n => dfs deps fuel n v) (vis ++ [node])

/-- `_get_dependencies_of_type(type_name)`: fresh `visited`, result in visiting order. -/
def getDependenciesOfType (tbl : List InputDef) (typeName : Name) : Option (List Name) :=
  dfs (depsOf tbl) (tbl.length + 1) typeName []

/-- `types_names` of `_filter_class_defs` (a set; here the concatenation, used for membership). -/
def typesNames (tbl : List InputDef) (roots : List Name) : Option (List Name) :=
  roots.foldlM (fun acc r => (getDependenciesOfType tbl r).map (acc ++ ·)) []

/-- `InputTypesGenerator._filter_class_defs`. -/
def filterInputDefs (tbl : List InputDef) : Option (List Name) → Option (List InputDef)
  | none => some tbl
  | some roots => (typesNames tbl roots).map fun ns => tbl.filter (fun c => decide (c.name ∈ ns))

/-- `InputTypesGenerator.get_used_enums()` once `_generated_public_names` is set. -/
def inputsUsedEnums (tbl : List InputDef) (publicNames : List Name) : List Name :=
  publicNames.flatMap (usedEnumsOf tbl)

/-- `EnumsGenerator._filter_class_defs`. -/
def filterEnumDefs (enums : List EnumDef) : Option (List Name) → List EnumDef
  | none => enums
  | some incl => enums.filter (fun c => decide (c.name ∈ incl))

/-! ### The package generator -/

/-- What one `add_operation` contributes. -/
structure Op where
  varInputs : List Name     -- input-object names met in the variable definitions, in order
  varEnums : List Name      -- enum names met in the variable definitions
  resultEnums : List Name   -- `ResultTypesGenerator.get_used_enums()` of the operation
  deriving Repr, DecidableEq

structure Input where
  inputs : List InputDef
  enums : List EnumDef
  ops : List Op
  /-- `none`: `_generate_fragments` returns early (no fragment left for the module);
      `some es`: the module is written and `FragmentsGenerator.get_used_enums() = es`. -/
  fragEnums : Option (List Name)
  allInputs : Bool
  allEnums : Bool
  /-- `enable_custom_operations` and the names the custom_* modules import from
      `.input_types` / from the package `__init__` (enums). -/
  customOps : Bool := false
  customInputs : List Name := []
  customEnums : List Name := []
  deriving Repr

structure St where
  usedEnums : List Name := []        -- PackageGenerator._used_enums
  argInputs : List Name := []        -- ArgumentsGenerator._used_inputs
  argEnums : List Name := []         -- ArgumentsGenerator._used_enums
  inputsModule : Option (List InputDef) := none     -- classes written to input_types.py
  inputsEnumImport : List Name := [] -- names input_types.py imports from the enums module
  clientInputs : List Name := []     -- names client.py imports from input_types
  clientEnums : List Name := []      -- names client.py imports from enums
  enumsModule : Option (List EnumDef) := none       -- classes written to enums.py
  deriving Repr

/-- `PackageGenerator.add_operation` (result types first, then `client_generator.add_method`). -/
def addOperation (st : St) (op : Op) : St :=
  { st with usedEnums := st.usedEnums ++ op.resultEnums,
            argInputs := st.argInputs ++ op.varInputs,
            argEnums := st.argEnums ++ op.varEnums }

/-- The steps of `PackageGenerator.generate` that touch the pruning state. -/
inductive Step where
  | inputs | results | fragments | client | enums
  deriving Repr, DecidableEq

def step (x : Input) (st : St) : Step → Option St
  | .inputs =>
    (filterInputDefs x.inputs (if x.allInputs then none else some st.argInputs)).map fun cds =>
      let used := inputsUsedEnums x.inputs (cds.map (·.name))
      { st with inputsModule := some cds, inputsEnumImport := used, usedEnums := st.usedEnums ++ used }
  | .results => some st
  | .fragments =>
    match x.fragEnums with
    | none => some st
    | some es => some { st with usedEnums := st.usedEnums ++ es }
  | .client =>
    some { st with clientInputs := st.argInputs, clientEnums := st.argEnums,
                   usedEnums := st.usedEnums ++ st.argEnums }
  | .enums =>
    let module := filterEnumDefs x.enums (if x.allEnums then none else some st.usedEnums)
    some { st with enumsModule := some module }

def runSteps (x : Input) (steps : List Step) (st : St) : Option St :=
  steps.foldlM (step x) st

/-- The order in `PackageGenerator.generate`. -/
def generateOrder : List Step := [.inputs, .results, .fragments, .client, .enums]

def initState (x : Input) : St := x.ops.foldl addOperation {}

structure Output where
  inputsModule : List InputDef
  enumsModule : List EnumDef
  inputsEnumImport : List Name
  clientInputs : List Name
  clientEnums : List Name
  deriving Repr, DecidableEq

def finish (st : St) : Option Output :=
  match st.inputsModule, st.enumsModule with
  | some i, some e => some ⟨i, e, st.inputsEnumImport, st.clientInputs, st.clientEnums⟩
  | _, _ => none

/-- All `add_operation` calls, then `generate()` with the given step order. -/
def generateWith (order : List Step) (x : Input) : Option Output :=
  (runSteps x order (initState x)).bind finish

def generate (x : Input) : Option Output := generateWith generateOrder x

/-! ### Closed-form vocabulary (used by the statements and by the decidable finding trigger) -/

/-- roots of the input closure: `ArgumentsGenerator.get_used_inputs()` after all `add_operation`s -/
def varInputsOf (x : Input) : List Name := x.ops.flatMap (·.varInputs)
def varEnumsOf (x : Input) : List Name := x.ops.flatMap (·.varEnums)
def resultEnumsOf (x : Input) : List Name := x.ops.flatMap (·.resultEnums)
def fragEnumsOf (x : Input) : List Name := x.fragEnums.getD []

def names (cds : List InputDef) : List Name := cds.map (·.name)
def enames (cds : List EnumDef) : List Name := cds.map (·.name)

/-- `PackageGenerator._used_enums` at the moment `_generate_enums` reads it (proved in
    Properties/C09.lean: `generate_eq`). -/
def usedEnumsFinal (x : Input) (cds : List InputDef) : List Name :=
  resultEnumsOf x ++ inputsUsedEnums x.inputs (names cds) ++ fragEnumsOf x ++ varEnumsOf x

def closureNames (x : Input) : List Name := (typesNames x.inputs (varInputsOf x)).getD []

def retainedInputsOf (x : Input) : List InputDef :=
  if x.allInputs then x.inputs else x.inputs.filter (fun c => decide (c.name ∈ closureNames x))

/-- Trigger of finding C09-F1 (decidable): custom operations are enabled and one of the types their
    modules import lies outside what the pruning keeps. -/
def trigCustomOpsPruned (x : Input) : Bool :=
  x.customOps &&
    ((!x.allInputs && x.customInputs.any (fun n => !decide (n ∈ closureNames x))) ||
     (!x.allEnums && x.customEnums.any (fun e => !decide (e ∈ usedEnumsFinal x (retainedInputsOf x)))))

end Ariadne.Prune
