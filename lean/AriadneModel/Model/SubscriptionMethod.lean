/-
  Model of the GENERATED subscription method (client_generators/client.py:
  `add_method` -> `get_variable_names` -> `_generate_subscription_method_def` ->
  `_generate_operation_str_assign`, `_generate_variables_assign`, `_generate_async_generator_loop`,
  `_generate_yield_parsed_obj`) composed with the base client's `execute_ws` (Model/WsClient.lean).

  What is emitted (`L` = the method locals after `get_variable_names`, Model/ClientMethod.lean):

      async def <name>(self, <params…>, **kwargs) -> AsyncIterator[<Ret>]:
          L.query = gql(<operation string>)
          L.variables: Dict[str, object] = {<org name>: <py name>, …}
          async for L.data in self.execute_ws(query=L.query, operation_name=<op name>,
                                              variables=L.variables, **kwargs):
              yield <Ret>.model_validate(L.data)

  The parameter list and the `variables` dict are the output of `ArgumentsGenerator.generate`
  (modelled for C03 in Model/Arguments.lean); here they are inputs.  `emit` says WHICH NAME the
  generator puts in each position; `call` evaluates those statements on an environment (Python's
  name lookup: parameters, then rebinding by the assignments) and so says which VALUES reach
  `execute_ws` — a wrong name in one position (e.g. `query=query` where the local was renamed to
  `_query`) makes the caller's argument travel as the GraphQL document.

  `gql` is the identity on strings (generated `def gql(q: str) -> str: return q`);
  `<Ret>.model_validate` is pydantic's (C01): the trace keeps the raw `data`.

  Core Lean only.
-/
import AriadneModel.Model.ClientMethod
import AriadneModel.Model.WsClient

namespace Ariadne.SubMethod
open Ariadne Ariadne.WsClient

/-- the names the emitted method body uses, position by position -/
structure Body where
  queryTarget : String                 -- `<T> = gql(...)`
  varsTarget : String                  -- `<T>: Dict[str, object] = {...}`
  dict : List (String × String)        -- `{<org GraphQL name>: <python parameter name>}`
  loopTarget : String                  -- `async for <T> in …`
  callQuery : String                   -- `execute_ws(query=<N>, …)`
  callVars : String                    -- `execute_ws(…, variables=<N>, …)`
  callKwargs : String                  -- `execute_ws(…, **<N>)`
  yieldArg : String                    -- `yield Ret.model_validate(<N>)`
  opName : String                      -- `operation_name=<constant>`
  deriving Repr, DecidableEq

/-- `_generate_subscription_method_def` over `get_variable_names(arguments)`;
    `params` = the python parameter names after `self`, in order (without `**kwargs`). -/
def emit (params : List String) (dict : List (String × String)) (opName : String) : Body :=
  let L := ClientMethod.getVariableNames (ClientMethod.selfName :: params)
  { queryTarget := L.query, varsTarget := L.variables, dict := dict, loopTarget := L.data,
    callQuery := L.query, callVars := L.variables, callKwargs := "kwargs", yieldArg := L.data,
    opName := opName }

/-- run-time values of the names in the method's scope -/
inductive Val where
  | doc                                  -- the result of `gql(<operation string>)`
  | arg (v : PV)                         -- a caller's argument (or the `UNSET` default)
  | vars (kvs : List (String × PV))      -- the variables dict built by the method
  | self
  | kwargs
  | item                                 -- an element produced by `self.execute_ws(...)`
  deriving Repr

abbrev Env := List (String × Val)

def lookup (n : String) : Env → Option Val
  | [] => none
  | (k, v) :: rest => if k = n then some v else lookup n rest

/-- assignment to a local: rebinding an existing name (a parameter!) or adding a new one -/
def assign (n : String) (v : Val) : Env → Env
  | [] => [(n, v)]
  | (k, w) :: rest => if k = n then (n, v) :: rest else (k, w) :: assign n v rest

def argValue (args : List (String × PV)) (p : String) : PV :=
  match args.find? (fun kv => kv.1 == p) with
  | some kv => kv.2
  | none => .unset

/-- the scope on entry: `self`, every parameter bound to the caller's value (omitted optional
    parameters default to `UNSET`), `kwargs` -/
def initEnv (params : List String) (args : List (String × PV)) : Env :=
  (ClientMethod.selfName, Val.self) :: (params.map fun p => (p, Val.arg (argValue args p))) ++
    [("kwargs", Val.kwargs)]

/-- evaluation of the dict display `{org: py, …}` (NameError / a non-serialisable value are
    explicit errors) -/
def evalDict (opText : String) (env : Env) : List (String × String) → Except String (List (String × PV))
  | [] => .ok []
  | (org, py) :: rest =>
    match lookup py env, evalDict opText env rest with
    | none, _ => .error "NameError"
    | _, .error e => .error e
    | some (.arg v), .ok r => .ok ((org, v) :: r)
    | some .doc, .ok r => .ok ((org, .str opText) :: r)   -- the rebound parameter now holds the document
    | some (.vars kvs), .ok r => .ok ((org, .dict kvs) :: r)
    | some _, .ok _ => .error "TypeError"                  -- `self` / `kwargs` are not JSON serialisable

/-- the values the body hands to `execute_ws`: (query=, variables=, **) -/
def call (b : Body) (opText : String) (env0 : Env) : Except String (Val × Val × Val) :=
  let env1 := assign b.queryTarget .doc env0
  match evalDict opText env1 b.dict with
  | .error e => .error e
  | .ok d =>
    let env2 := assign b.varsTarget (.vars d) env1
    match lookup b.callQuery env2, lookup b.callVars env2, lookup b.callKwargs env2 with
    | some q, some v, some k => .ok (q, v, k)
    | _, _, _ => .error "NameError"

/-- `async for <loopTarget> in self.execute_ws(…): yield <Ret>.model_validate(<yieldArg>)`:
    what `model_validate` receives for an element (the loop target is assigned on every round -
    rebinding a parameter of that name, if there is one) -/
def yieldValue (b : Body) (env : Env) : Option Val := lookup b.yieldArg (assign b.loopTarget .item env)

/-- the `query` string `execute_ws` receives -/
def queryString (opText : String) : Val → Option String
  | .doc => some opText
  | .arg (.str s) => some s
  | _ => none

def varsValue : Val → Option (Option (List (String × PV)))
  | .vars kvs => some (some kvs)
  | .arg .null => some none
  | .arg (.dict kvs) => some (some kvs)
  | _ => none

/-- The generated method run against a socket: the body's call handed to the base client's
    `execute_ws` (`exec`: the plain or the OpenTelemetry model).  `cfg.query` / `cfg.opName` are
    overwritten by what the method passes. -/
def runMethodWith (exec : Cfg → Option (List (String × PV)) → List Frame → Trace) (cfg : Cfg) (b : Body)
    (opText : String) (params : List String) (args : List (String × PV)) (frames : List Frame) : Trace :=
  match call b opText (initEnv params args) with
  | .error e => ⟨[], .internal e⟩
  | .ok (q, v, k) =>
    match queryString opText q, varsValue v, k with
    | some qs, some vs, .kwargs => exec { cfg with query := qs, opName := some b.opName } vs frames
    | _, _, _ => ⟨[], .internal "unmodelled-call-value"⟩   -- a non-string query / a non-dict variables value

def runMethod (tbl : List (String × String)) (subprotocol : String) :=
  runMethodWith (run tbl subprotocol)

end Ariadne.SubMethod
