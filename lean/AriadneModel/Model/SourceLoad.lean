/-
  Model of `ariadne_codegen.schema.load_graphql_files_from_path` / `walk_graphql_files` /
  `read_graphql_file` (C17): how `schema_path` / `queries_path` — a FILE or a DIRECTORY TREE — becomes
  the one string that `get_graphql_schema_from_path` / `get_graphql_queries` hand to `parse`.

      def load_graphql_files_from_path(path: Path) -> str:
          if path.is_dir():
              schema_list = [read_graphql_file(f) for f in sorted(walk_graphql_files(path))]
              return "\n".join(schema_list)
          return read_graphql_file(path.resolve())

      def walk_graphql_files(path):
          extensions = (".graphql", ".graphqls", ".gql")
          for file_ in path.glob("**/*"):
              if file_.suffix in extensions:
                  yield file_

      def read_graphql_file(path):
          with open(path, encoding="utf-8") as graphql_file:
              schema = graphql_file.read()
          try:
              parse(schema)
          except GraphQLSyntaxError as exc:
              raise InvalidGraphqlSyntax(f"Invalid graphql syntax in file {path}") from exc
          return schema

  and then, in the callers, `parse(<the returned string>)` OUTSIDE any `try` (a syntax error of the
  concatenation escapes as graphql-core's bare `GraphQLSyntaxError`).

  * The directory is a tree of unbounded size and depth (`FsNode`); `glob("**/*")` yields every
    descendant (files AND directories, hidden ones included, in no particular order), the suffix filter
    is `PurePath.suffix` (case-sensitive, `.graphql` alone has no suffix), `sorted` orders `Path`
    objects by their list of components (NOT by their string: `a/x` < `a.b/x`).
  * A directory whose own name carries a graphql suffix is yielded too and `open` raises
    `IsADirectoryError`; a file that is not UTF-8 raises `UnicodeDecodeError`: `Content.unreadable`.
  * graphql-core's `parse` is a PARAMETER (`parses : String → Bool`, "this text parses on its own"):
    every statement is for all such predicates.  The driver instantiates it with the verdicts
    graphql-core itself gives on the texts of the case (each file and the concatenation), asked by
    the harness directly, never through ariadne-codegen.
  Core Lean only.
-/
import AriadneModel.Model.Settings

namespace Ariadne.SourceLoad
open Ariadne Ariadne.Settings

/-- what `open(path, encoding="utf-8").read()` gives -/
inductive Content where
  | text (s : String)
  | unreadable (exc : String)      -- IsADirectoryError, UnicodeDecodeError, PermissionError ...
  deriving Repr, DecidableEq

/-- a directory tree below `schema_path` / `queries_path` -/
inductive FsNode where
  | file (name : String) (content : Content)
  | dir (name : String) (children : List FsNode)
  deriving Repr

/-- what the configured path is -/
inductive Root where
  | file (resolved : String) (content : Content)   -- `path.is_dir()` is false: `read_graphql_file(path.resolve())`
  | dir (path : String) (children : List FsNode)   -- `path.is_dir()`: `path` as configured, its children
  deriving Repr

def graphqlSuffixes : List String := [".graphql", ".graphqls", ".gql"]

/-- `file_.suffix in extensions` (on the last component) -/
def hasGraphqlSuffix (name : String) : Bool := graphqlSuffixes.contains (String.ofList (pathSuffix name))

/-- one thing `walk_graphql_files` yields: its components below the root, what reading it gives -/
structure Entry where
  parts : List String
  content : Content
  deriving Repr, DecidableEq

mutual
  /-- the matches of `glob("**/*")` below one node that pass the suffix filter (document order; the
      real order is unspecified and irrelevant because of `sorted`) -/
  def walkNode (pre : List String) : FsNode → List Entry
    | .file n c => if hasGraphqlSuffix n then [⟨pre ++ [n], c⟩] else []
    | .dir n cs =>
      (if hasGraphqlSuffix n then [⟨pre ++ [n], .unreadable "IsADirectoryError"⟩] else [])
        ++ walkList (pre ++ [n]) cs
  def walkList (pre : List String) : List FsNode → List Entry
    | [] => []
    | x :: xs => walkNode pre x ++ walkList pre xs
end

/-- `Path.__lt__` (posix): lexicographic order on the lists of components, components compared as
    `str` (code points) -/
def partsLt : List String → List String → Bool
  | [], [] => false
  | [], _ :: _ => true
  | _ :: _, [] => false
  | a :: as, b :: bs => if a < b then true else if a = b then partsLt as bs else false

def insertEntry (e : Entry) : List Entry → List Entry
  | [] => [e]
  | x :: xs => if partsLt x.parts e.parts then x :: insertEntry e xs else e :: x :: xs

/-- `sorted(...)` (insertion sort; the keys of distinct files are distinct) -/
def sortEntries (es : List Entry) : List Entry := es.foldr insertEntry []

/-- `str(path / rel)` -/
def entryPath (root : String) (e : Entry) : String := root ++ "/" ++ "/".intercalate e.parts

/-- the graphql files of the source in the order `load_graphql_files_from_path` reads them:
    (path as it appears in messages, what reading gives) -/
def filesRead : Root → List (String × Content)
  | .file resolved c => [(resolved, c)]
  | .dir path cs => (sortEntries (walkList [] cs)).map fun e => (entryPath path e, e.content)

inductive LoadErr where
  | invalidSyntax (file : String)     -- InvalidGraphqlSyntax("Invalid graphql syntax in file <file>")
  | raw (cls : String)                -- anything else that escapes (bare GraphQLSyntaxError, OSError, UnicodeDecodeError)
  deriving Repr, DecidableEq

/-- `read_graphql_file` -/
def readFile (parses : String → Bool) (path : String) : Content → Except LoadErr String
  | .unreadable exc => .error (.raw exc)
  | .text s => if parses s then .ok s else .error (.invalidSyntax path)

/-- `[read_graphql_file(f) for f in ...]`: the first file that fails raises -/
def readAll (parses : String → Bool) : List (String × Content) → Except LoadErr (List String)
  | [] => .ok []
  | (p, c) :: rest =>
    match readFile parses p c with
    | .error e => .error e
    | .ok s =>
      match readAll parses rest with
      | .error e => .error e
      | .ok ss => .ok (s :: ss)

/-- `load_graphql_files_from_path` -/
def loadText (parses : String → Bool) : Root → Except LoadErr String
  | .file resolved c => readFile parses resolved c
  | .dir path cs =>
    match readAll parses (filesRead (.dir path cs)) with
    | .error e => .error e
    | .ok ss => .ok ("\n".intercalate ss)

/-- `parse(load_graphql_files_from_path(Path(p)))` as `get_graphql_schema_from_path` /
    `get_graphql_queries` do it: the second `parse` is not guarded -/
def loadDocument (parses : String → Bool) (r : Root) : Except LoadErr String :=
  match loadText parses r with
  | .error e => .error e
  | .ok t => if parses t then .ok t else .error (.raw "GraphQLSyntaxError")

/-! ## specification side: which files a tree contains (independent of the walk) -/

mutual
  /-- `InNode pre n parts c`: below node `n` (itself located under `pre`) there is a file system
      object with components `parts` whose last component carries a graphql suffix and whose reading
      gives `c` -/
  inductive InNode : List String → FsNode → List String → Content → Prop where
    | file (pre : List String) (n : String) (c : Content) (h : hasGraphqlSuffix n = true) :
        InNode pre (.file n c) (pre ++ [n]) c
    | dirItself (pre : List String) (n : String) (cs : List FsNode) (h : hasGraphqlSuffix n = true) :
        InNode pre (.dir n cs) (pre ++ [n]) (.unreadable "IsADirectoryError")
    | inside (pre : List String) (n : String) (cs : List FsNode) (parts : List String) (c : Content)
        (h : InList (pre ++ [n]) cs parts c) : InNode pre (.dir n cs) parts c
  inductive InList : List String → List FsNode → List String → Content → Prop where
    | head (pre : List String) (x : FsNode) (xs : List FsNode) (parts : List String) (c : Content)
        (h : InNode pre x parts c) : InList pre (x :: xs) parts c
    | tail (pre : List String) (x : FsNode) (xs : List FsNode) (parts : List String) (c : Content)
        (h : InList pre xs parts c) : InList pre (x :: xs) parts c
end

/-- the graphql files of a source, as a relation: (message path, content) -/
def HasFile : Root → String → Content → Prop
  | .file resolved c, p, c' => p = resolved ∧ c' = c
  | .dir path cs, p, c' => ∃ parts, InList [] cs parts c' ∧ p = entryPath path ⟨parts, c'⟩

/-- every graphql file of the source can be read as text -/
def AllReadable (r : Root) : Prop := ∀ p c, HasFile r p c → ∃ s, c = .text s

end Ariadne.SourceLoad
