/-
  The call sites of the plugin manager in client_generators/client.py, package.py and init_file.py,
  as far as the bundled plugins can observe them: the ORDER of hook calls of one generation (taken
  from a recorded unplugged run = the list of `Event`s) and how the object handed to a later hook is
  assembled from what earlier hooks returned:

    client.py  add_method        method_def = plugin_manager.generate_client_method(method_def, …)
                                 self._class_def.body.append(method_def)
               _add_import       import_ = plugin_manager.generate_client_import(import_)
                                 if import_.names and import_.module: self._imports.append(import_)
               generate          gql_func = generate_gql_function(gql_func)
                                 self._class_def = generate_client_class(self._class_def)
                                 module = generate_module(body=self._imports + [gql_func, self._class_def])
                                 module = generate_client_module(module)
    init_file.py add_import      import_ = generate_init_import(import_); self.imports.append(import_)
                 generate        module = Module(body=self.imports [+ __all__ = sorted names]);
                                 module = generate_init_module(module)

  Every other hook (result classes, result-types modules, fragments module, operation strings)
  receives what the generator built independently of the plugins.
-/
import AriadneModel.Model.Plugins

namespace Ariadne.Plugins
open Ariadne.Py

structure Event where
  call : Call
  payload : Payload
  deriving Repr, Inhabited

structure PipeState where
  plugins : List PState
  methodsOut : List Method := []        -- results of generate_client_method, in call order
  importsOut : List ImportFrom := []    -- ClientGenerator._imports
  gqlOut : Option Method := none
  classOut : Option ClassDef := none
  initImports : List ImportFrom := []   -- InitFileGenerator.imports
  trace : List (Call × Payload × Payload) := []   -- (call, object handed in, object returned)
  deriving Repr, Inhabited

/-- replace the methods that went through `generate_client_method` (matched by name, in order) -/
def replaceMethods : List ClassItem → List Method → List ClassItem
  | [], _ => []
  | .method m :: rest, outs =>
    match outs.find? (fun o => o.name == m.name) with
    | some o => .method o :: replaceMethods rest (outs.eraseP (fun o => o.name == m.name))
    | none => .method m :: replaceMethods rest outs
  | it :: rest, outs => it :: replaceMethods rest outs

/-- the object the generator hands to the hook, given what earlier hooks returned -/
def inputFor (ps : PipeState) (e : Event) : Payload :=
  match e.call.hook, e.payload with
  | "generate_client_class", .klass c => .klass { c with body := replaceMethods c.body ps.methodsOut }
  | "generate_client_module", .module m =>
    match ps.gqlOut, ps.classOut with
    | some g, some c =>
      .module { body := ps.importsOut.map (fun i => Top.simple (.importFrom i)) ++ [.funcDef g, .classDef c] }
    | _, _ => .module m
  | "generate_init_module", .module _ =>
    let names := (ps.initImports.map (fun i => i.names.map (·.1))).flatten
    .module { body := ps.initImports.map (fun i => Top.simple (.importFrom i)) ++
      (if ps.initImports.isEmpty then [] else [.simple (.assignList "__all__" (sortStrings names))]) }
  | _, x => x

/-- `ClientGenerator._add_import`: `if import_.names and import_.module: self._imports.append(import_)`
    (only the client generator's own calls of the hook feed its import list) -/
def keepClientImport (c : Call) (i : ImportFrom) : Bool :=
  c.caller == some "ClientGenerator" && !i.names.isEmpty && (match i.module with | some s => s != "" | none => false)

/-- bookkeeping of the generator after a hook returned -/
def record (ps : PipeState) (c : Call) (out : Payload) : PipeState :=
  match c.hook, out with
  | "generate_client_method", .method m => { ps with methodsOut := ps.methodsOut ++ [m] }
  | "generate_client_import", .imp i =>
    if keepClientImport c i then { ps with importsOut := ps.importsOut ++ [i] } else ps
  | "generate_gql_function", .method m => { ps with gqlOut := some m }
  | "generate_client_class", .klass k => { ps with classOut := some k }
  | "generate_init_import", .imp i => { ps with initImports := ps.initImports ++ [i] }
  | _, _ => ps

def stepEvent (ps : PipeState) (e : Event) : M PipeState := do
  let x := inputFor ps e
  let (plugins', y) ← manager e.call ps.plugins x
  let ps1 := { ps with plugins := plugins', trace := ps.trace ++ [(e.call, x, y)] }
  pure (record ps1 e.call y)

/-- one whole generation: the recorded unplugged event list replayed against a plugin list.
    On a Python exception the events processed so far are kept with the error. -/
def runPipeline : PipeState → List Event → PipeState × Option Err
  | ps, [] => (ps, none)
  | ps, e :: rest =>
    match stepEvent ps e with
    | .ok ps' => runPipeline ps' rest
    | .error err => (ps, some err)

/-- final objects of a finished generation -/
def PipeState.finalOf (ps : PipeState) (hook : String) : Option Payload :=
  (ps.trace.reverse.find? (fun t => t.1.hook == hook)).map (·.2.2)

def PipeState.clientModule? (ps : PipeState) : Option Module :=
  match ps.finalOf "generate_client_module" with
  | some (.module m) => some m
  | _ => none

def PipeState.initModule? (ps : PipeState) : Option Module :=
  match ps.finalOf "generate_init_module" with
  | some (.module m) => some m
  | _ => none

/-- the operations module written by (the last) ExtractOperationsPlugin instance -/
def PipeState.opsFile? (ps : PipeState) : Option (String × OpsFile) :=
  ps.plugins.reverse.findSome? (fun p =>
    match p with
    | .extract s => s.written.map (fun f => (s.opsModuleName, f))
    | _ => none)

end Ariadne.Plugins
