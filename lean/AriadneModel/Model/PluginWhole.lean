/-
  The vocabulary of the whole-pipeline statement of C15 (Properties/C15.lean §9), on the pipeline model:
  which plugin lists are configurations of the property's quantifier (`configOK`), "the package is
  generated and loads" (`loadsB`), "every method projects on exactly the field the property prescribes"
  (`projOKB`), "same request, same acceptance, same value up to that projection" (`SameBehaviour`), and
  which inputs are valid (`validB`).  Executable (Bool) wherever the statement is decidable.  Core Lean only.
-/
import AriadneModel.Model.PluginFindings

namespace Ariadne.C15
open Ariadne Ariadne.Py Ariadne.Plugins Ariadne.ClientSem

def PState.isFresh : PState → Bool
  | .shorter s => s.classDict.isEmpty && s.extendedImports.isEmpty && s.importedTypes.isEmpty
  | .extract s => s.gqls.isEmpty && s.vars.isEmpty && s.written.isNone
  | .fwd s => s.inputAndReturnTypes.isEmpty && s.importedClasses.isEmpty && s.importedInMethod.isEmpty
  | _ => true

def PState.kind : PState → Nat
  | .shorter _ => 0 | .extract _ => 1 | .fwd _ => 2 | .noReimports => 3 | .identity => 4

def distinct : List Nat → Bool
  | [] => true
  | k :: ks => !ks.contains k && distinct ks

/-- a configuration of the property's quantifier: an ordered subset of the five plugins, freshly constructed -/
def configOK (ps : List PState) : Bool := ps.all PState.isFresh && distinct (ps.map PState.kind)

/-- black refuses a module with an `if` without body -/
def formatOkB (m : Module) : Bool := m.body.all (fun t => match t with | .ifStmt _ [] _ => false | _ => true)

def runWith (ps : List PState) (x : Input) : PipeState × Option Err := runPipeline { plugins := ps } x.events

/-- "the package is generated and loads" on the model -/
def loadsB (ps : List PState) (x : Input) : Bool :=
  let r := runWith ps x
  r.2.isNone &&
  (match r.1.clientModule? with
   | some m => formatOkB m && annScopedB m && wellScopedB { client := m, ops := r.1.opsFile? } &&
       importsExistB x m r.1.opsFile?                   -- every relative import names a module of the package
   | none => false) &&
  !trigOpsModuleClash { x with plugins := ps }          -- no generated module is overwritten

def finalMethod (ps : List PState) (x : Input) (name : String) : Option Method :=
  match (runWith ps x).1.clientModule? with
  | some m => (m.firstClass?.map ClassDef.methods).getD [] |>.find? (fun md => md.name == name)
  | none => none

def finalShape (ps : List PState) (x : Input) (name : String) : Option Shape := (finalMethod ps x name).bind shapeOf

/-- the projection the property prescribes for a method: the single top-level field when
    ShorterResults is configured, nothing otherwise -/
def expectedProj (ps : List PState) (x : Input) (m : Method) : List String :=
  if ps.any PState.isShorter then
    match singleFieldOf (shorterFacts (fragmentsModuleNameOf ps) x.events) m with
    | some (f, _) => [f]
    | none => []
  else []

def projOKB (ps : List PState) (x : Input) : Bool :=
  (baseMethods x.events).all (fun m =>
    match finalShape ps x m.name with
    | some s => s.proj == expectedProj ps x m
    | none => false)

def pkgOf (ps : List PState) (x : Input) : Pkg :=
  { client := ((runWith ps x).1.clientModule?).getD { body := [] }, ops := (runWith ps x).1.opsFile? }

/-- same request, same acceptance, same value up to the prescribed projection — for every response -/
def SameBehaviour (ps : List PState) (x : Input) : Prop :=
  ∀ m ∈ baseMethods x.events, ∀ s0, finalShape [] x m.name = some s0 →
    ∃ s, finalShape ps x m.name = some s ∧
      request (pkgOf ps x) s = request (pkgOf [] x) s0 ∧
      ∀ (PyV : Type) (validate : String × String → J → Except String PyV) (getattr : String → PyV → PyV) (d : J),
        respond validate getattr (pkgOf ps x) s d =
          (respond validate getattr (pkgOf [] x) s0 d).map (fun o => (expectedProj ps x m).foldl (fun o f => getattr f o) o)

/-- a valid input: the unplugged generation succeeds, loads, and its methods have the generated shape -/
def validB (x : Input) : Bool :=
  configOK x.plugins && loadsB [] x && projOKB [] x

/-! ### what the generator hands to ShorterResults: the decidable well-formedness under which the whole-pipeline
    statement is PROVED for plugin lists made of ShorterResults, NoReimports and the identity plugin
    (`Proved_15` of Properties/C15.lean).  Every conjunct is a fact about the unplugged generation that the
    generator establishes by construction; the driver evaluates the predicate on every generated case. -/

/-- `events = pre ++ cm :: post` at the first `generate_client_module` call -/
def splitAtClientModule : List Event → Option (List Event × Event × List Event)
  | [] => none
  | e :: rest =>
    if e.call.hook == "generate_client_module" then some ([], e, rest)
    else match splitAtClientModule rest with
      | some (pre, cm, post) => some (e :: pre, cm, post)
      | none => none

/-- the hooks at which ShorterResults records something -/
def recordingHooks : List String := ["generate_result_class", "generate_result_types_module", "generate_fragments_module"]

/-- `module.body = imports… ++ [def gql, class Client]` -/
def splitClient (M : Module) : Option (List Top × Method × ClassDef) :=
  match M.body.reverse with
  | .classDef c :: .funcDef g :: preRev =>
    if preRev.all (fun t => t.classDef?.isNone) then some (preRev.reverse, g, c) else none
  | _ => none

def isOkB {α : Type} : Except Err α → Bool
  | .ok _ => true
  | .error _ => false

/-- the unwrapped annotation, as `_update_node` returns it -/
def unwrapped (ann : Ex) : Ex :=
  match updateNode (ann.size + 1) ann with
  | .ok r => r.1
  | .error _ => .other "" []

/-- the return annotation ShorterResults writes for a method whose single field has annotation `ann` -/
def newReturns (md : Method) (ann : Ex) : Ex :=
  match md.returns with
  | some (.sub _ (.name _)) => .sub (.name "AsyncIterator") (unwrapped ann)
  | _ => unwrapped ann

/-- all leaf classes ShorterResults may have to import -/
def leafPool (st : ShorterState) (methods : List Method) : List String :=
  methods.flatMap (fun md => match singleFieldOf st md with | some (_, ann) => leavesOf ann | none => [])

/-- a method of the generated shape, without projection, whose return annotation is of the kind its last
    statement calls for (`-> C` / `return …`, `-> AsyncIterator[C]` / `async for …: yield …`) -/
def kindOKB (md : Method) : Bool :=
  match shapeOf md with
  | some s =>
    s.proj.isEmpty &&
    (match s.tail, md.returns with
     | .call _ _ _, some (.name _) => true
     | .sub _ true _, some (.sub _ (.name _)) => true
     | _, _ => false)
  | none => false

def genShapedS (x : Input) : Bool :=
  match splitAtClientModule x.events, (runWith [] x).1.clientModule? with
  | some (_, cm, post), some M0 =>
    (match cm.payload with | .module _ => true | _ => false) &&
    post.all (fun e => e.call.hook != "generate_client_module" && !recordingHooks.contains e.call.hook) &&
    (moduleNames M0).contains "gql" &&
    (match splitClient M0 with
     | some (_, _, C0) =>
       let st := shorterFacts (fragmentsModuleNameOf x.plugins) x.events
       let pool := leafPool st C0.methods
       let known := knownModules x none
       -- the recorded classes have acyclic bases and literal-evaluable annotations
       st.classDict.all (fun kv => isOkB (nodeAndClass st.classDict kv.1)) &&
       C0.methods.all (fun md =>
         -- a method with a single-field result class has the generated shape and its unwrapped annotation
         -- only names leaf classes the plugin knows where to import from, or names the client module binds
         (match singleFieldOf st md with
          | some (_, ann) =>
            kindOKB md && (exNames (newReturns md ann)).all (fun n =>
              ((leavesOf ann).contains n && (ahas n st.importedTypes || ahas n st.classDict)) ||
                (moduleNames M0).contains n || builtinNames.contains n)
          | none => true) &&
         -- no leaf class is called like a validated result class
         (match shapeOf md with | some s => !pool.contains s.retClass | none => true) &&
         !startsWithDot md.name) &&
       -- the module a leaf class is recorded to come from exists in the package
       pool.all (fun n =>
         match alookup n st.importedTypes with
         | some v => !startsWithDot v || known.contains v
         | none => true) &&
       -- the class member called like an operation's method is that method (same return class)
       (baseMethods x.events).all (fun m =>
         match C0.methods.find? (fun md => md.name == m.name) with
         | some md => returnClassOf md == returnClassOf m
         | none => false)
     | none => false)
  | _, _ => false

end Ariadne.C15
