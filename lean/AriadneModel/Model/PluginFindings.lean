/-
  Decidable trigger predicates of the known C15 findings (findings.d/C15.json), over the input of the
  pipeline model: (configured plugin list, hook events of the unplugged generation, enable_custom_operations).
  Their Python twins are `py_triggers` in harness/c15.py; agreement of the two on every generated
  input is a correspondence observation.  `Supported_15` of Properties/C15.lean is the negation of
  their disjunction.  Core Lean only.
-/
import AriadneModel.Model.PluginPipeline
import AriadneModel.Model.ClientSem

namespace Ariadne.Plugins
open Ariadne.Py Ariadne.ClientSem

structure Input where
  plugins : List PState
  events : List Event
  customOps : Bool := false       -- `enable_custom_operations` of the configuration
  /-- `ClientSettings.fragments_module_name`: the module the GENERATOR writes the fragment classes to
      (`generatorFragmentsModuleName` of Model/PluginManager.lean; the plugins look it up on their own) -/
  genFragmentsModule : String := "fragments"
  deriving Repr, Inhabited

def PState.isShorter : PState → Bool | .shorter _ => true | _ => false
def PState.isFwd : PState → Bool | .fwd _ => true | _ => false
def PState.isExtract : PState → Bool | .extract _ => true | _ => false

/-- index of the first plugin satisfying `p` (Python `letters.find`) -/
def firstIdx (p : PState → Bool) : List PState → Option Nat
  | [] => none
  | x :: xs => if p x then some 0 else (firstIdx p xs).map (· + 1)

/-- what a ShorterResultsPlugin instance knows when `generate_client_module` is reached
    (class_dict, imported_types) — its own bookkeeping hooks run over the events -/
def shorterFacts (fragmentsModuleName : String) (events : List Event) : ShorterState :=
  events.foldl (fun st e =>
    if e.call.hook == "generate_client_module" then st
    else match shorterStep e.call st e.payload with
      | .ok r => r.1
      | .error _ => st) { fragmentsModuleName := fragmentsModuleName }

def fragmentsModuleNameOf (plugins : List PState) : String :=
  (plugins.findSome? (fun p => match p with | .shorter s => some s.fragmentsModuleName | _ => none)).getD "fragments"

/-- the methods as built by `ClientGenerator.add_method` -/
def baseMethods (events : List Event) : List Method :=
  events.filterMap (fun e =>
    match e.call.hook, e.payload with
    | "generate_client_method", .method m => some m
    | _, _ => none)

/-- `ClientGenerator._imports` of the unplugged generation -/
def baseClientImports (events : List Event) : List ImportFrom :=
  events.filterMap (fun e =>
    match e.call.hook, e.payload with
    | "generate_client_import", .imp i =>
      if e.call.caller == some "ClientGenerator" && !i.names.isEmpty &&
        (match i.module with | some s => s != "" | none => false) then some i else none
    | _, _ => none)

def returnClassOf (m : Method) : Option String :=
  match m.returns with
  | some (.name id) => some id
  | some (.sub _ (.name id)) => some id
  | _ => none

/-- the single top-level field (python name, annotation) of a method's result class, inherited
    fields included — the condition under which ShorterResults rewrites the method -/
def singleFieldOf (st : ShorterState) (m : Method) : Option (String × Ex) :=
  match returnClassOf m with
  | none => none
  | some rc =>
    match alookup rc st.classDict with
    | none => none
    | some cd =>
      match getAllFields st.classDict (st.classDict.length + 1) cd with
      | .ok [(.name f, ann)] => some (f, ann)
      | _ => none

/-- leaf class names of the unwrapped annotation (what `_update_node` returns as classes) -/
def leavesOf (ann : Ex) : List String :=
  match updateNode (ann.size + 1) ann with
  | .ok r => r.2
  | .error _ => []

def boundByImports (is : List ImportFrom) : List String :=
  is.flatMap (fun i => i.names.map (fun n => n.2.getD n.1))

/-- names imported by "local" imports, as `_store_imported_classes` selects them -/
def level1Names (is : List ImportFrom) : List String :=
  is.flatMap (fun i =>
    match i.module with
    | some mname => if i.level == 1 || startsWithDot mname then i.names.map (·.1) else []
    | none => [])

/-- C15-F3: ClientForwardRefs is configured before ShorterResults and some method has a single
    top-level field: the return annotation is already a string constant, ShorterResults does nothing. -/
def trigFwdBeforeShorter (x : Input) : Bool :=
  match firstIdx PState.isShorter x.plugins, firstIdx PState.isFwd x.plugins with
  | some s, some f =>
    f < s && (baseMethods x.events).any (fun m =>
      (singleFieldOf (shorterFacts (fragmentsModuleNameOf x.plugins) x.events) m).isSome)
  | _, _ => false

def shorterActive (x : Input) : Bool :=
  match firstIdx PState.isShorter x.plugins, firstIdx PState.isFwd x.plugins with
  | some s, some f => !(f < s)
  | some _, none => true
  | none, _ => false

/-- C15-F4: ShorterResults unwraps to a name that no operation module imports, that is not a
    generated class and that the client module does not bind: NameError when the module is imported. -/
def trigShorterUnimportedName (x : Input) : Bool :=
  shorterActive x &&
    let st := shorterFacts (fragmentsModuleNameOf x.plugins) x.events
    let bound := boundByImports (baseClientImports x.events) ++ builtinNames
    (baseMethods x.events).any (fun m =>
      match singleFieldOf st m with
      | some (_, ann) =>
        (leavesOf ann).any (fun n => !ahas n st.importedTypes && !ahas n st.classDict && !bound.contains n)
      | none => false)

/-- C15-F8: ShorterResults reads `fragments_module_name` from `config_dict["tool"]["ariadne-codegen"]` only, the
    generator also honours the deprecated top-level `[ariadne-codegen]` section: when the two names differ and a
    shortened method returns a class the plugin believes to live in the fragments module, the client module
    imports it from a module that does not exist. -/
def trigShorterFragmentsModule (x : Input) : Bool :=
  shorterActive x && fragmentsModuleNameOf x.plugins != x.genFragmentsModule &&
    let st := shorterFacts (fragmentsModuleNameOf x.plugins) x.events
    (baseMethods x.events).any (fun m =>
      match singleFieldOf st m with
      | some (_, ann) => (leavesOf ann).any (fun n => alookup n st.importedTypes == some ("." ++ st.fragmentsModuleName))
      | none => false)

/-- C15-F5: ClientForwardRefs with `enable_custom_operations`: `execute_custom_operation` ends in
    `return self.get_data(response)`, the plugin looks up `imported_classes["self"]` -> KeyError. -/
def trigFwdSelfCall (x : Input) : Bool := x.plugins.any PState.isFwd && x.customOps

/-- C15-F6: an operation whose module name equals ExtractOperations' module name: the plugin
    overwrites the result-types module of that operation. -/
def trigOpsModuleClash (x : Input) : Bool :=
  x.plugins.any (fun p =>
    match p with
    | .extract s => (baseMethods x.events).any (fun m => m.name == s.opsModuleName)
    | _ => false)

mutual
  /-- `ast.Name`s `_update_name_to_constant` can reach (slices and tuple elements only) -/
  def annLeafNames : Ex → List String
    | .name id => [id]
    | .sub _ sl => annLeafNames sl
    | .tuple es => annLeafNamesList es
    | _ => []
  def annLeafNamesList : List Ex → List String
    | [] => []
    | e :: es => annLeafNames e ++ annLeafNamesList es
end

/-- C15-F7: no locally imported class occurs in any argument or return annotation when
    ClientForwardRefs runs (ShorterResults before it has unwrapped every result to scalars): an
    `if TYPE_CHECKING:` with an empty body is emitted and black refuses the module. -/
def trigFwdEmptyTypeChecking (x : Input) : Bool :=
  match firstIdx PState.isFwd x.plugins with
  | none => false
  | some f =>
    let methods := baseMethods x.events
    !methods.isEmpty &&
      let st := shorterFacts (fragmentsModuleNameOf x.plugins) x.events
      let level1 := level1Names (baseClientImports x.events)
      let sFirst : Bool := match firstIdx PState.isShorter x.plugins with | some s => decide (s < f) | none => false
      !(methods.any (fun m =>
        m.args.any (fun a => match a.2 with | some e => (annLeafNames e).any level1.contains | none => false) ||
        (match (if sFirst then singleFieldOf st m else none) with
         | none => (match m.returns with | some r => (annLeafNames r).any level1.contains | none => false)
         | some (_, ann) =>
           (leavesOf ann).any (fun n =>
             (match alookup n st.importedTypes with
              | some src => startsWithDot src
              | none => ahas n st.classDict) || level1.contains n))))

/-! ### the modules of the generated package (for "every relative import of the client module finds its module") -/

/-- `"." * level + module` of a package-relative import -/
def relModule (i : ImportFrom) : Option String :=
  match i.module with
  | some m => if i.level != 0 || startsWithDot m then some (dotted i.level m) else none
  | none => none

/-- relative imports of the result-types modules and of the fragments module (they load in the unplugged package) -/
def resultModuleImports (events : List Event) : List ImportFrom :=
  events.flatMap (fun e =>
    match e.call.hook, e.payload with
    | "generate_result_types_module", .module m => m.body.filterMap Top.importFrom?
    | "generate_fragments_module", .module m => m.body.filterMap Top.importFrom?
    | _, _ => [])

/-- the modules that exist in the generated package, as far as the unplugged generation shows: what the
    unplugged client module, the result-types modules and the fragments module import from, one module per
    operation, the fragments module under the GENERATOR's name, and the operations module if one was written -/
def knownModules (x : Input) (ops : Option (String × OpsFile)) : List String :=
  (baseClientImports x.events).filterMap relModule ++ (resultModuleImports x.events).filterMap relModule ++
  (baseMethods x.events).map (fun m => "." ++ m.name) ++ ["." ++ x.genFragmentsModule] ++
  (match ops with | some (n, _) => ["." ++ n] | none => [])

/-- every package-relative import executed when the client module is imported names an existing module -/
def importsExistB (x : Input) (m : Module) (ops : Option (String × OpsFile)) : Bool :=
  (topImports m).all (fun i =>
    match relModule i with
    | some q => (knownModules x ops).contains q
    | none => true)

def triggersOf (x : Input) : List String :=
  (if trigFwdSelfCall x then ["fwdSelfCall"] else []) ++
  (if trigFwdEmptyTypeChecking x then ["fwdEmptyTypeChecking"] else []) ++
  (if trigOpsModuleClash x then ["opsModuleClash"] else []) ++
  (if trigShorterUnimportedName x then ["shorterUnimportedName"] else []) ++
  (if trigShorterFragmentsModule x then ["shorterFragmentsModule"] else []) ++
  (if trigFwdBeforeShorter x then ["fwdBeforeShorter"] else [])

end Ariadne.Plugins
