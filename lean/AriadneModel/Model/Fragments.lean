/-
  Model/Fragments.lean — package-level model of the fragments module (property C08).

  Modelled Python, quoted next to each definition:
    client_generators/package.py    PackageGenerator.add_operation (accumulating `_unpacked_fragments`
                                    over the OPERATIONS only), `_generate_fragments` (nothing written
                                    when every fragment is unpacked; `exclude_names=self._unpacked_fragments`)
    client_generators/fragments.py  FragmentsGenerator.generate (set difference, one ResultTypesGenerator
                                    per remaining fragment, `dependencies_dict`, sorted class defs, rebuild calls)
    client_generators/result_types.py  `_add_enums_scalars_fragments_imports` (the `from .fragments import …`
                                    of an operation module)

  The per-definition work (`ResultTypesGenerator`) is `Ariadne.ResultTypes.generate`; the topological
  sort and the rebuild calls are `Ariadne.Order.sortedFragmentsNames` / `rebuildCalls` (Model/Order.lean).

  The generators share the fragment ASTs and mutate them (automatic `__typename`), so the `marks`
  (ids of mutated selection sets) are threaded: operations in document order, then the fragment
  generators in the order CPython iterates the set `self._fragments_names` (enumeration oracle `e`).

  Core Lean only (the C08 driver links this file).
-/
import AriadneModel.Model.ResultTypes
import AriadneModel.Model.Order
import AriadneModel.Spec.Py

namespace Ariadne.Fragments
open Ariadne Ariadne.Gql Ariadne.Util Ariadne.ResultTypes

inductive Err where
  | gen (e : GenErr)        -- raised inside a ResultTypesGenerator / add_operation
  | order (e : Order.Err)   -- KeyError in `visit`, ValueError in `class_names.index`
  deriving Repr

structure DefGen where
  name : String             -- operation / fragment name
  out : ModuleOut
  deriving Repr

/-- the part of `PackageGenerator`'s state this property looks at -/
structure OpsOut where
  ops : List DefGen := []
  unpacked : List String := []     -- PackageGenerator._unpacked_fragments (a set)
  marks : List Nat := []           -- selection sets that carry an automatic `__typename` by now
  deriving Repr

/--
```python
def add_operation(self, definition):
    name = definition.name
    if not name: raise ParsingError("Query without name.")
    query_types_generator = ResultTypesGenerator(schema, operation_definition=definition, …,
                                                 fragments_definitions=self.fragments_definitions, …)
    self._unpacked_fragments = self._unpacked_fragments.union(query_types_generator.get_unpacked_fragments())
```
-/
def addOperation (env : Env) (fuel : Nat) (acc : OpsOut) (o : Operation) : Except GenErr OpsOut :=
  match o.name with
  | none => .error (.parsing "Query without name.")
  | some n =>
    match generate env fuel (.op o) acc.marks with
    | .error e => .error e
    | .ok out => .ok { ops := acc.ops ++ [⟨n, out⟩], unpacked := setUnion acc.unpacked out.st.unpacked, marks := out.st.marks }

/-- `for query in queries: package_generator.add_operation(query)` (main.client) -/
def addOperationsFrom (env : Env) (fuel : Nat) : OpsOut → List Operation → Except GenErr OpsOut
  | acc, [] => .ok acc
  | acc, o :: rest =>
    match addOperation env fuel acc o with
    | .error e => .error e
    | .ok acc' => addOperationsFrom env fuel acc' rest

def addOperations (env : Env) (fuel : Nat) (ops : List Operation) : Except GenErr OpsOut :=
  addOperationsFrom env fuel {} ops

/--
```python
for name in self._fragments_names:                       # the set difference, in CPython's iteration order
    generator = ResultTypesGenerator(schema, operation_definition=self.fragments_definitions[name], …)
    imports.extend(generator.get_imports()); class_defs = generator.get_classes()
    class_defs_dict[name] = class_defs
    if class_defs: top_level_class_names.append(class_defs[0].name)
    dependencies_dict[name] = generator.get_fragments_used_as_mixins()
```
-/
def genFragments (env : Env) (fuel : Nat) : List String → List Nat → Except Err (List DefGen)
  | [], _ => .ok []
  | n :: rest, marks =>
    match findFragment? env.frags n with
    | none => .error (.order (.keyError n))     -- `self.fragments_definitions[name]`; names are the dict's own keys
    | some f =>
      match generate env fuel (.frag f) marks with
      | .error e => .error (.gen e)
      | .ok out =>
        match genFragments env fuel rest out.st.marks with
        | .error e => .error e
        | .ok more => .ok (⟨n, out⟩ :: more)

/-- what `FragmentsGenerator.generate` hands to `ast_to_str` -/
structure FragmentsOut where
  order : List String                 -- fragment names in emitted order (`_get_sorted_fragments_names`)
  classes : List ClassDecl            -- class definitions in emitted order
  rebuilds : List String              -- `X.model_rebuild()` calls in emitted order
  deps : Order.Deps                   -- dependencies_dict
  mixinImports : List (String × String)   -- the (from, import) pairs of every @mixin processed
  publicNames : List String
  usedEnums : List String
  deriving Repr

def lookupGen (gens : List DefGen) (n : String) : Option DefGen := gens.find? (·.name == n)

def classesInOrder (gens : List DefGen) : List String → Except Err (List ClassDecl)
  | [] => .ok []
  | n :: rest =>
    match lookupGen gens n with
    | none => .error (.order (.keyError n))       -- class_defs_dict[name]
    | some g =>
      match classesInOrder gens rest with
      | .error e => .error e
      | .ok more => .ok (g.out.classes ++ more)

/-- `FragmentsGenerator.generate(exclude_names)` given the iteration order `names` of the remaining set -/
def generateFragments (e : Order.EnumOracle) (env : Env) (fuel : Nat) (names : List String) (marks : List Nat) :
    Except Err FragmentsOut :=
  match genFragments env fuel names marks with
  | .error err => .error err
  | .ok gens =>
    let deps : Order.Deps := gens.map fun g => (g.name, g.out.st.mixins)
    match Order.sortedFragmentsNames e names deps with
    | .error err => .error (.order err)
    | .ok sorted =>
      match classesInOrder gens sorted with
      | .error err => .error err
      | .ok classes =>
        let top := gens.filterMap fun g => g.out.classes.head?.map (·.name)
        match Order.rebuildCalls top (classes.map (·.name)) with
        | .error err => .error (.order err)
        | .ok rebuilds =>
          .ok { order := sorted, classes := classes, rebuilds := rebuilds, deps := deps,
                mixinImports := gens.flatMap (·.out.st.mixinImports),
                publicNames := gens.flatMap (·.out.st.publicNames),
                usedEnums := gens.flatMap (·.out.st.usedEnums) }

/-- `set(self.fragments_definitions.keys()).difference(self._unpacked_fragments)` (a listing of it) -/
def remaining (env : Env) (excluded : List String) : List String :=
  (dedup (env.frags.map (·.name))).filter fun n => !excluded.contains n

structure PackageOut where
  ops : List DefGen
  excluded : List String              -- PackageGenerator._unpacked_fragments
  fragments : Option FragmentsOut     -- `none`: no fragments module is written
  deriving Repr

/--
```python
def _generate_fragments(self):
    if not set(self.fragments_definitions.keys()).difference(self._unpacked_fragments):
        return
    module = self.fragments_generator.generate(exclude_names=self._unpacked_fragments)
    file_path.write_text(...)
```
-/
def fragmentsModule (e : Order.EnumOracle) (env : Env) (fuel : Nat) (ops : List Operation) : Except Err PackageOut :=
  match addOperations env fuel ops with
  | .error err => .error (.gen err)
  | .ok acc =>
    let rem := remaining env acc.unpacked
    if rem.isEmpty then .ok { ops := acc.ops, excluded := acc.unpacked, fragments := none }
    else
      match generateFragments e env fuel (e rem) acc.marks with
      | .error err => .error err
      | .ok fo => .ok { ops := acc.ops, excluded := acc.unpacked, fragments := some fo }

/-- the names an operation module imports from the fragments module
    (`from .fragments import …` in `_add_enums_scalars_fragments_imports`): its mixins, pascal-cased -/
def opFragmentImports (g : DefGen) : List String := g.out.st.mixins.map pascal

/-! ### The finding trigger C08-F1 (decidable, computed by the model)

A fragment that some OPERATION unpacks is excluded from the fragments module for everybody; when the
same fragment is also inherited (mixin of an operation class, or dependency of a fragment that is
generated), the package does not import (ImportError / no fragments module) or generation dies with
KeyError in the sort. -/

/-- everything some operation's module imports from the fragments module -/
def inheritedByOps (acc : OpsOut) : List String := acc.ops.flatMap (·.out.st.mixins)

/-- dependencies of the fragments that remain to be generated -/
def inheritedByFragments (e : Order.EnumOracle) (env : Env) (fuel : Nat) (acc : OpsOut) : List String :=
  match genFragments env fuel (e (remaining env acc.unpacked)) acc.marks with
  | .ok gens => gens.flatMap (·.out.st.mixins)
  | .error _ => []

def trigUnpackedAndInherited (e : Order.EnumOracle) (env : Env) (fuel : Nat) (ops : List Operation) : Bool :=
  match addOperations env fuel ops with
  | .error _ => false
  | .ok acc => acc.unpacked.any fun n => (inheritedByOps acc).contains n || (inheritedByFragments e env fuel acc).contains n

/-! ### The finding trigger C08-F3 (decidable, computed by the model)

The fragment bases of a class are written in alphabetical order.  When one of them is itself derived from
another one that sorts earlier (`class AUser(UserBasic, UserFull)` with `class UserFull(UserBasic)`), CPython
cannot linearise the bases (`TypeError: Cannot create a consistent method resolution order`) and the module
does not import.  The trigger is exactly "C3 fails for some class statement of some emitted module"
(`Spec.Py.mroOK`, validated against CPython). -/

def classTable (cs : List ClassDecl) : Spec.Py.ClassTable := cs.map fun c => (c.name, c.bases)

def fragmentTable (out : PackageOut) : Spec.Py.ClassTable :=
  match out.fragments with
  | none => []
  | some fo => classTable fo.classes

/-- the class statements CPython executes when it imports each emitted module (an operation module
    imports the fragments module first) -/
def moduleTables (out : PackageOut) : List Spec.Py.ClassTable :=
  (if out.fragments.isSome then [fragmentTable out] else []) ++
    out.ops.map fun g => fragmentTable out ++ classTable g.out.classes

def trigMroConflict (e : Order.EnumOracle) (env : Env) (fuel : Nat) (ops : List Operation) : Bool :=
  match fragmentsModule e env fuel ops with
  | .ok out => (moduleTables out).any fun t => !Spec.Py.mroOK t
  | .error _ => false

/-! ### The finding trigger C08-F4 (decidable, computed by the model)

At an interface position that also gets sub-type classes (inline fragments / spreads on members) the field is
annotated `Union[PosInterface, PosMember, …]`, every class of the union being generated from the SAME selection
set.  A fragment on the interface that this selection set spreads is inherited by `PosInterface` only; the member
classes are evaluated for the member type and unpack it.  An object of such a runtime type is then no instance of
the fragment's class.  (Inside an operation the same shape also makes the operation unpack the fragment: C08-F1.) -/

/-- the class-name lists of every `Union[…]` inside an annotation -/
def annUnions : Ann → List (List String)
  | .optional a => annUnions a
  | .list a => annUnions a
  | .disc a => annUnions a
  | .union as => [as.filterMap fun a => match a with | .cls n => some n | _ => none]
  | _ => []

/-- a class generated for an abstract type: its `typename__` literal lists an abstract type name -/
def isAbstractClass (env : Env) (c : ClassDecl) : Bool :=
  c.fields.any fun f => f.py == typenameAlias && match f.ann with
    | .literal vs => vs.any env.schema.isAbstract
    | _ => false

def findClass (cs : List ClassDecl) (n : String) : Option ClassDecl := cs.find? (·.name == n)

/-- every class generated for the same selection set inherits the fragments the interface class inherits -/
def siblingsInheritAlike (env : Env) (classes : List ClassDecl) (mixins : List String) : Bool :=
  classes.all fun c => c.fields.all fun f => (annUnions f.ann).all fun names =>
    match names with
    | [] => true
    | n0 :: rest =>
      match findClass classes n0 with
      | none => true
      | some c0 =>
        !isAbstractClass env c0 ||
          rest.all fun ni =>
            match findClass classes ni with
            | none => true
            | some ci => (c0.bases.filter fun b => (mixins.map pascal).contains b).all fun b => ci.bases.contains b

def trigSiblingUnpacks (e : Order.EnumOracle) (env : Env) (fuel : Nat) (ops : List Operation) : Bool :=
  match fragmentsModule e env fuel ops with
  | .ok out =>
    (out.ops.any fun g => !siblingsInheritAlike env g.out.classes g.out.st.mixins) ||
      (match out.fragments with
       | some fo => !siblingsInheritAlike env fo.classes (fo.deps.flatMap (·.2))
       | none => false)
  | .error _ => false

end Ariadne.Fragments
