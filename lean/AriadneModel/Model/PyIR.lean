/-
  The fragment of Python `ast` that the bundled plugins of ariadne-codegen inspect and rewrite
  (contrib/shorter_results.py, extract_operations.py, client_forward_refs.py, no_reimports.py),
  as plain inductive data.  Everything a plugin never looks into is an opaque leaf (`other`)
  carrying its `ast.dump` text (so that equality still means "the same tree") and the `ast.Name`
  identifiers occurring in it (so that scoping questions can still be asked).

  The JSON form of these types is produced by the recorder plugin of harness/c15_plugins_src.py
  from the REAL ast objects the plugin manager hands to / gets back from the plugins, and decoded by
  Driver/C15.lean.  Core Lean only.
-/
namespace Ariadne.Py

/-- `ast.expr` (the constructors a bundled plugin distinguishes with `isinstance`). -/
inductive Ex where
  | name (id : String)                         -- ast.Name
  | const (v : String)                         -- ast.Constant holding a `str`
  | sub (value slice : Ex)                     -- ast.Subscript
  | tuple (elts : List Ex)                     -- ast.Tuple
  | attr (value : Ex) (attr : String)          -- ast.Attribute
  | call (func : Ex) (args : List Ex) (kwNames : List (Option String)) (kwVals : List Ex)  -- ast.Call
  | await (e : Ex)                             -- ast.Await
  | yield (e : Ex)                             -- ast.Yield with a value
  | yieldNone                                  -- bare `yield`
  | strs (lines : List String)                 -- the *Python list* of Constant nodes inside `gql([...])`
  | other (dump : String) (loads : List String) -- any other node
  deriving Repr, Inhabited

/-- `ast.ImportFrom`; a name is `(name, asname)`. -/
structure ImportFrom where
  module : Option String
  names : List (String × Option String)
  level : Nat
  deriving Repr, Inhabited, DecidableEq

/-- Statements without sub-statements. -/
inductive Simple where
  | importFrom (i : ImportFrom)
  | import_ (dump : String)                                   -- ast.Import
  | assign (target : String) (value : Ex)                     -- single Name target
  | assignList (target : String) (elts : List String)         -- `__all__ = ["a", ...]`
  | annAssign (target ann : Ex) (value : Option Ex)
  | ret (value : Option Ex)
  | expr (value : Ex)
  | other (dump : String) (loads : List String)
  deriving Repr, Inhabited

/-- Statements of a method body.  `bodyIsList = false` is the `ast.AsyncFor` that
    `ShorterResultsPlugin` builds with a bare `ast.Expr` (not a list) as `body`. -/
inductive Stmt where
  | simple (s : Simple)
  | asyncFor (target iter : Ex) (body : List Simple) (bodyIsList : Bool) (orelse : Nat)
  deriving Repr, Inhabited

/-- `ast.FunctionDef` / `ast.AsyncFunctionDef`.  `args` = `args.args` (name, annotation); `rest` =
    the remaining members of `ast.arguments` (defaults, `**kwargs: Any`, …), opaque. -/
structure Method where
  isAsync : Bool
  name : String
  args : List (String × Option Ex)
  rest : Ex
  decorators : Nat
  returns : Option Ex
  body : List Stmt
  deriving Repr, Inhabited

inductive ClassItem where
  | method (m : Method)
  | stmt (s : Simple)
  deriving Repr, Inhabited

/-- `ast.ClassDef` (the client class and the generated result classes alike). -/
structure ClassDef where
  name : String
  bases : List Ex
  keywords : Nat
  body : List ClassItem
  deriving Repr, Inhabited

/-- Module-level statements. -/
inductive Top where
  | simple (s : Simple)
  | classDef (c : ClassDef)
  | funcDef (m : Method)
  | ifStmt (test : Ex) (body : List Simple) (orelse : Nat)
  deriving Repr, Inhabited

structure Module where
  body : List Top
  deriving Repr, Inhabited

mutual
  def Ex.size : Ex → Nat
    | .sub v s => v.size + s.size + 1
    | .tuple es => sizeList es + 1
    | .attr v _ => v.size + 1
    | .call f as _ vs => f.size + sizeList as + sizeList vs + 1
    | .await e => e.size + 1
    | .yield e => e.size + 1
    | _ => 1
  def sizeList : List Ex → Nat
    | [] => 0
    | e :: es => e.size + sizeList es
end

/-! ### small accessors -/

def Top.importFrom? : Top → Option ImportFrom
  | .simple (.importFrom i) => some i
  | _ => none

def Top.isImport : Top → Bool
  | .simple (.import_ _) => true
  | _ => false

def Top.classDef? : Top → Option ClassDef
  | .classDef c => some c
  | _ => none

def ClassItem.method? : ClassItem → Option Method
  | .method m => some m
  | _ => none

/-- `next(filter(lambda o: isinstance(o, ast.ClassDef), module.body), None)` -/
def Module.firstClass? (m : Module) : Option ClassDef := m.body.findSome? Top.classDef?

def ClassDef.methods (c : ClassDef) : List Method := c.body.filterMap ClassItem.method?

/-- `s.startswith(".")` -/
def startsWithDot (s : String) : Bool :=
  match s.toList with
  | '.' :: _ => true
  | _ => false

/-- `str.upper()` on the ASCII strings `str_to_snake_case` produces -/
def upperAscii (s : String) : String := String.ofList (s.toList.map Char.toUpper)

/-- `"." * level + module` -/
def dotted (level : Nat) (module : String) : String := String.ofList (List.replicate level '.') ++ module

/-! ### Python dict / set as association lists (insertion order, first binding wins on lookup,
    assignment to an existing key keeps its position) -/

def alookup {β} (k : String) : List (String × β) → Option β
  | [] => none
  | (k', v) :: rest => if k' = k then some v else alookup k rest

def ahas {β} (k : String) (d : List (String × β)) : Bool := (alookup k d).isSome

def aset {β} (k : String) (v : β) : List (String × β) → List (String × β)
  | [] => [(k, v)]
  | (k', v') :: rest => if k' = k then (k, v) :: rest else (k', v') :: aset k v rest

def aerase {β} (k : String) : List (String × β) → List (String × β)
  | [] => []
  | (k', v') :: rest => if k' = k then rest else (k', v') :: aerase k rest

/-- `set.add` on a list standing for a set (iteration order of a real set is not modelled: every
    place where it reaches the output is sorted by the canonicaliser of the harness). -/
def sadd (x : String) (s : List String) : List String := if s.contains x then s else s ++ [x]

/-- insertion sort by `String`'s `<` (code point order = Python's `sorted` on `str`). -/
def insertSorted (x : String) : List String → List String
  | [] => [x]
  | y :: ys => if y < x then y :: insertSorted x ys else x :: y :: ys

def sortStrings (xs : List String) : List String := xs.foldr insertSorted []

end Ariadne.Py
