/-
  Model/PruneDoc.lean — the DOCUMENT side of the pruning (C09): how `PackageGenerator` gets from the
  operations and fragments of the queries document to the roots / used-enum lists that
  Model/Prune.lean starts from.  Core Lean only (the C09 driver links this file).  Built ON
  Model/Prune.lean; changes nothing there.

  Python modelled (ariadne_codegen/client_generators):

  arguments.py, class ArgumentsGenerator  (ONE instance, shared by every client method)
      generate(variable_definitions):  for variable_definition in variable_definitions:
                                           ... self._parse_type_node(variable_definition.type) ...
      _parse_type_node(node, nullable=True):
            if isinstance(node, NamedTypeNode):   return self._parse_named_type_node(node, nullable)
            if isinstance(node, ListTypeNode):    sub_annotation, used = self._parse_type_node(node.type, nullable); ...
            if isinstance(node, NonNullTypeNode): return self._parse_type_node(node.type, False)
            raise ParsingError("Invalid argument type.")     # graphql-core has no fourth TypeNode class
      _parse_named_type_node(node, nullable):
            name = node.name.value; type_ = self.schema.type_map.get(name)
            if not type_: raise ParsingError(f"Argument type {name} not found in schema.")
            if   isinstance(type_, GraphQLInputObjectType): self._used_inputs.append(name)
            elif isinstance(type_, GraphQLEnumType):        self._used_enums.append(name)
            elif isinstance(type_, GraphQLScalarType):      ...                       # annotation only
            else: raise ParsingError(f"Incorrect argument type {name}")

  package.py, class PackageGenerator
      add_operation(definition):
            query_types_generator = ResultTypesGenerator(..., operation_definition=definition, ...)
            self._unpacked_fragments = self._unpacked_fragments.union(query_types_generator.get_unpacked_fragments())
            self._used_enums.extend(query_types_generator.get_used_enums())
            ...
            self.client_generator.add_method(definition=definition, ...)   # -> arguments_generator.generate(...)
      _generate_fragments():
            if not set(self.fragments_definitions.keys()).difference(self._unpacked_fragments): return
            module = self.fragments_generator.generate(exclude_names=self._unpacked_fragments)
            ...; self._used_enums.extend(self.fragments_generator.get_used_enums())

  fragments.py, class FragmentsGenerator
      generate(exclude_names):  self._fragments_names = self._fragments_names - names_to_exclude
            for name in self._fragments_names:                    # a set: CPython's iteration order
                generator = ResultTypesGenerator(..., operation_definition=self.fragments_definitions[name], ...)
                ...; self._used_enums.extend(generator.get_used_enums())

  main.py, client():  for query in queries: package_generator.add_operation(query);  package_generator.generate()

  What stays a parameter (component outputs, observed on the real `ResultTypesGenerator` by harness/c09.py
  and specified there independently): per operation `get_used_enums()` and `get_unpacked_fragments()`,
  per fragment definition the `get_used_enums()` of the generator built for it (`[]` for a fragment on a
  union or with a top-level inline fragment: `_unpack_fragment(self.operation_definition)` makes
  `_class_defs = []`).  The walk over selection sets that produces them is modelled by
  Model/ResultTypes.lean (properties C01/C08), not here.
-/
import AriadneModel.Model.Prune

namespace Ariadne.PruneDoc
open Ariadne.Prune

/-- graphql-core's `TypeNode` (the type of a variable definition). -/
inductive TypeNode where
  | named (n : Name)
  | list (t : TypeNode)
  | nonNull (t : TypeNode)
  deriving Repr, DecidableEq

/-- the named type under all list / non-null wrappers -/
def TypeNode.base : TypeNode → Name
  | .named n => n
  | .list t => t.base
  | .nonNull t => t.base

/-- What `schema.type_map.get(name)` holds, as far as `_parse_named_type_node` distinguishes. -/
inductive Kind where
  | input | enum | scalar
  | other      -- object / interface / union
  | missing    -- not in `type_map`
  deriving Repr, DecidableEq

inductive Err where
  | argNotFound (n : Name)     -- ParsingError("Argument type {name} not found in schema.")
  | argIncorrect (n : Name)    -- ParsingError("Incorrect argument type {name}")
  | fuel                       -- the DFS of Model/Prune.lean ran out of fuel (never: `generate_total`)
  deriving Repr, DecidableEq

/-- `ArgumentsGenerator._used_inputs` / `_used_enums`. -/
structure ArgSt where
  usedInputs : List Name := []
  usedEnums : List Name := []
  deriving Repr, DecidableEq

/-- `_parse_named_type_node` (the part that touches the two lists). -/
def parseNamed (kinds : Name → Kind) (st : ArgSt) (n : Name) : Except Err ArgSt :=
  match kinds n with
  | .missing => .error (.argNotFound n)
  | .input => .ok { st with usedInputs := st.usedInputs ++ [n] }
  | .enum => .ok { st with usedEnums := st.usedEnums ++ [n] }
  | .scalar => .ok st
  | .other => .error (.argIncorrect n)

/-- `_parse_type_node`: recursion through the wrappers. -/
def parseTypeNode (kinds : Name → Kind) (st : ArgSt) : TypeNode → Except Err ArgSt
  | .named n => parseNamed kinds st n
  | .list t => parseTypeNode kinds st t
  | .nonNull t => parseTypeNode kinds st t

/-- `ArgumentsGenerator.generate(variable_definitions)`: the loop over the variables; the first
    `ParsingError` escapes. -/
def argumentsGenerate (kinds : Name → Kind) : ArgSt → List TypeNode → Except Err ArgSt
  | st, [] => .ok st
  | st, t :: rest =>
    match parseTypeNode kinds st t with
    | .error e => .error e
    | .ok st' => argumentsGenerate kinds st' rest

/-- One operation definition as `add_operation` sees it. -/
structure DocOp where
  vars : List TypeNode        -- `definition.variable_definitions[i].type`, in order
  resultEnums : List Name     -- `ResultTypesGenerator(definition).get_used_enums()`
  unpacked : List Name := []  -- `ResultTypesGenerator(definition).get_unpacked_fragments()` (a set)
  deriving Repr, DecidableEq

/-- One entry of `fragments_definitions`. -/
structure FragDef where
  name : Name
  enums : List Name           -- `get_used_enums()` of the `ResultTypesGenerator` built for this fragment
  deriving Repr, DecidableEq

structure DocInput where
  kinds : List (Name × Kind)  -- `schema.type_map`, classified (first entry for a name counts)
  inputs : List InputDef
  enums : List EnumDef
  ops : List DocOp
  frags : List FragDef        -- `fragments_definitions` (a dict: insertion order)
  allInputs : Bool
  allEnums : Bool
  customOps : Bool := false
  customInputs : List Name := []
  customEnums : List Name := []
  deriving Repr

def kindOf (x : DocInput) (n : Name) : Kind := (x.kinds.lookup n).getD .missing

/-- The part of `PackageGenerator`'s (and its shared `ArgumentsGenerator`'s) state that the
    `add_operation` calls build up. -/
structure DocSt where
  usedEnums : List Name := []    -- PackageGenerator._used_enums
  unpacked : List Name := []     -- PackageGenerator._unpacked_fragments (a set: membership only)
  arg : ArgSt := {}              -- client_generator.arguments_generator
  deriving Repr, DecidableEq

/-- `PackageGenerator.add_operation`: the result-types generator first (unpacked fragments, used
    enums), then `client_generator.add_method`, which runs the shared arguments generator.
    `earlyRead = true` is NOT the code: it is the variant in which `_used_enums` is extended from the
    arguments generator here, before `add_method` (see `generateDocWith`). -/
def addOperationWith (earlyRead : Bool) (kinds : Name → Kind) (st : DocSt) (op : DocOp) : Except Err DocSt :=
  let st1 : DocSt :=
    { st with unpacked := st.unpacked ++ op.unpacked,
              usedEnums := st.usedEnums ++ op.resultEnums ++ (if earlyRead then st.arg.usedEnums else []) }
  match argumentsGenerate kinds st1.arg op.vars with
  | .error e => .error e
  | .ok a => .ok { st1 with arg := a }

/-- `for query in queries: package_generator.add_operation(query)`. -/
def addOperationsWith (earlyRead : Bool) (kinds : Name → Kind) : DocSt → List DocOp → Except Err DocSt
  | st, [] => .ok st
  | st, op :: rest =>
    match addOperationWith earlyRead kinds st op with
    | .error e => .error e
    | .ok st' => addOperationsWith earlyRead kinds st' rest

/-- `set(fragments_definitions.keys()).difference(_unpacked_fragments)`, kept with the definitions. -/
def remaining (frags : List FragDef) (unpacked : List Name) : List FragDef :=
  frags.filter fun f => !decide (f.name ∈ unpacked)

/-- `_generate_fragments` as far as the pruning sees it: `none` = early return (nothing written,
    `_used_enums` untouched), `some es` = the module is written and `es` is what
    `fragments_generator.get_used_enums()` returns.  `e` enumerates the set `_fragments_names`. -/
def fragmentsEnumsWith (e : List FragDef → List FragDef) (frags : List FragDef) (unpacked : List Name) :
    Option (List Name) :=
  if (remaining frags unpacked).isEmpty then none
  else some ((e (remaining frags unpacked)).flatMap (·.enums))

def fragmentsEnums (frags : List FragDef) (unpacked : List Name) : Option (List Name) :=
  fragmentsEnumsWith id frags unpacked

/-- The input of Model/Prune.lean's `step` once the `add_operation` calls are over (its `ops` are not
    read any more: the state is handed over separately). -/
def shell (x : DocInput) (frag : Option (List Name)) : Input :=
  { inputs := x.inputs, enums := x.enums, ops := [], fragEnums := frag,
    allInputs := x.allInputs, allEnums := x.allEnums,
    customOps := x.customOps, customInputs := x.customInputs, customEnums := x.customEnums }

def handOver (st : DocSt) : St :=
  { usedEnums := st.usedEnums, argInputs := st.arg.usedInputs, argEnums := st.arg.usedEnums }

/-- `main.client`: all `add_operation` calls, then `PackageGenerator.generate()` (the steps of
    Model/Prune.lean).  With `earlyRead` the client step is left out of the accumulation (that variant
    reads the arguments generator in `add_operation` instead) but client.py is written all the same. -/
def generateDocWith (earlyRead : Bool) (e : List FragDef → List FragDef) (x : DocInput) : Except Err Output :=
  match addOperationsWith earlyRead (kindOf x) {} x.ops with
  | .error err => .error err
  | .ok st =>
    let sh := shell x (fragmentsEnumsWith e x.frags st.unpacked)
    if earlyRead then
      match (runSteps sh [.inputs, .results, .fragments, .enums] (handOver st)).bind finish with
      | none => .error .fuel
      | some out => .ok { out with clientInputs := st.arg.usedInputs, clientEnums := st.arg.usedEnums }
    else
      match (runSteps sh generateOrder (handOver st)).bind finish with
      | none => .error .fuel
      | some out => .ok out

/-- The code as it is. -/
def generateDoc (x : DocInput) : Except Err Output := generateDocWith false id x

/-! ### Closed form: the `Input` of Model/Prune.lean that a document amounts to -/

/-- what one `generate(variable_definitions)` call appends, started from empty lists -/
def varsUse (kinds : Name → Kind) (vars : List TypeNode) : Except Err ArgSt :=
  argumentsGenerate kinds {} vars

def opOf (kinds : Name → Kind) (op : DocOp) : Except Err Op :=
  match varsUse kinds op.vars with
  | .error e => .error e
  | .ok a => .ok ⟨a.usedInputs, a.usedEnums, op.resultEnums⟩

def opsOf (kinds : Name → Kind) : List DocOp → Except Err (List Op)
  | [] => .ok []
  | op :: rest =>
    match opOf kinds op with
    | .error e => .error e
    | .ok o =>
      match opsOf kinds rest with
      | .error e => .error e
      | .ok os => .ok (o :: os)

def unpackedOf (x : DocInput) : List Name := x.ops.flatMap (·.unpacked)

def toInputWith (e : List FragDef → List FragDef) (x : DocInput) : Except Err Input :=
  match opsOf (kindOf x) x.ops with
  | .error err => .error err
  | .ok ops =>
    .ok { inputs := x.inputs, enums := x.enums, ops := ops,
          fragEnums := fragmentsEnumsWith e x.frags (unpackedOf x),
          allInputs := x.allInputs, allEnums := x.allEnums,
          customOps := x.customOps, customInputs := x.customInputs, customEnums := x.customEnums }

def toInput (x : DocInput) : Except Err Input := toInputWith id x

/-- The same document with both flags at their default `true`. -/
def unprunedDoc (x : DocInput) : DocInput := { x with allInputs := true, allEnums := true }

end Ariadne.PruneDoc
