/-
  The Python values a caller can hand to a generated client method (properties C03, C07), and
  what the caller *means* by them.

  `AV` is the value tree of DESIGN.md §3.0 "schema-valid Python arguments": `str`/`int`/`float`/
  `bool`, members of generated enums, values of a custom scalar's Python type, lists, instances of
  generated input models (fields set or unset), `None`, and — at the top level only — "argument
  omitted" (`unset`, the `UNSET` default of the signature).

  A model instance carries, per field of its class in class order, the dump key
  (`alias` if the class declares one, else the attribute name) and the field's annotation, because
  that is what pydantic's `model_dump(by_alias=True, exclude_unset=True)` consults.  `hasType`
  (schema-validity) ties both to the model of the input-class generator (`InputFields.fieldDecl`).

  User code (`serialize` functions of configured custom scalars) is a parameter: `UserFns`.

  Core Lean only.
-/
import AriadneModel.Model.Json
import AriadneModel.Model.Scalars
import AriadneModel.Model.BaseClient
import AriadneModel.Model.InputFields
import AriadneModel.Spec.Coerce

namespace Ariadne.ArgValues
open Ariadne Ariadne.Scalars Ariadne.Coerce
open Ariadne.BaseClient (PV)

/-- what `model_dump(by_alias=True, …)` needs to know about a field of a generated input class -/
structure FieldKey where
  key : String            -- `alias` if declared, else the attribute name
  ann : NAnn
  deriving Repr, DecidableEq, Inhabited

inductive AV where
  | none
  | unset                                   -- top level: argument omitted (UNSET); in a model: field not set
  | bool (b : Bool)
  | int (i : Int)
  | float (m : Int) (e : Nat)               -- finite float `m * 10^-e`
  | str (s : String)
  | enum (member : String)                  -- member of a generated `class E(str, Enum)`; value = GraphQL name
  | custom (scalar : String) (j : J)        -- a value at a custom-scalar position; `j` = what
                                            -- `json.dumps(default=to_jsonable_python)` makes of it
  | list (xs : List AV)
  | model (cls : String) (fields : List (FieldKey × AV))
  deriving Inhabited

namespace AV
def isUnset : AV → Bool
  | .unset => true
  | _ => false
def isNone : AV → Bool
  | .none => true
  | _ => false
end AV

/-- The user's `serialize` functions, by the name the generated code calls them with.
    `ser f j` = the JSON form of `f(x)` for a scalar value `x` whose JSON form is `j`;
    `other f v` = what `f` does when it is handed something that is not a scalar value
    (`None`, `UNSET`, a list …): it may raise (`.error`) or return anything. -/
structure UserFns where
  ser : String → J → J
  other : String → PV → Except String PV

def UserFns.apply (fns : UserFns) (f : String) : PV → Except String PV
  | .leaf (some j) => .ok (.leaf (some (fns.ser f j)))
  | v => fns.other f v

/-- one call of a user function -/
structure Call where
  fn : String
  arg : PV

/-! ### leaves as the base client sees them -/

/-- a leaf value as a `BaseClient.PV` (what sits in the `variables` dict / in a dumped model) -/
def leafPV : AV → PV
  | .none => .none
  | .unset => .unset
  | .bool b => .bool b
  | .int i => .num i 0
  | .float m e => .num m e
  | .str s => .str s
  | .enum m => .str m                       -- `str` subclass: json.dumps writes the member's value
  | .custom _ j => .leaf (some j)
  | .list _ => .none                        -- not a leaf (never used on these)
  | .model _ _ => .none

/-! ### the configuration a value is judged against -/

structure Cfg where
  schema : ISchema
  scalars : ScalarCfg := []
  snake : Bool := true

def Cfg.serializeOf (cfg : Cfg) (scalar : String) : Option String :=
  match lookupScalar cfg.scalars scalar with
  | some d => d.serializeName
  | none => none

def Cfg.isScalar (cfg : Cfg) (n : String) : Bool :=
  match cfg.schema.get? n with
  | some .scalar => true
  | _ => false

/-- the `serialize` function configured for the scalar a type is built on, if any -/
def Cfg.serOfType (cfg : Cfg) (t : GT) : Option String :=
  if cfg.isScalar t.base then cfg.serializeOf t.base else none

def Cfg.fieldsOf (cfg : Cfg) (cls : String) : List IField :=
  match cfg.schema.get? cls with
  | some (.input fs) => fs
  | _ => []

/-- dump key + annotation of the generated class attribute for a schema field -/
def fieldKeyOf (cfg : Cfg) (f : IField) : FieldKey :=
  let d := InputFields.fieldDecl cfg.snake cfg.scalars (fun n => InputFields.kindOf cfg.schema n) f.name f.type
  ⟨d.alias.getD d.py, d.ann⟩

/-! ### what the caller means: the value the resolver must receive -/

mutual
  /-- the caller's value under the original GraphQL names, with the server-side defaults of unset
      input fields filled in (that is what "absent, so that server-side defaults apply" means for
      the resolver) -/
  def intended (cfg : Cfg) (fns : UserFns) : AV → J
    | .none => .null
    | .unset => .null                       -- never a proper value (excluded by `hasType`)
    | .bool b => .bool b
    | .int i => .num i 0
    | .float m e => .num m e
    | .str s => .str s
    | .enum m => .str m
    | .custom sc j =>
      match cfg.serializeOf sc with
      | some f => fns.ser f j
      | none => j
    | .list xs => .arr (intendedList cfg fns xs)
    | .model cls fields => .obj (intendedFields cfg fns (cfg.fieldsOf cls) fields)
  def intendedList (cfg : Cfg) (fns : UserFns) : List AV → List J
    | [] => []
    | x :: xs => intended cfg fns x :: intendedList cfg fns xs
  def intendedFields (cfg : Cfg) (fns : UserFns) : List IField → List (FieldKey × AV) → List (String × J)
    | f :: fs, (_, v) :: rest =>
      if v.isUnset then
        match f.default with
        | some d => (f.name, d) :: intendedFields cfg fns fs rest
        | none => intendedFields cfg fns fs rest
      else (f.name, intended cfg fns v) :: intendedFields cfg fns fs rest
    | _, _ => []
end

/-- per variable of an operation (`defs`, aligned with the caller's assignment): the value the
    resolver must receive — the intended value of a given argument; for an omitted one the variable's
    declared default if there is one, otherwise the variable is absent -/
def intendedVars (cfg : Cfg) (fns : UserFns) : List IField → List AV → List (String × J)
  | d :: ds, v :: vs =>
    if v.isUnset then
      match d.default with
      | some x => (d.name, x) :: intendedVars cfg fns ds vs
      | none => intendedVars cfg fns ds vs
    else (d.name, intended cfg fns v) :: intendedVars cfg fns ds vs
  | _, _ => []

/-! ### the serialize calls a value is entitled to (C07): one per non-null occurrence -/

mutual
  /-- one `serialize(value)` call per non-null custom-scalar leaf whose scalar is configured with
      `serialize`, in depth-first order; nothing for `None`, unset fields, omitted arguments -/
  def serCalls (cfg : Cfg) : AV → List Call
    | .custom sc j =>
      match cfg.serializeOf sc with
      | some f => [⟨f, .leaf (some j)⟩]
      | none => []
    | .list xs => serCallsList cfg xs
    | .model _ fields => serCallsFields cfg fields
    | _ => []
  def serCallsList (cfg : Cfg) : List AV → List Call
    | [] => []
    | x :: xs => serCalls cfg x ++ serCallsList cfg xs
  def serCallsFields (cfg : Cfg) : List (FieldKey × AV) → List Call
    | [] => []
    | (_, v) :: rest => serCalls cfg v ++ serCallsFields cfg rest
end

/-! ### schema-valid values -/

/-- a leaf value (not `None`, not a list, not a model) at a named type -/
def leafOK (cfg : Cfg) (n : String) : AV → Bool
  | .bool _ => (cfg.schema.get? n).isNone && n == "Boolean"
  | .int i => (cfg.schema.get? n).isNone && ((n == "Int" && int32 i) || n == "Float")
  | .float _ _ => (cfg.schema.get? n).isNone && n == "Float"
  | .str _ => (cfg.schema.get? n).isNone && (n == "String" || n == "ID")
  | .enum m =>
    match cfg.schema.get? n with
    | some (.enum vals) => vals.contains m
    | _ => false
  | .custom sc j =>
    sc == n && !j.isNull &&
    match cfg.schema.get? n with
    | some .scalar => true
    | _ => false
  | _ => false

mutual
  /-- pydantic accepts this value shape for this annotation as far as `None` and lists go
      (the only part of validation the dump semantics depends on) -/
  def annConf : NAnn → AV → Bool
    | a, .none => a.opt
    | .list item _, .list xs => annConfList item xs
    | .leaf _ _, .list _ => false
    | .list _ _, .model _ _ => false
    | .list _ _, .bool _ => false
    | .list _ _, .int _ => false
    | .list _ _, .float _ _ => false
    | .list _ _, .str _ => false
    | .list _ _, .enum _ => false
    | .list _ _, .custom _ _ => false
    | _, _ => true
  def annConfList (item : NAnn) : List AV → Bool
    | [] => true
    | x :: xs => annConf item x && annConfList item xs
end

mutual
  /-- `a` is a schema-valid Python value for the GraphQL input type `t` (DESIGN.md §3.0). -/
  def hasType (cfg : Cfg) : GT → AV → Bool
    | t, .none => !t.nonNull
    | _, .unset => false
    | .list it _, .list xs => hasTypeList cfg it xs
    | .named _ _, .list _ => false
    | .named n _, .model cls fields =>
      cls == n &&
      match cfg.schema.get? n with
      | some (.input fs) => hasFields cfg fs fields
      | _ => false
    | .list _ _, .model _ _ => false
    | .named n _, .bool b => leafOK cfg n (.bool b)
    | .named n _, .int i => leafOK cfg n (.int i)
    | .named n _, .float m e => leafOK cfg n (.float m e)
    | .named n _, .str s => leafOK cfg n (.str s)
    | .named n _, .enum m => leafOK cfg n (.enum m)
    | .named n _, .custom sc j => leafOK cfg n (.custom sc j)
    | .list _ _, _ => false
  def hasTypeList (cfg : Cfg) (it : GT) : List AV → Bool
    | [] => true
    | x :: xs => hasType cfg it x && hasTypeList cfg it xs
  /-- the instance has exactly the class's fields, in class order; a set field holds a valid,
      constructible value; an unset field has a default in the class (`= None` for a nullable
      type, the schema default otherwise) -/
  def hasFields (cfg : Cfg) : List IField → List (FieldKey × AV) → Bool
    | [], [] => true
    | f :: fs, (fk, v) :: rest =>
      (fk == fieldKeyOf cfg f) &&
      ((v.isUnset && (f.default.isSome || !f.type.nonNull)) || (hasType cfg f.type v && annConf fk.ann v)) &&
      hasFields cfg fs rest
    | _, _ => false
end

/-- schema-validity of an argument assignment (aligned with the variable definitions): an omitted
    argument belongs to a nullable variable; a given one is a schema-valid value of the variable's type -/
def argsValid (cfg : Cfg) : List IField → List AV → Bool
  | [], [] => true
  | d :: ds, v :: vs => ((v.isUnset && !d.type.nonNull) || hasType cfg d.type v) && argsValid cfg ds vs
  | _, _ => false

end Ariadne.ArgValues
