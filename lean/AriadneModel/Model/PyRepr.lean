/-
  C16 — how a constant reaches the emitted text: `codegen.generate_constant(x)` is
  `ast.Constant(value=x)`, and `ast.unparse` writes such a node as `repr(x)` (CPython 3.12
  `ast._Unparser._write_constant`: `self.write(repr(value))` for every value that is not a float /
  complex at top level; a finite float's `repr` passes through unchanged).  This file models that
  `repr` for the values a default value / enum value / description can be
  (`None`, `bool`, `int`, finite `float`, `str`, `list`, `dict` with `str` keys):

      repr(None) = 'None'     repr(True) = 'True'     repr(-3) = '-3'     repr(1e300) = '1e+300'
      repr([a, b]) = '[' + repr(a) + ', ' + repr(b) + ']'
      repr({k: v}) = '{' + repr(k) + ': ' + repr(v) + '}'
      repr(str): CPython `unicode_repr` —
          quote = "'" unless the string has a ' and no ", then '"';
          the quote and the backslash are backslash-escaped, TAB/LF/CR become \t \n \r,
          other code points < 0x20 and 0x7f become \xHH, other ASCII is copied,
          a non-ASCII code point is copied when `Py_UNICODE_ISPRINTABLE`, else \xHH (<= 0xff),
          \uHHHH (<= 0xffff) or \UHHHHHHHH, lower-case hex digits.

  `Py_UNICODE_ISPRINTABLE` is a table of the installed CPython (Generated/PyUnicode.lean, re-read
  from the running interpreter on every check); the printer takes it as a parameter, and the
  round-trip theorem (Properties/C16.lean `literal_roundtrip`) holds for EVERY such predicate.
  A float is kept as its `repr` text (no float arithmetic in the model); `floatText` says what such
  a text looks like (`digits[.digits][e[+-]digits]` with a fraction or an exponent, optional `-`).

  The harness compares `pyRepr` with the real `repr` / `ast.unparse(ast.Constant(..))` on every
  constant of every generated schema and on random constants (driver op "repr").

  Core Lean only.
-/
import AriadneModel.Model.SchemaIR
import AriadneModel.Generated.PyUnicode

namespace Ariadne.PyRepr
open Ariadne.Schema

/-- `k` lower-case hex digits of `n`, most significant first (`n < 16^k`) -/
def hexN : Nat → Nat → List Char
  | 0, _ => []
  | k + 1, n => Nat.digitChar (n / 16 ^ k) :: hexN k (n % 16 ^ k)

/-- one character of a `str` inside `repr` with quote `q` -/
def escapeChar (printable : Char → Bool) (q c : Char) : List Char :=
  if c = q ∨ c = '\\' then ['\\', c]
  else if c = '\t' then ['\\', 't']
  else if c = '\n' then ['\\', 'n']
  else if c = '\r' then ['\\', 'r']
  else if c.toNat < 32 ∨ c.toNat = 127 then '\\' :: 'x' :: hexN 2 c.toNat
  else if c.toNat < 127 then [c]
  else if printable c then [c]
  else if c.toNat < 256 then '\\' :: 'x' :: hexN 2 c.toNat
  else if c.toNat < 65536 then '\\' :: 'u' :: hexN 4 c.toNat
  else '\\' :: 'U' :: hexN 8 c.toNat

/-- `unicode_repr`'s choice of the quote character -/
def quoteFor (s : List Char) : Char :=
  if s.contains '\'' && !s.contains '"' then '"' else '\''

/-- the escaped characters followed by the closing quote -/
def escBody (printable : Char → Bool) (q : Char) : List Char → List Char
  | [] => [q]
  | c :: cs => escapeChar printable q c ++ escBody printable q cs

def reprString (printable : Char → Bool) (s : List Char) : List Char :=
  quoteFor s :: escBody printable (quoteFor s) s

/-- `repr(int)`: decimal digits, `-` for negative numbers -/
def reprInt : Int → List Char
  | .ofNat n => Nat.toDigits 10 n
  | .negSucc n => '-' :: Nat.toDigits 10 (n + 1)

mutual
  /-- `repr(x)` -/
  def reprPV (printable : Char → Bool) : PyVal → List Char
    | .none => ['N', 'o', 'n', 'e']
    | .bool true => ['T', 'r', 'u', 'e']
    | .bool false => ['F', 'a', 'l', 's', 'e']
    | .int i => reprInt i
    | .float r => r.toList
    | .str s => reprString printable s.toList
    | .list xs => '[' :: reprElems printable xs
    | .dict kvs => '{' :: reprItems printable kvs
  /-- the elements of a list display and the closing bracket -/
  def reprElems (printable : Char → Bool) : List PyVal → List Char
    | [] => [']']
    | x :: xs => reprPV printable x ++ reprElemsTail printable xs
  def reprElemsTail (printable : Char → Bool) : List PyVal → List Char
    | [] => [']']
    | x :: xs => ',' :: ' ' :: (reprPV printable x ++ reprElemsTail printable xs)
  /-- the items of a dict display and the closing brace -/
  def reprItems (printable : Char → Bool) : List (String × PyVal) → List Char
    | [] => ['}']
    | (k, v) :: rest => reprString printable k.toList ++ ':' :: ' ' :: (reprPV printable v ++ reprItemsTail printable rest)
  def reprItemsTail (printable : Char → Bool) : List (String × PyVal) → List Char
    | [] => ['}']
    | (k, v) :: rest =>
        ',' :: ' ' :: (reprString printable k.toList ++ ':' :: ' ' :: (reprPV printable v ++ reprItemsTail printable rest))
end

/-! ### the installed interpreter's `str.isprintable` for one code point -/

def inRanges (n : Nat) : List (Nat × Nat) → Bool
  | [] => false
  | (lo, hi) :: rest => (lo ≤ n && n ≤ hi) || inRanges n rest

/-- `Py_UNICODE_ISPRINTABLE(c)` for `c ≥ 0x80` (only consulted there) -/
def pyPrintable (c : Char) : Bool := !(inRanges c.toNat PyUnicode.nonPrintableRanges)

/-- the text `ast.unparse` writes for `ast.Constant(value=v)` -/
def pyRepr (v : PyVal) : String := String.ofList (reprPV pyPrintable v)

/-! ### what the `repr` of a finite float looks like -/

/-- characters of a bare word / number token -/
def atomChar (c : Char) : Bool := c.isAlphanum || c = '.' || c = '+' || c = '-' || c = '_'

def expDigits : List Char → Bool
  | [] => true
  | c :: cs => c.isDigit && expDigits cs

def expDigits1 : List Char → Bool
  | [] => false
  | c :: cs => c.isDigit && expDigits cs

def expSign : List Char → Bool
  | [] => false
  | c :: cs => if c = '+' ∨ c = '-' then expDigits1 cs else c.isDigit && expDigits cs

/-- after `digits.`: `digits*` then an optional exponent -/
def afterDot : List Char → Bool
  | [] => true
  | c :: cs => if c.isDigit then afterDot cs else if c = 'e' then expSign cs else false

/-- after at least one digit: more digits, then a fraction or an exponent (a plain integer is no float) -/
def afterInt : List Char → Bool
  | [] => false
  | c :: cs => if c.isDigit then afterInt cs else if c = '.' then afterDot cs else if c = 'e' then expSign cs else false

/-- `digits+ ( '.' digits* )? ( 'e' [+-]? digits+ )?` with a fraction or an exponent -/
def floatTok : List Char → Bool
  | [] => false
  | c :: cs => c.isDigit && afterInt cs

def stripMinus : List Char → List Char
  | '-' :: cs => cs
  | cs => cs

/-- the text is the `repr` of a finite float -/
def floatText (r : String) : Bool := floatTok (stripMinus r.toList)

end Ariadne.PyRepr
