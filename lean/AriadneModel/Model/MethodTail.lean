/-
  Model of the TAIL of a generated client method (client_generators/client.py:
  `_generate_method` / `_generate_async_method` -> `_generate_operation_str_assign`,
  `_generate_variables_assign`, `_generate_response_assign` / `_generate_async_response_assign`,
  `_generate_data_retrieval`, `_generate_return_parsed_obj`; for subscriptions
  `_generate_subscription_method_def` -> `_generate_async_generator_loop`, `_generate_yield_parsed_obj`)
  over the local names `get_variable_names` chose (Model/ClientMethod.lean):

      def <name>(self, <params…>, **kwargs) -> <Ret>:
          L.query = gql(<operation string>)
          L.variables: Dict[str, object] = {…}
          L.response = [await] self.execute(query=L.query, operation_name=…, variables=L.variables, **kwargs)
          L.data = self.get_data(L.response)
          return <Ret>.model_validate(L.data)

      async def <name>(self, <params…>, **kwargs) -> AsyncIterator[<Ret>]:
          L.query = …; L.variables = …
          async for L.data in self.execute_ws(query=L.query, …, variables=L.variables, **kwargs):
              yield <Ret>.model_validate(L.data)

  `emit` says WHICH NAME the generator puts in each position; `run` evaluates the statements on an
  environment with Python's name lookup (parameters first bound to the caller's arguments, every
  assignment rebinds or adds a name).  A wrong name in one position (e.g. `model_validate(data)`
  where the local was renamed to `_data`) makes the method validate the CALLER'S ARGUMENT instead
  of the response's data — that is what `MOut.misapplied` records.

  What `self.execute` sends is property C03's subject and not modelled here: `execute` is the
  response it returns.  `get_data` is a parameter (instantiated with Model/GetData.lean),
  `<Ret>.model_validate` is pydantic's (a parameter `validate : J → Option V`, `none` =
  `ValidationError`; the driver instantiates it with Spec/Pyd.lean for one small real class).
  Exceptions raised by the transport inside `execute` are outside the property (it quantifies over
  HTTP responses).

  Core Lean only.
-/
import AriadneModel.Model.ClientMethod
import AriadneModel.Model.GetData

namespace Ariadne.MethodTail
open Ariadne Ariadne.GetData

/-- the names the emitted method body uses, position by position -/
structure Body where
  queryTarget : String        -- `<T> = gql(...)`
  varsTarget : String         -- `<T>: Dict[str, object] = {...}`
  respTarget : String         -- `<T> = [await] self.execute(...)`
  getDataArg : String         -- `self.get_data(<N>)`
  dataTarget : String         -- `<T> = self.get_data(...)`
  validateArg : String        -- `return Ret.model_validate(<N>)`
  deriving Repr, DecidableEq

/-- `_generate_method` / `_generate_async_method` over `get_variable_names(arguments)`;
    `params` = the python parameter names after `self`, in order (without `**kwargs`) -/
def emit (params : List String) : Body :=
  let L := ClientMethod.getVariableNames (ClientMethod.selfName :: params)
  { queryTarget := L.query, varsTarget := L.variables, respTarget := L.response, getDataArg := L.response,
    dataTarget := L.data, validateArg := L.data }

/-- the subscription method: loop target and yield argument -/
structure SubBody where
  queryTarget : String
  varsTarget : String
  loopTarget : String         -- `async for <T> in self.execute_ws(...)`
  yieldArg : String           -- `yield Ret.model_validate(<N>)`
  deriving Repr, DecidableEq

def emitSub (params : List String) : SubBody :=
  let L := ClientMethod.getVariableNames (ClientMethod.selfName :: params)
  { queryTarget := L.query, varsTarget := L.variables, loopTarget := L.data, yieldArg := L.data }

/-- run-time values of the names in the method's scope (`R` = the response object) -/
inductive Val (R : Type) where
  | self
  | kwargs
  | arg (param : String)        -- the caller's argument for that parameter (or its `UNSET` default)
  | doc                         -- the result of `gql(<operation string>)`
  | vars                        -- the variables dict built by the method
  | resp (r : R)                -- what `self.execute(...)` returned
  | json (d : J)                -- what `self.get_data(...)` returned / one item of `execute_ws`
  deriving Repr

abbrev Env (R : Type) := List (String × Val R)

def lookup {R : Type} (n : String) : Env R → Option (Val R)
  | [] => none
  | (k, v) :: rest => if k = n then some v else lookup n rest

/-- assignment to a local: rebinding an existing name (a parameter!) or adding a new one -/
def assign {R : Type} (n : String) (v : Val R) : Env R → Env R
  | [] => [(n, v)]
  | (k, w) :: rest => if k = n then (n, v) :: rest else (k, w) :: assign n v rest

/-- the scope on entry: `self`, every parameter bound to the caller's value, `kwargs` -/
def initEnv {R : Type} (params : List String) : Env R :=
  (ClientMethod.selfName, Val.self) :: (params.map fun p => (p, Val.arg p)) ++ [("kwargs", Val.kwargs)]

/-- how a call of the generated method ends -/
inductive MOut (V : Type) where
  | raised (o : Outcome)          -- the exception `get_data` raised, unchanged (`.http` / `.invalid` / `.multi` / `.internal`)
  | validationError               -- pydantic's `ValidationError` out of `model_validate`
  | returned (v : V)
  | nameError                     -- an unbound local was read
  | misapplied (what : String)    -- `get_data` / `model_validate` applied to something other than the response / its data
  deriving Repr

/-- the method body run on the scope `env0` when `self.execute(...)` returns the response `r` -/
def run {R V : Type} (b : Body) (getData : R → Outcome) (validate : J → Option V) (env0 : Env R) (r : R) : MOut V :=
  let env1 := assign b.queryTarget .doc env0
  let env2 := assign b.varsTarget .vars env1
  let env3 := assign b.respTarget (.resp r) env2
  match lookup b.getDataArg env3 with
  | none => .nameError
  | some (.resp r') =>
    match getData r' with
    | .data d =>
      let env4 := assign b.dataTarget (.json d) env3
      match lookup b.validateArg env4 with
      | none => .nameError
      | some (.json d') =>
        match validate d' with
        | some v => .returned v
        | none => .validationError
      | some _ => .misapplied "model_validate"
    | o => .raised o
  | some _ => .misapplied "get_data"

/-- what the property demands of the method, stated without any scope: `get_data`'s outcome,
    then validation of exactly the data it returned -/
def expected {R V : Type} (getData : R → Outcome) (validate : J → Option V) (r : R) : MOut V :=
  match getData r with
  | .data d =>
    match validate d with
    | some v => .returned v
    | none => .validationError
  | o => .raised o

/-! ### subscription method -/

/-- how the stream `execute_ws` produces ends: exhausted, or an exception (C13's subject) -/
inductive StreamEnd where
  | exhausted
  | raised (o : Outcome)
  deriving Repr

inductive SubEnd where
  | completed
  | raised (o : Outcome)          -- the stream's exception, unchanged
  | validationError               -- `model_validate` failed on an item: the generator dies there
  | nameError
  | misapplied (what : String)
  deriving Repr

/-- the `async for` loop: every item is bound to the loop target, the yield argument is read -/
def loop {R V : Type} (b : SubBody) (validate : J → Option V) (fin : StreamEnd) : Env R → List J → List V × SubEnd
  | _, [] => ([], match fin with | .exhausted => .completed | .raised o => .raised o)
  | env, d :: ds =>
    let env' := assign b.loopTarget (.json d) env
    match lookup b.yieldArg env' with
    | none => ([], .nameError)
    | some (.json d') =>
      match validate d' with
      | some v => let (vs, e) := loop b validate fin env' ds; (v :: vs, e)
      | none => ([], .validationError)
    | some _ => ([], .misapplied "model_validate")

def runSub {R V : Type} (b : SubBody) (validate : J → Option V) (env0 : Env R) (items : List J) (fin : StreamEnd) :
    List V × SubEnd :=
  let env1 := assign b.queryTarget .doc env0
  let env2 := assign b.varsTarget .vars env1
  loop b validate fin env2 items

/-- the property's reading for a stream: every item validated, in order, up to the first failure -/
def expectedSub {V : Type} (validate : J → Option V) (fin : StreamEnd) : List J → List V × SubEnd
  | [] => ([], match fin with | .exhausted => .completed | .raised o => .raised o)
  | d :: ds =>
    match validate d with
    | some v => let (vs, e) := expectedSub validate fin ds; (v :: vs, e)
    | none => ([], .validationError)

end Ariadne.MethodTail
