/-
  The caller's ARGUMENT OBJECTS across a SEQUENCE of calls (property C03: "every call" includes the
  second call with objects the first call has already seen).

  `Model/ArgSend.lean` is value-level: a call is handed a tree (`AV`).  A caller really hands
  REFERENCES: a list object holding instances of generated input classes (which it may keep, update by
  attribute assignment — `validate_assignment=True` — and pass again), lists inside lists, one
  instance referenced from two lists.  What the second call delivers is right only if the first call
  left every object of the caller as it was.  The only code between the method's parameters and
  `json.dumps` that touches those objects is the base client's (async_base_client.py, base_client.py
  and the two OpenTelemetry variants, textually identical here):

      def _convert_dict_to_json_serializable(self, dict_):
          return {key: self._convert_value(value) for key, value in dict_.items() if value is not UNSET}

      def _convert_value(self, value):
          if isinstance(value, BaseModel):
              return value.model_dump(by_alias=True, exclude_unset=True)     # reads; a NEW tree
          if isinstance(value, list):
              return [self._convert_value(item) for item in value]           # a NEW list object
          return value

  modelled statement by statement on a store of objects (`CStore`; address = position, allocation =
  append): `convertValueC`.  That it never writes an object that existed before the call, and that
  what it returns is the value-level `BaseClient.convertValue` of what the argument denotes, are
  THEOREMS about this code (Proofs/ArgHeap.lean), not the shape of the definitions: the rewrite
  `for index, item in enumerate(value): value[index] = self._convert_value(item)` is `convertValueIP`
  below (same vocabulary), and the example in Properties/C03.lean shows the second call of a two-call
  program sending the first call's snapshot under it.

  (`separate_files` then walks only what `_convert_value` built; its own frame property is C11's,
  Proofs/BaseClientObjects.lean `sepS_spec`.  `model_dump` reading without writing is pydantic's:
  validated by the snapshot comparison of harness/c03.py, not verified.)

  The store describes the caller's objects as they ARE: pydantic validation copies a list handed to a
  constructor (and keeps the instances inside by reference), so the list an instance holds is an object
  of its own, at an address of its own (harness/c03.py observes the real objects by identity).

  A PROGRAM is a list of steps over objects that exist from the start: calls of generated methods
  whose arguments are references or immediate values, and the caller's own statements between them
  (`obj.field = v`, `lst[i] = v`, `lst.append(v)`).  `runC` runs it on the store the base client
  really leaves behind; `runIdeal` hands every call the tree its arguments denote at that moment.

  Core Lean only.
-/
import AriadneModel.Model.ArgSend

namespace Ariadne.ArgHeap
open Ariadne Ariadne.Scalars Ariadne.ArgValues Ariadne.ArgSend Ariadne.Arguments
open Ariadne.BaseClient (PV convertValue convertList)

/-- what a parameter, a list item or an attribute IS: a reference to a list / instance object of the
    store, or an immediate value (None, UNSET, bool, number, str, enum member, custom-scalar value —
    or a tree nobody else holds) -/
inductive CVal where
  | ref (a : Nat)
  | imm (v : AV)
  deriving Inhabited

/-- what `_convert_value` returns -/
inductive PVal where
  | ref (a : Nat)
  | imm (v : PV)
  deriving Inhabited

inductive CObj where
  | list (xs : List CVal)                                   -- a list object of the caller
  | inst (cls : String) (fields : List (FieldKey × CVal))   -- an instance of a generated input class (unset field: `imm .unset`)
  | plist (xs : List PVal)                                  -- a list object built by `_convert_value`
  deriving Inhabited

abbrev CStore := List CObj

/-! ### reading: the tree a value denotes -/

def derefItems (f : CVal → Option AV) : List CVal → Option (List AV)
  | [] => some []
  | x :: xs => match f x, derefItems f xs with
    | some v, some vs => some (v :: vs)
    | _, _ => none

def derefFlds (f : CVal → Option AV) : List (FieldKey × CVal) → Option (List (FieldKey × AV))
  | [] => some []
  | (k, x) :: rest => match f x, derefFlds f rest with
    | some v, some vs => some ((k, v) :: vs)
    | _, _ => none

/-- the tree below a caller value, following at most `fuel` references on any branch (`none`: a
    dangling reference, a reference to a client-built list, or a structure deeper than that) -/
def derefC (s : CStore) : Nat → CVal → Option AV
  | _, .imm v => some v
  | 0, .ref _ => none
  | f + 1, .ref a =>
    match s[a]? with
    | some (.list xs) => (derefItems (derefC s f) xs).map AV.list
    | some (.inst cls fs) => (derefFlds (derefC s f) fs).map (AV.model cls)
    | _ => none

def derefPItems (f : PVal → Option PV) : List PVal → Option (List PV)
  | [] => some []
  | x :: xs => match f x, derefPItems f xs with
    | some v, some vs => some (v :: vs)
    | _, _ => none

/-- the tree `json.dumps` would walk below a converted value -/
def derefP (s : CStore) : Nat → PVal → Option PV
  | _, .imm v => some v
  | 0, .ref _ => none
  | f + 1, .ref a =>
    match s[a]? with
    | some (.plist xs) => (derefPItems (derefP s f) xs).map PV.list
    | _ => none

/-! ### `_convert_value` on objects -/

/-- `[self._convert_value(item) for item in value]` -/
def convertItemsC (rec : CVal → CStore → Option (PVal × CStore)) : List CVal → CStore → Option (List PVal × CStore)
  | [], s => some ([], s)
  | x :: xs, s =>
    match rec x s with
    | none => none
    | some (y, s1) =>
      match convertItemsC rec xs s1 with
      | none => none
      | some (ys, s2) => some (y :: ys, s2)

/-- an immediate value: the value-level conversion of the Python object it is -/
def convertImm (fns : UserFns) (v : AV) : Option PV :=
  match objOf fns v with
  | .ok (o, _) => some (convertValue o)
  | .error _ => none

/-- `_convert_value`: an instance is dumped (pydantic reads the tree below it and returns a new one),
    a list is REBUILT (a new list object holding the converted items), anything else is returned as
    it is.  `none`: a dangling reference, fuel exhausted, or the dump raised. -/
def convertValueC (fns : UserFns) : Nat → CVal → CStore → Option (PVal × CStore)
  | _, .imm v, s => (convertImm fns v).map fun p => (.imm p, s)
  | 0, .ref _, _ => none
  | f + 1, .ref a, s =>
    match s[a]? with
    | some (.list xs) =>
      match convertItemsC (convertValueC fns f) xs s with
      | none => none
      | some (ys, s1) => some (.ref s1.length, s1 ++ [.plist ys])
    | some (.inst _ fs) =>
      match derefFlds (derefC s f) fs with
      | none => none
      | some flds =>
        match PydLog.dumpFields fns flds with
        | .ok (kvs, _) => some (.imm (.dict kvs), s)
        | .error _ => none
    | _ => none

/-- the values of the `variables` dict that are the caller's own objects, pushed through
    `_convert_dict_to_json_serializable` one after the other -/
def convertArgsC (fns : UserFns) (fuel : Nat) (args : List CVal) (s : CStore) : Option (List PVal × CStore) :=
  convertItemsC (convertValueC fns fuel) args s

/-! ### the write-where-you-walk variant (NOT the code; the counter-model of the frame theorem) -/

/-- a converted item put back into a caller list: a dumped instance is a plain dict from now on — as a
    caller value, a leaf that `json.dumps` writes as that dict -/
def putBack : PVal → CVal
  | .ref b => .ref b
  | .imm p => .imm (.custom "$dumped" ((BaseClient.toJson p).getD .null))

/-- `for index, item in enumerate(value): value[index] = self._convert_value(item)` then `return value`
    (the items of one list do not read each other, so converting them all and then storing them is the
    same as storing them one by one) -/
def convertValueIP (fns : UserFns) (fuel : Nat) : CVal → CStore → Option (PVal × CStore)
  | .ref a, s =>
    match s[a]? with
    | some (.list xs) =>
      match convertItemsC (convertValueC fns fuel) xs s with
      | some (ys, s1) => some (.ref a, s1.set a (.list (ys.map putBack)))
      | none => none
    | _ => convertValueC fns (fuel + 1) (.ref a) s
  | v, s => convertValueC fns (fuel + 1) v s

/-! ### programs -/

/-- one call `client.<method>(**args)`: the operation and, aligned with its variable definitions, the
    argument values (an omitted argument is `imm .unset`) -/
structure CallStep where
  opName : String
  opText : String
  defs : List VarDecl
  args : List CVal

inductive Step where
  | call (c : CallStep)
  | setField (a i : Nat) (v : CVal)          -- `obj.<i-th field> = v` (validate_assignment: the field is SET from now on)
  | setItem (a i : Nat) (v : CVal)           -- `lst[i] = v`
  | append (a : Nat) (v : CVal)              -- `lst.append(v)`

def setNth {α} (xs : List (FieldKey × α)) (i : Nat) (v : α) : List (FieldKey × α) :=
  match xs[i]? with
  | some (k, _) => xs.set i (k, v)
  | none => xs

/-- `store[a] = g(store[a])` where `g` applies -/
def updAt (a : Nat) (g : CObj → Option CObj) (s : CStore) : CStore :=
  match s[a]? with
  | some o =>
    match g o with
    | some o' => s.set a o'
    | none => s
  | none => s

/-- the object a caller statement writes, and how -/
def stepUpd : Step → Option (Nat × (CObj → Option CObj))
  | .call _ => none
  | .setField a i v => some (a, fun o => match o with | .inst cls fs => some (.inst cls (setNth fs i v)) | _ => none)
  | .setItem a i v => some (a, fun o => match o with | .list xs => some (.list (xs.set i v)) | _ => none)
  | .append a v => some (a, fun o => match o with | .list xs => some (.list (xs ++ [v])) | _ => none)

/-- the caller's own statements (a call is not one of them) -/
def applyCaller (st : Step) (s : CStore) : CStore :=
  match stepUpd st with
  | some (a, g) => updAt a g s
  | none => s

def derefArgs (s : CStore) (fuel : Nat) (args : List CVal) : Option (List AV) := derefItems (derefC s fuel) args

/-- what a call sends: the value-level `send` of what its arguments denote NOW (justified for the
    base-client part by `convertValueC_denotes`); `none`: an argument denotes nothing -/
def requestOf (env : Arguments.Env) (fns : UserFns) (async : Bool) (fuel : Nat) (s : CStore) (c : CallStep) :
    Option (Except SendErr Request) :=
  (derefArgs s fuel c.args).map fun avs => send env fns async c.opName c.opText c.defs avs

/-- the store a call leaves behind: every given argument went through `_convert_value`
    (`conv` = the code of the base client; a dump that raised leaves what was built so far, which
    nobody references) -/
def storeAfter (conv : CVal → CStore → Option (PVal × CStore)) (c : CallStep) (s : CStore) : CStore :=
  match convertItemsC conv c.args s with
  | some (_, s') => s'
  | none => s

/-- run a program; the requests of its calls, in order -/
def runWith (conv : CVal → CStore → Option (PVal × CStore)) (env : Arguments.Env) (fns : UserFns) (async : Bool) (fuel : Nat) :
    CStore → List Step → List (Option (Except SendErr Request))
  | _, [] => []
  | s, .call c :: rest => requestOf env fns async fuel s c :: runWith conv env fns async fuel (storeAfter conv c s) rest
  | s, st :: rest => runWith conv env fns async fuel (applyCaller st s) rest

/-- the store after the whole program -/
def storeWith (conv : CVal → CStore → Option (PVal × CStore)) : CStore → List Step → CStore
  | s, [] => s
  | s, .call c :: rest => storeWith conv (storeAfter conv c s) rest
  | s, st :: rest => storeWith conv (applyCaller st s) rest

/-- the caller's statements alone -/
def callerStore (s : CStore) (steps : List Step) : CStore := storeWith (fun _ s => some (.imm .none, s)) s steps

/-- … on the store the base client of /repo leaves behind -/
def runC (env : Arguments.Env) (fns : UserFns) (async : Bool) (fuel : Nat) :=
  runWith (convertValueC fns fuel) env fns async fuel

/-- … when a call touches nothing: every call sees exactly what the caller's statements made -/
def runIdeal (env : Arguments.Env) (fns : UserFns) (async : Bool) (fuel : Nat) :=
  runWith (fun _ s => some (.imm .none, s)) env fns async fuel

end Ariadne.ArgHeap
