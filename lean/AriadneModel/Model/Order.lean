/-
  Model/Order.lean — every place of ariadne-codegen where an UNORDERED collection (Python `set`,
  dict-of-sets, a directory listing) feeds the ORDER of something emitted (property C10; the
  fragments topological sort is also used by C08).

  Core Lean only (the C10 driver links this file).

  Python `set` iteration is an *enumeration oracle* `e : List Name → List Name` about which only
  `(e s).Perm s` is known (`EnumOK`).  A set is represented by some listing of its elements; the code
  under model may only look at `e listing`.  The compiled driver instantiates `e := id` on listings that
  the harness recorded from the real interpreter (the order CPython really used in that process).

  Modelled source (quoted next to each definition):
    client_generators/fragments.py   FragmentsGenerator.generate, _get_sorted_class_defs,
                                     _get_sorted_fragments_names, _get_model_rebuild_calls
    client_generators/result_types.py  _add_enums_scalars_fragments_imports (the `from .fragments import`)
    client_generators/package.py     generate (write order, sorted file list), _generate_fragments guard,
                                     _generate_enums (filter by `_used_enums`), init imports / __all__
    client_generators/init_file.py   InitFileGenerator.add_import / generate
    client_generators/enums.py       EnumsGenerator._filter_class_defs
    contrib/client_forward_refs.py   _add_forward_ref_imports
    contrib/shorter_results.py       generate_client_module (extended_imports)
    schema.py                        load_graphql_files_from_path, walk_graphql_files
-/
namespace Ariadne.Order

abbrev Name := String

/-- enumeration oracle: the order in which CPython iterates a set whose elements are listed by the argument -/
abbrev EnumOracle := List Name → List Name

def EnumOK (e : EnumOracle) : Prop := ∀ s, (e s).Perm s

/-! ### Python `sorted` (stable) -/

/-- insert before the first element that is not smaller (so equal keys keep their input order) -/
def insertBy {α : Type} (le : α → α → Bool) (x : α) : List α → List α
  | [] => [x]
  | y :: ys => if le x y then x :: y :: ys else y :: insertBy le x ys

/-- stable insertion sort: `sorted(xs, key=...)` where `le a b` is `key a <= key b` -/
def sortBy {α : Type} (le : α → α → Bool) (xs : List α) : List α := xs.foldr (insertBy le) []

def strLe (a b : Name) : Bool := decide (a ≤ b)

/-- Python's comparison of two lists (`a <= b`): the first differing position decides, a proper
    prefix is smaller.  Used for `Path` components and for isort's natural keys. -/
def lexLe {α : Type} [DecidableEq α] (le : α → α → Bool) : List α → List α → Bool
  | [], _ => true
  | _ :: _, [] => false
  | a :: as, b :: bs => if a = b then lexLe le as bs else le a b

/-- `sorted(xs)` on `str` (code-point order) -/
def pySorted (xs : List Name) : List Name := sortBy strLe xs

/-- Python exceptions that can escape the modelled functions -/
inductive Err where
  | keyError (k : Name)       -- dict[k] on a missing key
  | valueError (k : Name)     -- list.index(k) on a missing element
  | isADirectory (p : List Name) -- open() on a directory whose name ends in .graphql
  | fuel                      -- model artefact only (never reached: `Properties/C10.sorted_no_fuel`)
  deriving DecidableEq, Repr

deriving instance DecidableEq for Except

def lookup {β : Type} (d : List (Name × β)) (n : Name) : Option β :=
  match d with
  | [] => none
  | (k, v) :: rest => if k = n then some v else lookup rest n

/-! ### fragments.py — `_get_sorted_fragments_names`

```python
sorted_names: List[str] = []
visited: Set[str] = set()
def visit(name):
    if name in visited:
        return
    visited.add(name)
    for dep in sorted(dependencies_dict[name]):      # before fix 0834f0f: `for dep in dependencies_dict[name]:`
        visit(dep)
    sorted_names.append(name)
for name in sorted(fragments_names):
    visit(name)
return sorted_names
```
-/

abbrev Deps := List (Name × List Name)   -- dependencies_dict: name ↦ (a listing of) the set of its mixin fragments

structure St where
  visited : List Name
  out : List Name
  deriving Repr, DecidableEq

/-- `visit`, with `ord` = how the dependency set of one fragment is turned into an iteration order
    (`fun s => pySorted (e s)` today, `e` before the fix).  Fuel bounds the recursion depth. -/
def visit (ord : List Name → List Name) (d : Deps) : Nat → Name → St → Except Err St
  | 0, n, st => if n ∈ st.visited then pure st else .error .fuel
  | fuel + 1, n, st =>
    if n ∈ st.visited then pure st
    else match lookup d n with
      | none => .error (.keyError n)
      | some ds => do
        let st' ← (ord ds).foldlM (fun s x => visit ord d fuel x s) { st with visited := n :: st.visited }
        pure { st' with out := st'.out ++ [n] }

def dfs (ord : List Name → List Name) (d : Deps) (roots : List Name) : Except Err (List Name) :=
  (roots.foldlM (fun s x => visit ord d (d.length + 1) x s) ⟨[], []⟩).map (·.out)

/-- the code as it is now -/
def sortedFragmentsNames (e : EnumOracle) (names : List Name) (d : Deps) : Except Err (List Name) :=
  dfs (fun s => pySorted (e s)) d (pySorted (e names))

/-- the code before commit 0834f0f (regression witness of finding C10-F1) -/
def sortedFragmentsNamesPreFix (e : EnumOracle) (names : List Name) (d : Deps) : Except Err (List Name) :=
  dfs e d (pySorted (e names))

/-! ### fragments.py — `_get_model_rebuild_calls`

```python
class_names = [c.name for c in class_defs]
sorted_fragments_names = sorted(top_level_fragments_names, key=class_names.index)
```
-/
def rebuildCalls (top : List Name) (classNames : List Name) : Except Err (List Name) :=
  match top.find? (fun t => !classNames.contains t) with
  | some t => .error (.valueError t)
  | none => .ok (sortBy (fun a b => decide (classNames.idxOf a ≤ classNames.idxOf b)) top)

/-! ### fragments.py — `generate` -/

structure ImportFrom where
  level : Nat
  module : String
  names : List Name
  deriving DecidableEq, Repr

/-- what one `ResultTypesGenerator` (a deterministic function of schema + one definition) hands over -/
structure DefGen where
  classes : List Name            -- get_classes(): class names, first = top level; [] when the fragment is unpacked
  imports : List ImportFrom      -- get_imports()
  publicNames : List Name        -- get_generated_public_names()
  usedEnums : List Name          -- get_used_enums()
  mixins : List Name             -- get_fragments_used_as_mixins(): a SET (listing)
  deriving Repr, DecidableEq, Inhabited

/-- the module handed to `ast_to_str` (before autoflake / isort / black) -/
structure RawModule where
  imports : List ImportFrom
  classes : List Name
  rebuilds : List Name
  deriving Repr, DecidableEq

structure FragOut where
  module : RawModule
  publicNames : List Name
  usedEnums : List Name
  deriving Repr, DecidableEq

/--
```python
self._fragments_names = self._fragments_names - names_to_exclude
for name in self._fragments_names:
    generator = ResultTypesGenerator(... self.fragments_definitions[name] ...)
    imports.extend(generator.get_imports())
    class_defs = generator.get_classes(); class_defs_dict[name] = class_defs
    if class_defs: top_level_class_names.append(class_defs[0].name)
    dependencies_dict[name] = generator.get_fragments_used_as_mixins()
    self._generated_public_names.extend(...); self._used_enums.extend(...)
sorted_class_defs = [c for name in _get_sorted_fragments_names(...) for c in class_defs_dict[name]]
module = imports + sorted_class_defs + _get_model_rebuild_calls(top_level_class_names, sorted_class_defs)
```
`defs` is the dict `fragments_definitions` paired with what its generator yields. -/
def fragGens (defs : List (Name × DefGen)) (names : List Name) : Except Err (List (Name × DefGen)) :=
  names.mapM (fun n => match lookup defs n with
    | some g => .ok (n, g)                    -- self.fragments_definitions[name] + its ResultTypesGenerator
    | none => .error (.keyError n))

/-- `class_defs_dict[name]` -/
def classesOf (gens : List (Name × DefGen)) (n : Name) : Except Err (List Name) :=
  match lookup gens n with
  | some g => .ok g.classes
  | none => .error (.keyError n)

/-- everything after the loop, given the generators in loop order -/
def generateFromGens (e : EnumOracle) (names : List Name) (gens : List (Name × DefGen)) : Except Err FragOut := do
  let deps : Deps := gens.map (fun p => (p.1, p.2.mixins))
  let sortedNames ← sortedFragmentsNames e names deps
  let classes ← sortedNames.mapM (classesOf gens)
  let top := gens.filterMap (fun p => p.2.classes.head?)
  let rebuilds ← rebuildCalls top classes.flatten
  pure { module := { imports := gens.flatMap (·.2.imports), classes := classes.flatten, rebuilds := rebuilds },
         publicNames := gens.flatMap (·.2.publicNames),
         usedEnums := gens.flatMap (·.2.usedEnums) }

def generateFragments (e : EnumOracle) (defs : List (Name × DefGen)) (exclude : List Name) : Except Err FragOut := do
  let names := e ((defs.map (·.1)).filter (fun n => !exclude.contains n))   -- iteration order of the set difference
  let gens ← fragGens defs names
  generateFromGens e names gens

/-! ### result_types.py — the `from .fragments import …` of an operation module

```python
if isinstance(self.operation_definition, OperationDefinitionNode) and self._fragments_used_as_mixins and self.fragments_module_name:
    self._imports.append(generate_import_from([str_to_pascal_case(f) for f in self._fragments_used_as_mixins], self.fragments_module_name, 1))
```
-/
def opImports (e : EnumOracle) (pascal : Name → Name) (fragmentsModule : String) (g : DefGen) : List ImportFrom :=
  if g.mixins.isEmpty then g.imports
  else g.imports ++ [⟨1, fragmentsModule, (e g.mixins).map pascal⟩]

/-! ### contrib/client_forward_refs.py — `_add_forward_ref_imports`

```python
type_checking_imports = {}
for cls in self.input_and_return_types:                      # a set
    module_name = self.imported_classes[cls]
    if module_name not in type_checking_imports:
        type_checking_imports[module_name] = ast.ImportFrom(module=module_name, names=[], level=0)
    type_checking_imports[module_name].names.append(ast.alias(cls))
body=list(type_checking_imports.values())
```
-/
def addToGroup (m : String) (c : Name) : List ImportFrom → List ImportFrom
  | [] => [⟨0, m, [c]⟩]
  | g :: gs => if g.module = m then { g with names := g.names ++ [c] } :: gs else g :: addToGroup m c gs

def fwdStep (importedClasses : List (Name × String)) (acc : List ImportFrom) (c : Name) : Except Err (List ImportFrom) :=
  match lookup importedClasses c with
  | some m => .ok (addToGroup m c acc)
  | none => .error (.keyError c)

def forwardRefImports (e : EnumOracle) (types : List Name) (importedClasses : List (Name × String)) :
    Except Err (List ImportFrom) :=
  (e types).foldlM (fwdStep importedClasses) []

/-! ### contrib/shorter_results.py — `generate_client_module`

```python
for stmt in module.body:
    if not isinstance(stmt, ast.ImportFrom): continue
    if stmt.module not in self.extended_imports: continue
    for additional_import in self.extended_imports[stmt.module]:        # a set
        stmt.names.append(ast.alias(name=additional_import))
    self.extended_imports.pop(stmt.module, None)
for import_from, alias in self.extended_imports.items():
    module.body.insert(0, generate_import_from(names=list(alias), from_=import_from))
```
`ext` is the dict (insertion order) module ↦ set listing. -/
def extGo (e : EnumOracle) : List ImportFrom → List (String × List Name) → List ImportFrom × List (String × List Name)
  | [], ext => ([], ext)
  | s :: rest, ext =>
    match lookup ext s.module with
    | some add =>
      let r := extGo e rest (ext.filter (fun p => p.1 != s.module))     -- `pop`
      ({ s with names := s.names ++ e add } :: r.1, r.2)
    | none =>
      let r := extGo e rest ext
      (s :: r.1, r.2)

def extendImports (e : EnumOracle) (stmts : List ImportFrom) (ext : List (String × List Name)) : List ImportFrom :=
  let r := extGo e stmts ext
  -- every remaining entry is inserted at position 0, one after the other: the last ends up first
  (r.2.reverse.map (fun p => (⟨0, p.1, e p.2⟩ : ImportFrom))) ++ r.1

/-! ### enums.py — `_filter_class_defs(types_to_include)` : schema order, membership only

```python
if types_to_include is None: return self._class_defs
return [class_def for class_def in self._class_defs if class_def.name in types_to_include]
```
-/
def filterEnums (schemaEnums : List Name) (used : Option (List Name)) : List Name :=
  match used with
  | none => schemaEnums
  | some u => schemaEnums.filter (fun n => u.contains n)

/-! ### init_file.py -/

/-- `add_import`: empty name lists are skipped -/
def initAdd (imports : List ImportFrom) (names : List Name) (from_ : String) : List ImportFrom :=
  if names.isEmpty then imports else imports ++ [⟨1, from_, names⟩]

/-- `generate`: imports followed by `__all__ = sorted(all names)` -/
def initAll (imports : List ImportFrom) : List Name := pySorted (imports.flatMap (·.names))

/-! ### package.py — what `add_operation` / `generate` hand to the formatter, as far as sets are involved

```python
def add_operation(self, definition):
    query_types_generator = ResultTypesGenerator(...)
    self._unpacked_fragments = self._unpacked_fragments.union(query_types_generator.get_unpacked_fragments())
    self._used_enums.extend(query_types_generator.get_used_enums())
    self._result_types_files[file_name] = query_types_generator.generate()
def _generate_fragments(self):
    if not set(self.fragments_definitions.keys()).difference(self._unpacked_fragments): return
    module = self.fragments_generator.generate(exclude_names=self._unpacked_fragments)
    ...
    self._used_enums.extend(self.fragments_generator.get_used_enums())
    self.init_generator.add_import(self.fragments_generator.get_generated_public_names(), self.fragments_module_name, 1)
def _generate_enums(self):
    module = self.enums_generator.generate() if self.include_all_enums else self.enums_generator.generate(types_to_include=self._used_enums)
```
-/

structure OpIn where
  module : Name            -- the operation's module (`<module>.py`)
  gen : DefGen             -- its ResultTypesGenerator: `imports` WITHOUT the fragments import, `mixins` = the set
  unpacked : List Name     -- get_unpacked_fragments(): a set
  deriving Repr

structure PkgIn where
  defs : List (Name × DefGen)     -- fragments_definitions ↦ the generator `FragmentsGenerator.generate` builds
  ops : List OpIn                 -- add_operation calls, document order
  pascal : Name → Name            -- str_to_pascal_case
  fragmentsModule : String
  schemaEnums : List Name         -- enum classes in schema order
  includeAllEnums : Bool
  otherUsedEnums : List Name      -- `_used_enums` contributions of input types, operations, client arguments (lists)
  initBefore : List ImportFrom    -- init imports added before `_generate_fragments` runs
  initAfter : List ImportFrom     -- … and after it

/-- modules before formatting -/
structure PkgRaw where
  opModules : List (Name × List ImportFrom)
  fragments : Option FragOut
  enums : List Name
  init : List ImportFrom
  deriving Repr

/-- `_generate_fragments`: nothing when every fragment was unpacked, else `FragmentsGenerator.generate` -/
def packageFrag (e : EnumOracle) (x : PkgIn) : Except Err (Option FragOut) :=
  let unpacked := e (x.ops.flatMap (·.unpacked))                  -- the union of the sets, as a set
  let live := (x.defs.map (·.1)).filter (fun n => !unpacked.contains n)
  if live.isEmpty then .ok none else (generateFragments e x.defs unpacked).map some

def packageRawOf (e : EnumOracle) (x : PkgIn) (frag : Option FragOut) : PkgRaw :=
  let fragEnums := match frag with | some o => o.usedEnums | none => []
  let fragPublic := match frag with | some o => o.publicNames | none => []
  { opModules := x.ops.map (fun o => (o.module, opImports e x.pascal x.fragmentsModule o.gen)),
    fragments := frag,
    enums := filterEnums x.schemaEnums (if x.includeAllEnums then none else some (x.otherUsedEnums ++ fragEnums)),
    init := initAdd x.initBefore fragPublic x.fragmentsModule ++ x.initAfter }

def packageRaw (e : EnumOracle) (x : PkgIn) : Except Err PkgRaw :=
  (packageFrag e x).map (packageRawOf e x)

/-! ### schema.py — loading a directory of .graphql files

```python
def load_graphql_files_from_path(path):
    if path.is_dir():
        schema_list = [read_graphql_file(f) for f in sorted(walk_graphql_files(path))]
        return "\n".join(schema_list)
def walk_graphql_files(path):
    extensions = (".graphql", ".graphqls", ".gql")
    for file_ in path.glob("**/*"):
        if file_.suffix in extensions: yield file_
```
`Path.__lt__` compares the lists of path components. -/

abbrev PathParts := List Name

structure Entry where
  path : PathParts      -- components relative to the directory given in the configuration
  isDir : Bool
  content : String
  deriving Repr, DecidableEq

/-- `PurePath.suffix`: `i = name.rfind('.')`; `name[i:]` if `0 < i < len(name) - 1` else `''` -/
def pySuffix (name : String) : String :=
  let cs := name.toList
  let rec lastDot (i : Nat) (best : Option Nat) : List Char → Option Nat
    | [] => best
    | c :: rest => lastDot (i + 1) (if c = '.' then some i else best) rest
  match lastDot 0 none cs with
  | some i => if 0 < i ∧ i < cs.length - 1 then String.ofList (cs.drop i) else ""
  | none => ""

def isGraphqlFile (en : Entry) : Bool :=
  match en.path.getLast? with
  | some nm => [".graphql", ".graphqls", ".gql"].contains (pySuffix nm)
  | none => false

def pathLe (a b : Entry) : Bool := lexLe strLe a.path b.path

/-- `dirList` = the order in which `Path.glob("**/*")` happens to yield the entries (file-system dependent) -/
def loadGraphqlFiles (dirList : List Entry → List Entry) (entries : List Entry) : Except Err String := do
  let files := sortBy pathLe ((dirList entries).filter isGraphqlFile)
  let texts ← files.mapM (fun en => if en.isDir then .error (.isADirectory en.path) else .ok en.content)
  pure ("\n".intercalate texts)

/-! ### package.py — the write log of `PackageGenerator.generate` (nothing is ever read back)

`generate` only calls `Path.write_text` (and `mkdir` when the directory is missing); the files written,
in write order, and the printed list `sorted(self._generated_files)`. -/

structure WriteLog where
  written : List (Name × String)     -- (file name, bytes) in write order
  printed : List Name
  deriving Repr, DecidableEq

/-- the state of the target directory: file name ↦ bytes -/
abbrev Dir := Name → Option String

/-- `Path.write_text`: create or truncate -/
def writeFile (dir : Dir) (f : Name) (bytes : String) : Dir := fun x => if x = f then some bytes else dir x

def applyLog (dir : Dir) (log : WriteLog) : Dir := log.written.foldl (fun d p => writeFile d p.1 p.2) dir

/-- `texts`: the rendered files in the order `generate` writes them.  The existing directory `_dir`
    is an argument that is never inspected: that IS the content of the model (`package.py` has no
    `read_text`/`exists` on target files other than the `mkdir` guard; audited on every run by
    harness/c10.py `audit_fs`). -/
def packageWrites (texts : List (Name × String)) (_dir : Dir) : WriteLog :=
  { written := texts, printed := pySorted (texts.map (·.1)) }

/-- One run of a generator over the directory `dir`.  `irs` = the files in write order, before
    formatting; `render flag ir` = the formatter pipeline, where `flag i` says whether isort, while
    formatting the i-th file, found the target package in the working directory (the only way the
    pipeline can see the file system: first-party detection, finding C10-F3). -/
def runWrites {α : Type} (render : Bool → α → String) (irs : List (Name × α)) (flag : Nat → Bool) (dir : Dir) : WriteLog :=
  packageWrites (irs.mapIdx (fun i p => (p.1, render (flag i) p.2))) dir

end Ariadne.Order
