/-
  The caller-owned ARGUMENT OBJECTS of `execute` as explicit state (core Lean only; the C11 driver links it).

  `execute(query, operation_name, variables, **kwargs)` receives *references*: the `variables` dict, the
  dict passed as `headers=`, the Upload objects.  A caller may hand the same objects to several calls
  (one headers dict with the auth token for every call; one variables dict for a retry; one Upload
  referenced from two mutations), on one client or on several of the four bundled clients.  "Calls do
  not affect each other" therefore has a second frame besides the client object: whatever `execute`
  is given must be the same afterwards.  `Model/BaseClient.lean` is value-level (a `Call` carries the
  *contents* of the dicts); here the dicts live in a `Heap`, a call (`HCall`) names them by address,
  and `executeH` returns the heap after the call.

  Where Python really works by reference — `_execute_json` —

      headers: Dict[str, str] = {"Content-Type": "application/json"}     # a NEW dict object
      headers.update(kwargs.get("headers", {}))                          # READS the caller's dict (or a new {})
      merged_kwargs: Dict[str, Any] = kwargs.copy()                      # `kwargs` is this frame's own ** dict
      merged_kwargs["headers"] = headers
      return self.http_client.post(url=self.url, content=json.dumps({...}), **merged_kwargs)

  the model is reference-level too: `mergeHeadersS` runs these statements on a store of dict objects
  (allocation = append, `update` = write at an address) and `executeJsonH` hands the caller the store
  restricted to the addresses that existed before the call.  That no pre-existing address is written
  is a THEOREM about this code (`Proofs/BaseClientHeap.lean`), not the shape of the definition: the
  rewrite `headers = kwargs.get("headers", {}); headers.setdefault("Content-Type", …)` would be
  `setdefaultAt a …` on the caller's address and falsify it.

  `_execute_multipart` passes `**kwargs` through: httpx receives the caller's headers object itself
  (httpx copies it into its own `Headers`; third-party, observed by the harness on the real object).

  The variables side builds only new containers (`_convert_dict_to_json_serializable`: dict
  comprehension, `_convert_value`: list comprehension / `model_dump`, `separate_files`: list and dict
  comprehensions, `files_list`/`files_map` locals); caller containers are read, so it stays the
  value-level `processVariables` applied to the dict found at the address, and the heap's `vars`
  component is returned as it was.  The harness compares a deep snapshot of the real objects taken
  before and after every real call with the heap this model returns.

  That statement about the variables side is itself modelled and proved one level down: Model/BaseClientObjects.lean
  runs `_convert_value` / `separate_files` on a store of list/dict OBJECTS (nested containers by reference,
  any aliasing) and `executeO` there returns the store it was given (Proofs/BaseClientObjects.lean).
-/
import AriadneModel.Model.BaseClient

namespace Ariadne.BaseClient
open Ariadne

abbrev HDict := List (String × String)

/-- dict objects (`Dict[str, str]`), address = position -/
abbrev Store := List HDict

/-- `store[dst].update(store[src])`; both addresses must name objects -/
def updateAt (dst src : Nat) (s : Store) : Option Store :=
  match s[dst]?, s[src]? with
  | some d, some x => some (s.set dst (dictUpdate d x))
  | _, _ => none

/-- The first four statements of `_execute_json` on the store.  `caller` = address of the object
    passed as `headers=` (`none`: keyword absent, `kwargs.get("headers", {})` makes a new `{}`).
    Returns the store afterwards and the address of the dict handed to httpx; `none` only when
    `caller` names no object (not a Python state). -/
def mergeHeadersS (s : Store) (caller : Option Nat) : Option (Store × Nat) :=
  let own := s.length
  let s1 := s ++ [[("Content-Type", "application/json")]]        -- headers = {"Content-Type": …}
  match caller with
  | some a =>
    if a < s.length then (updateAt own a s1).map fun s2 => (s2, own)   -- headers.update(kwargs["headers"])
    else none
  | none => (updateAt own (own + 1) (s1 ++ [[]])).map fun s2 => (s2, own)   -- headers.update({})

/-- Everything a caller can share between calls. -/
structure Heap where
  hdrs : Store                                   -- dicts passed as `headers=`
  vars : List (List (String × PV))               -- dicts passed as `variables` (Uploads inside by identity tag)

/-- A call whose dict arguments are references into a `Heap`. -/
structure HCall where
  query : String
  opName : Option String
  variables : Option Nat                         -- `none` = `variables=None`
  headers : Option Nat                           -- `none` = no `headers=` keyword
  kwargs : List (String × J)

/-- dereference: the value-level call the caller *meant* (contents of the objects at call time) -/
def Heap.call? (h : Heap) (c : HCall) : Option Call :=
  let vs : Option (Option (List (String × PV))) :=
    match c.variables with
    | none => some none
    | some a => (h.vars[a]?).map some
  let hs : Option (Option HDict) :=
    match c.headers with
    | none => some none
    | some a => (h.hdrs[a]?).map some
  match vs, hs with
  | some v, some hd => some { query := c.query, opName := c.opName, variables := v, headers := hd, kwargs := c.kwargs }
  | _, _ => none

inductive HResult where
  /-- client object after the call, argument heap after the call, what was sent -/
  | ok (cl : Client) (h : Heap) (r : Request)
  /-- an argument names no object: outside Python's states -/
  | illFormed

/-- `_execute_json` with the header dicts by reference: the caller keeps the addresses it had. -/
def executeJsonH (cl : Client) (hd : Store) (caller : Option Nat) (call : Call) (vars : List (String × PV)) :
    Option (Store × Request) :=
  match mergeHeadersS hd caller with
  | none => none
  | some (s', a) =>
    match s'[a]? with
    | none => none
    | some headers =>
      some (s'.take hd.length,
        match body call vars with
        | none => .serializationError
        | some b => .json cl.url b headers call.kwargs)

/-- `execute` on references. -/
def executeH (cl : Client) (h : Heap) (c : HCall) : HResult :=
  match h.call? c with
  | none => .illFormed
  | some call =>
    let r := processVariables call.variables
    if cl.kind.isOT && cl.tracer && (toJsonKvs r.1).isNone then
      .ok cl h .serializationError                 -- the span attribute `json.dumps(variables)` raised
    else if r.2.isEmpty then
      match executeJsonH cl h.hdrs c.headers call r.1 with
      | none => .illFormed
      | some (s', rq) => .ok cl { h with hdrs := s' } rq
    else
      .ok cl h (executeMultipart cl call r.1 r.2)   -- `**kwargs` passed through: same objects, only read

/-- Calls one after the other, each on its own client (any of the four kinds), all sharing one heap:
    returns the heap at the end and what each call sent (`none` for an ill-formed reference). -/
def runSeqH : Heap → List (Client × HCall) → Heap × List (Option Request)
  | h, [] => (h, [])
  | h, (cl, c) :: rest =>
    match executeH cl h c with
    | .ok _ h' r => let out := runSeqH h' rest; (out.1, some r :: out.2)
    | .illFormed => let out := runSeqH h rest; (out.1, none :: out.2)

/-- every step's references name objects -/
def wfSteps (h : Heap) : List (Client × HCall) → Bool
  | [] => true
  | (_, c) :: rest => (h.call? c).isSome && wfSteps h rest

end Ariadne.BaseClient
