/-
  Result side of C07 over ABSTRACT positions (interfaces / unions resolved with inline fragments or
  fragments on subtypes): which annotation the result-type generator emits for a field whose shape
  contains unions of member classes, where `annotate_nested_unions` / the field-level
  `Field(discriminator=…)` put the discriminator, and which `parse` calls a conformant response value
  is entitled to.  Extends Model/ResultAnn.lean (shapes without abstract positions, annotations in
  normal form) by keeping the wrappers `Optional[…]` / `List[…]` / `Union[…]` as SYNTAX, because the
  code modelled here walks that syntax:

      result_fields.py  parse_operation_field:
          annotation = parse_operation_field_type(type_, nullable=True, …)
          if isinstance(annotation, ast.Subscript):
              annotation.slice = annotate_nested_unions(annotation.slice)          -- `annotateTop`

      annotate_nested_unions(annotation):                                          -- `annotateNested`
          if isinstance(annotation, ast.Tuple):  return generate_tuple([annotate_nested_unions(e) for e in annotation.elts])
          if isinstance(annotation, (ast.Name, ast.Call)):  return annotation
          if isinstance(annotation.value, ast.Name) and annotation.value.id == UNION:
              return Annotated[annotation, Field(discriminator="typename__")]
          annotation.slice = annotate_nested_unions(annotation.slice)              -- EVERY other wrapper
          return annotation

      parse_interface_type / parse_union_type:   generate_union_annotation(types=[quoted class names], nullable)
                                                 = Union[...] / Optional[Union[...]]
      parse_list_type:   generate_list_annotation(parse_operation_field_type(of_type, nullable=True, …), nullable)
      parse_scalar_type: Annotated[T, BeforeValidator(parse)] (+ Optional[...] when nullable)

      result_types.py  _process_field_implementation:
          if is_union(field_implementation.annotation): keywords["discriminator"] = "typename__"   -- `fieldDisc`

  The members of a `Union[...]` are quoted class names; a class is inlined as the list of its fields
  (response key = alias, annotation), every field annotation being the result of the pipeline above.
  An `Annotated[T, BeforeValidator(parse)]` subscript is walked as well (its slice is the tuple
  `(Name, Call)`: both returned as they are), so a custom-scalar leaf is unchanged by the walk.

  A response shape `RTU` is what a selection set asks for (fragments flattened): custom-scalar leaves,
  other leaves, the `__typename` leaf of a member class (`Literal[...]`), lists, objects and abstract
  positions with one class per member.  WHICH classes an abstract position gets, their `Literal`
  values and field order are C01's subject (Model/ResultTypes.lean); here the shape carries them and
  the correspondence compares `annField` with the annotations of REAL generated result classes.

  Also here: the custom-scalar imports of a result module (`usedScalarsU`, `resultImports`):

      result_fields.py parse_scalar_type:   if type_.name in custom_scalars: context.custom_scalars.append(type_.name)
      result_types.py  _parse_type_definition:  self._used_scalars.extend(field_context.custom_scalars)
                       _add_enums_scalars_fragments_imports:
                           for scalar_name in self._used_scalars:
                               scalar_data = self.custom_scalars[scalar_name]
                               self._imports.extend(generate_scalar_imports(scalar_data))

  Core Lean only.
-/
import AriadneModel.Model.Scalars
import AriadneModel.Model.Json
import AriadneModel.Generated.Tables

namespace Ariadne.ResultUnion
open Ariadne Ariadne.Scalars

/-- the response key under which the discriminator's field is read (`Field(alias="__typename")`) -/
def typenameKey : String := Tables.typenameFieldName

/-! ### annotation syntax of generated result classes -/

mutual
  inductive PAnn where
    | leaf (l : Leaf)                 -- a name / `Annotated[T, BeforeValidator(parse)]`
    | literal (vs : List String)      -- `Literal["A", "B"]` (the `typename__` field)
    | optional (a : PAnn)             -- `Optional[a]`
    | list (a : PAnn)                 -- `List[a]`
    | model (fs : PFlds)              -- quoted forward reference to a class, inlined as its fields
    | union (ms : PMems)              -- `Union["ClsA", "ClsB", …]` as the type generators build it
    | dunion (ms : PMems)             -- `Annotated[Union[…], Field(discriminator="typename__")]`, or `Union[…]`
                                      -- on a field whose `Field(...)` carries `discriminator="typename__"`
  inductive PFlds where
    | nil
    | cons (alias : String) (a : PAnn) (rest : PFlds)
  inductive PMems where
    | nil
    | cons (fs : PFlds) (rest : PMems)
end

instance : Inhabited PAnn := ⟨.literal []⟩

def optionalIf (nullable : Bool) (a : PAnn) : PAnn := if nullable then .optional a else a

/-- `annotate_nested_unions` applied to a slice -/
def annotateNested : PAnn → PAnn
  | .union ms => .dunion ms
  | .optional a => .optional (annotateNested a)
  | .list a => .list (annotateNested a)
  | a => a

/-- what `parse_operation_field` does to the whole annotation: only the slice of a subscript is visited
    (the slice of a top-level `Union[...]` is the tuple of quoted class names: unchanged) -/
def annotateTop : PAnn → PAnn
  | .optional a => .optional (annotateNested a)
  | .list a => .list (annotateNested a)
  | a => a

/-- `_process_field_implementation`: `if is_union(annotation): Field(discriminator="typename__")` -/
def fieldDisc : PAnn → PAnn
  | .union ms => .dunion ms
  | a => a

/-! ### response shapes with abstract positions -/

mutual
  inductive RTU where
    | custom (scalar : String) (nn : Bool)     -- a custom scalar (configured or not)
    | plain (py : String) (nn : Bool)          -- any other leaf; `py` = the emitted annotation name
    | tag (vals : List String)                 -- `__typename` of a member class: `Literal[vals]`
    | list (item : RTU) (nn : Bool)
    | obj (fs : Flds) (nn : Bool)              -- one class
    | abs (ms : Mems) (nn : Bool)              -- abstract position: one class per member, told apart by `__typename`
  inductive Flds where
    | nil
    | cons (key : String) (t : RTU) (rest : Flds)
  inductive Mems where
    | nil
    | cons (fs : Flds) (rest : Mems)
end

instance : Inhabited RTU := ⟨.tag []⟩

/-- `parse_scalar_type` before the caller's `Optional[...]` -/
def scalarLeaf (cfg : ScalarCfg) (sc : String) : Leaf :=
  match lookupScalar cfg sc with
  | some d => resultLeaf d
  | none => .name "Any"

mutual
  /-- `parse_operation_field_type` (classes inlined) -/
  def rawAnn (cfg : ScalarCfg) : RTU → PAnn
    | .custom sc nn => optionalIf (!nn) (.leaf (scalarLeaf cfg sc))
    | .plain py nn => optionalIf (!nn) (.leaf (.name py))
    | .tag vs => .literal vs
    | .list it nn => optionalIf (!nn) (.list (rawAnn cfg it))
    | .obj fs nn => optionalIf (!nn) (.model (annFields cfg fs))
    | .abs ms nn => optionalIf (!nn) (.union (annMems cfg ms))
  /-- the fields of one class: every annotation goes through `parse_operation_field` and
      `_process_field_implementation` -/
  def annFields (cfg : ScalarCfg) : Flds → PFlds
    | .nil => .nil
    | .cons k t rest => .cons k (fieldDisc (annotateTop (rawAnn cfg t))) (annFields cfg rest)
  def annMems (cfg : ScalarCfg) : Mems → PMems
    | .nil => .nil
    | .cons fs rest => .cons (annFields cfg fs) (annMems cfg rest)
end

/-- the emitted annotation of a field of shape `t` -/
def annField (cfg : ScalarCfg) (t : RTU) : PAnn := fieldDisc (annotateTop (rawAnn cfg t))

/-! ### conformant response values and the `parse` calls they are entitled to -/

/-- the `Literal` values of the `__typename` field of a class of the shape -/
def tagOf : Flds → Option (List String)
  | .nil => none
  | .cons k t rest =>
    if k = typenameKey then (match t with | .tag vs => some vs | _ => none) else tagOf rest

def tagMatches (tag : String) : Option (List String) → Bool
  | some vs => vs.contains tag
  | none => false

mutual
  /-- `j` is a value a spec-conformant server can return at a position of shape `t`: null only where
      nullable, arrays for lists, objects carrying every selected key; at an abstract position an
      object whose `__typename` names a member, carrying that member's keys -/
  def conformsU : RTU → J → Bool
    | .custom _ nn, j => !(j.isNull && nn)
    | .plain _ nn, j => !(j.isNull && nn)
    | .tag vs, j => (match j with | .str s => vs.contains s | _ => false)
    | .list it nn, j =>
      match j with
      | .null => !nn
      | .arr xs => xs.all (conformsU it)
      | _ => false
    | .obj fs nn, j =>
      match j with
      | .null => !nn
      | .obj kvs => conformsFlds fs kvs
      | _ => false
    | .abs ms nn, j =>
      match j with
      | .null => !nn
      | .obj kvs =>
        (match J.lookup typenameKey kvs with
         | some (.str tag) => conformsTagged tag ms kvs
         | _ => false)
      | _ => false
  def conformsFlds : Flds → List (String × J) → Bool
    | .nil, _ => true
    | .cons k t rest, kvs =>
      (match J.lookup k kvs with
       | some v => conformsU t v
       | none => false) && conformsFlds rest kvs
  def conformsTagged (tag : String) : Mems → List (String × J) → Bool
    | .nil, _ => false
    | .cons fs rest, kvs => if tagMatches tag (tagOf fs) then conformsFlds fs kvs else conformsTagged tag rest kvs
end

mutual
  /-- the non-null custom-scalar occurrences of a response value whose scalar has `parse` configured,
      in selection / list order; at an abstract position those of the member the object belongs to -/
  def occurrencesU (cfg : ScalarCfg) : RTU → J → List ParseCall
    | .custom sc _, j =>
      if j.isNull then []
      else match lookupScalar cfg sc with
        | some d => (match d.parseName with | some p => [⟨p, j⟩] | none => [])
        | none => []
    | .plain _ _, _ => []
    | .tag _, _ => []
    | .list it _, j =>
      match j with
      | .arr xs => (xs.map (occurrencesU cfg it)).flatten
      | _ => []
    | .obj fs _, j =>
      match j with
      | .obj kvs => occurrencesFlds cfg fs kvs
      | _ => []
    | .abs ms _, j =>
      match j with
      | .obj kvs =>
        (match J.lookup typenameKey kvs with
         | some (.str tag) => occurrencesTagged cfg tag ms kvs
         | _ => [])
      | _ => []
  def occurrencesFlds (cfg : ScalarCfg) : Flds → List (String × J) → List ParseCall
    | .nil, _ => []
    | .cons k t rest, kvs =>
      (match J.lookup k kvs with
       | some v => occurrencesU cfg t v
       | none => []) ++ occurrencesFlds cfg rest kvs
  def occurrencesTagged (cfg : ScalarCfg) (tag : String) : Mems → List (String × J) → List ParseCall
    | .nil, _ => []
    | .cons fs rest, kvs => if tagMatches tag (tagOf fs) then occurrencesFlds cfg fs kvs else occurrencesTagged cfg tag rest kvs
end

/-! ### the custom-scalar imports of a result module -/

mutual
  /-- what `context.custom_scalars` / `self._used_scalars` collect over the fields of every class of
      the module: the name of each CONFIGURED custom scalar, once per field position -/
  def usedScalarsU (cfg : ScalarCfg) : RTU → List String
    | .custom sc _ => if (lookupScalar cfg sc).isSome then [sc] else []
    | .plain _ _ => []
    | .tag _ => []
    | .list it _ => usedScalarsU cfg it
    | .obj fs _ => usedScalarsFlds cfg fs
    | .abs ms _ => usedScalarsMems cfg ms
  def usedScalarsFlds (cfg : ScalarCfg) : Flds → List String
    | .nil => []
    | .cons _ t rest => usedScalarsU cfg t ++ usedScalarsFlds cfg rest
  def usedScalarsMems (cfg : ScalarCfg) : Mems → List String
    | .nil => []
    | .cons fs rest => usedScalarsFlds cfg fs ++ usedScalarsMems cfg rest
end

/-- `_add_enums_scalars_fragments_imports`, scalar part; `custom_scalars[scalar_name]` is an explicit
    KeyError branch (unreachable: `usedScalars_configured`) -/
def importsOfNames (cfg : ScalarCfg) : List String → Except String (List Import)
  | [] => .ok []
  | sc :: rest =>
    match lookupScalar cfg sc, importsOfNames cfg rest with
    | some d, .ok is => .ok (scalarImports d ++ is)
    | none, _ => .error sc
    | _, .error e => .error e

def resultImports (cfg : ScalarCfg) (t : RTU) : Except String (List Import) :=
  importsOfNames cfg (usedScalarsU cfg t)

mutual
  /-- every leaf of an annotation, classes entered -/
  def leavesOf : PAnn → List Leaf
    | .leaf l => [l]
    | .literal _ => []
    | .optional a => leavesOf a
    | .list a => leavesOf a
    | .model fs => leavesOfFlds fs
    | .union ms => leavesOfMems ms
    | .dunion ms => leavesOfMems ms
  def leavesOfFlds : PFlds → List Leaf
    | .nil => []
    | .cons _ a rest => leavesOf a ++ leavesOfFlds rest
  def leavesOfMems : PMems → List Leaf
    | .nil => []
    | .cons fs rest => leavesOfFlds fs ++ leavesOfMems rest
end

end Ariadne.ResultUnion
