/-
  Lemmas about Spec/GqlLexer.lean (C19): running the automaton over a concatenation, which separators bring every
  accepting state back to the token boundary with the pending token emitted (`Resets`), and what that means for the
  token stream of `sep.join(texts)`.
-/
import AriadneModel.Spec.GqlLexer

set_option linter.unusedSimpArgs false
set_option linter.unusedVariables false

namespace Ariadne.Spec.GqlLexer

/-! ### the automaton over a concatenation -/

theorem run_append : ∀ (a b : List Char) (s : St),
    run s (a ++ b) =
      match run s a with
      | .error e => .error e
      | .ok (s', ts) =>
        match run s' b with
        | .error e => .error e
        | .ok (s'', ts') => .ok (s'', ts ++ ts')
  | [], b, s => by
    simp only [List.nil_append, run]
    rcases run s b with e | ⟨s'', ts'⟩ <;> simp
  | c :: cs, b, s => by
    simp only [List.cons_append, run]
    rcases step s c with e | ⟨s₁, t₁⟩
    · rfl
    · simp only
      rw [run_append cs b s₁]
      rcases run s₁ cs with e | ⟨s₂, t₂⟩
      · rfl
      · simp only
        rcases run s₂ b with e | ⟨s₃, t₃⟩
        · rfl
        · simp [List.append_assoc]

/-- ignored characters at a token boundary do nothing -/
theorem run_start_ignored : ∀ cs : List Char, cs.all isIgnored = true → run .start cs = .ok (.start, [])
  | [], _ => rfl
  | c :: cs, h => by
    simp only [List.all_cons, Bool.and_eq_true] at h
    simp [run, step, stepStart, h.1, run_start_ignored cs h.2]

/-! ### separators -/

/-- `sep` brings every state in which a text may end back to the token boundary and emits exactly the token that
    was pending there: after `sep`, the lexer is where it is at the start of a text. -/
def Resets (sep : List Char) : Prop := ∀ s last, final s = .ok last → run s sep = .ok (.start, last)

/-- decidable sufficient condition: the separator starts with a line terminator and consists of ignored characters
    (`"\n"`, `"\r\n"`, `"\n\n"`, `"\n  "` ...) -/
def sepOk (sep : List Char) : Bool :=
  match sep with
  | [] => false
  | c :: cs => isLineEnd c && cs.all isIgnored

/-- one line terminator ends whatever token is pending (and a comment) -/
theorem lineEnd_resets (c : Char) (hc : isLineEnd c = true) (s : St) (last : List Tok) (h : final s = .ok last) :
    step s c = .ok (.start, last) := by
  have hcases : c = '\n' ∨ c = '\r' := by
    simpa [isLineEnd] using hc
  have facts : isIgnored c = true ∧ c.isDigit = false ∧ isNameStart c = false ∧ isNameCont c = false ∧
      (c == '.') = false ∧ (c == 'e') = false ∧ (c == 'E') = false ∧ (c == '"') = false := by
    rcases hcases with rfl | rfl <;> decide
  obtain ⟨h1, h2, h3, h4, h5, h6, h7, h8⟩ := facts
  cases s <;> simp [final] at h <;> subst h <;>
    simp [step, stepStart, emitThen, numEnd, hc, h1, h2, h3, h4, h5, h6, h7, h8]

theorem resets_of_sepOk (sep : List Char) (h : sepOk sep = true) : Resets sep := by
  intro s last hf
  cases sep with
  | nil => simp [sepOk] at h
  | cons c cs =>
    simp only [sepOk, Bool.and_eq_true] at h
    have h1 := lineEnd_resets c h.1 s last hf
    simp [run, h1, run_start_ignored cs h.2]

theorem newline_resets : Resets ['\n'] := resets_of_sepOk _ (by decide)

/-- the empty separator and a blank do NOT reset: a pending name stays open, a comment goes on -/
theorem empty_does_not_reset : ¬ Resets [] := by
  intro h
  have := h (.name ['A']) [tok .name ['A']] rfl
  simp [run] at this

theorem blank_does_not_reset : ¬ Resets [' '] := by
  intro h
  have := h .comment [] rfl
  simp [run, step, isLineEnd] at this

/-! ### the joined text -/

/-- the tokens of a text that lexes (`[]` otherwise: only used under the hypothesis that it does) -/
def tokensOf (t : List Char) : List Tok :=
  match lexChars t with
  | .ok ks => ks
  | .error _ => []

theorem lexChars_ok_iff (a : List Char) (ta : List Tok) :
    lexChars a = .ok ta ↔ ∃ s t last, run .start a = .ok (s, t) ∧ final s = .ok last ∧ ta = t ++ last := by
  unfold lexChars
  rcases hr : run .start a with e | ⟨s, t⟩
  · simp
  · dsimp only
    rcases hf : final s with e | last
    · dsimp only
      constructor
      · intro h; cases h
      · rintro ⟨s', t', last', h1, h2, h3⟩
        cases h1
        rw [hf] at h2
        cases h2
    · dsimp only
      constructor
      · intro h
        cases h
        exact ⟨s, t, last, rfl, hf, rfl⟩
      · rintro ⟨s', t', last', h1, h2, h3⟩
        cases h1
        rw [hf] at h2
        cases h2
        rw [h3]

/-- two texts around a resetting separator: the tokens of the first, then the tokens of the second -/
theorem lexChars_join (sep : List Char) (hsep : Resets sep) (a b : List Char) (ta tb : List Tok)
    (ha : lexChars a = .ok ta) (hb : lexChars b = .ok tb) : lexChars (a ++ sep ++ b) = .ok (ta ++ tb) := by
  obtain ⟨sa, t1, l1, hra, hfa, rfl⟩ := (lexChars_ok_iff a ta).mp ha
  obtain ⟨sb, t2, l2, hrb, hfb, rfl⟩ := (lexChars_ok_iff b tb).mp hb
  apply (lexChars_ok_iff _ _).mpr
  refine ⟨sb, t1 ++ (l1 ++ t2), l2, ?_, hfb, by simp [List.append_assoc]⟩
  rw [List.append_assoc, run_append a (sep ++ b) .start, hra]
  simp only
  rw [run_append sep b sa, hsep sa l1 hfa]
  simp only
  rw [hrb]

/-- **any number of texts**: if every text lexes on its own, `sep.join(texts)` lexes, to the concatenation of the
    parts' token streams. -/
theorem lexChars_joinWith (sep : List Char) (hsep : Resets sep) : ∀ texts : List (List Char),
    (∀ t ∈ texts, ∃ ks, lexChars t = .ok ks) → lexChars (joinWith sep texts) = .ok (texts.map tokensOf).flatten
  | [], _ => by simp [joinWith, lexChars, run, final]
  | [x], h => by
    obtain ⟨ks, hk⟩ := h x (by simp)
    simp [joinWith, tokensOf, hk]
  | x :: y :: rest, h => by
    obtain ⟨kx, hx⟩ := h x (by simp)
    have ih := lexChars_joinWith sep hsep (y :: rest) (fun t ht => h t (by simp [ht]))
    have := lexChars_join sep hsep x (joinWith sep (y :: rest)) kx _ hx ih
    simp only [joinWith]
    rw [this]
    simp [tokensOf, hx]

end Ariadne.Spec.GqlLexer
