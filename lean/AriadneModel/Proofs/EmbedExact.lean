/-
  Proofs/EmbedExact.lean — the regions `escN` and `lineSep` of C02's text clause are EXACTLY its failure region among
  the texts without `'` and `"""`: if the described text equals the expected one, the text has neither a
  backslash-`n` pair nor an extra line separator.

  Counting argument: the rewriter only ever adds blanks and newlines; a backslash-`n` pair that becomes a line
  continuation removes two other characters ("ink"), an extra separator that becomes a line break removes one.
-/
import AriadneModel.Proofs.EmbedBN

set_option linter.unusedSimpArgs false
set_option linter.unusedVariables false

namespace Ariadne.EmbedProofs
open Ariadne.Embed Ariadne.PyStr

/-- a character that is neither a blank nor a newline -/
def ink (c : Char) : Bool := c != ' ' && c != '\n'

def inkOf (l : List Char) : Nat := l.countP ink

def isExtra (c : Char) : Bool := isLineSep c && c != '\n'

def sumInk (ls : List (List Char)) : Nat := (ls.map inkOf).sum

theorem inkOf_nil : inkOf [] = 0 := rfl

theorem inkOf_cons (c : Char) (l : List Char) : inkOf (c :: l) = (if ink c then 1 else 0) + inkOf l := by
  unfold inkOf
  rw [List.countP_cons]
  omega

theorem inkOf_append (a b : List Char) : inkOf (a ++ b) = inkOf a + inkOf b := by
  unfold inkOf
  exact List.countP_append

theorem inkOf_spaces (k : Nat) : inkOf (List.replicate k ' ') = 0 := by
  induction k with
  | zero => rfl
  | succ k ih => rw [List.replicate_succ, inkOf_cons, ih]; decide

theorem inkOf_nl : inkOf ['\n'] = 0 := by decide

theorem sumInk_nil : sumInk [] = 0 := rfl

theorem sumInk_cons (l : List Char) (ls : List (List Char)) : sumInk (l :: ls) = inkOf l + sumInk ls := by
  simp [sumInk]

theorem inkOf_indentLines (k : Nat) (ls : List (List Char)) : inkOf (indentLines k ls) = sumInk ls := by
  induction ls with
  | nil => rfl
  | cons l ls ih =>
    have e : indentLines k (l :: ls) = ((if l.all (· == ' ') then l else List.replicate k ' ' ++ l) ++ ['\n']) ++ indentLines k ls := by
      simp [indentLines]
    rw [e, inkOf_append, inkOf_append, ih, sumInk_cons, inkOf_nl]
    by_cases hb : l.all (· == ' ') = true
    · simp [hb]
    · simp [hb, inkOf_append, inkOf_spaces]

theorem sumInk_splitNL (q : List Char) : sumInk (splitNL q) = inkOf q := by
  induction q with
  | nil => rfl
  | cons c cs ih =>
    rw [splitNL]
    by_cases hc : c = '\n'
    · subst hc
      simp only [beq_self_eq_true, if_true]
      rw [sumInk_cons, ih, inkOf_cons, inkOf_nil]
      simp [ink]
    · have hc' : (c == '\n') = false := by simpa using hc
      simp only [hc', Bool.false_eq_true, if_false]
      cases hs : splitNL cs with
      | nil =>
        rw [hs] at ih
        simp only
        rw [sumInk_cons, sumInk_nil, inkOf_cons, inkOf_cons, inkOf_nil, ← ih, sumInk_nil]
      | cons l ls =>
        rw [hs] at ih
        simp only
        rw [sumInk_cons, inkOf_cons, inkOf_cons, ← ih, sumInk_cons]
        omega

theorem ink_of_extra (c : Char) (h : isExtra c = true) : ink c = true := by
  unfold isExtra at h
  unfold ink
  simp only [Bool.and_eq_true] at h ⊢
  refine ⟨?_, h.2⟩
  have h1 := h.1
  by_cases hc : c = ' '
  · subst hc; simp [isLineSep] at h1
  · simpa using hc

theorem extra_of_sep (c : Char) (h : isLineSep c = true) (hn : c ≠ '\n') : isExtra c = true := by
  simp [isExtra, h, hn]

theorem not_extra_of_nonsep (c : Char) (h : isLineSep c = false) : isExtra c = false := by
  simp [isExtra, h]

/-- the ink of a text = the ink of its `splitlines` lines + the separators other than `\n` -/
theorem sumInk_splitlines (q : List Char) : sumInk (splitlines q) + q.countP isExtra = inkOf q := by
  fun_induction splitlines q with
  | case1 => rfl
  | case2 cs ih =>
    have h1 : isExtra '\r' = true := by decide
    have h2 : isExtra '\n' = false := by decide
    rw [sumInk_cons, inkOf_nil, List.countP_cons, List.countP_cons, inkOf_cons, inkOf_cons, ← ih]
    simp [h1, h2, ink]
    omega
  | case3 c cs hnot hsep ih =>
    rw [sumInk_cons, inkOf_nil, List.countP_cons, inkOf_cons, ← ih]
    by_cases hc : c = '\n'
    · subst hc
      have h2 : isExtra '\n' = false := by decide
      simp [h2, ink]
    · have he := extra_of_sep c hsep hc
      simp [he, ink_of_extra c he]
      omega
  | case4 c cs hnot hsep hnil ih =>
    have hsep' : isLineSep c = false := by simpa using hsep
    rw [hnil] at ih
    rw [sumInk_cons, sumInk_nil, List.countP_cons, inkOf_cons, inkOf_cons, inkOf_nil, ← ih, not_extra_of_nonsep c hsep', sumInk_nil]
    simp
  | case5 c cs hnot hsep l ls heq ih =>
    have hsep' : isLineSep c = false := by simpa using hsep
    rw [heq] at ih
    rw [sumInk_cons, List.countP_cons, inkOf_cons, inkOf_cons, ← ih, not_extra_of_nonsep c hsep', sumInk_cons]
    simp
    omega

theorem inkOf_sentSegs (k : Nat) : ∀ (ss : List (List Char)) (s : List Char), inkOf (sentSegs k s ss) = inkOf s + sumInk ss
  | [], s => by
    rw [sentSegs, inkOf_append, inkOf_nl, sumInk_nil]
    by_cases hb : s.all (· == ' ') = true
    · simp [hb]
    · simp [hb, inkOf_append, inkOf_spaces]
  | t :: ts, s => by
    rw [sentSegs, inkOf_append, inkOf_append, inkOf_spaces, inkOf_sentSegs k ts t, sumInk_cons]
    omega

/-- every backslash-`n` pair of a line costs two characters -/
theorem inkOf_segsBN (l : List Char) : inkOf (segsBN l).1 + sumInk (segsBN l).2 + 2 * (segsBN l).2.length = inkOf l := by
  fun_induction segsBN l with
  | case1 => rfl
  | case2 rest ih =>
    rw [inkOf_cons, inkOf_cons, ← ih, sumInk_cons, inkOf_nil]
    simp [ink]
    omega
  | case3 c rest hne ih =>
    dsimp only
    rw [inkOf_cons, inkOf_cons, ← ih]
    omega

theorem inkOf_sentLine (k : Nat) (l : List Char) : inkOf (sentLine k l) + 2 * (segsBN l).2.length = inkOf l := by
  rw [sentLine, inkOf_sentSegs, inkOf_segsBN]

def pairs (ls : List (List Char)) : Nat := (ls.map fun l => (segsBN l).2.length).sum

theorem inkOf_flatMap_sentLine (k : Nat) (ls : List (List Char)) :
    inkOf (ls.flatMap (sentLine k)) + 2 * pairs ls = sumInk ls := by
  induction ls with
  | nil => rfl
  | cons l ls ih =>
    have := inkOf_sentLine k l
    simp only [List.flatMap_cons, inkOf_append, sumInk_cons, pairs, List.map_cons, List.sum_cons] at ih ⊢
    omega

/-- the ink of what is sent, of what should be sent, and the difference -/
theorem inkOf_described (k : Nat) (q : List Char) :
    inkOf (describedSent k q) + 2 * pairs (splitlines q) + q.countP isExtra = inkOf (expectedText k q) := by
  have h1 : inkOf (describedSent k q) = inkOf ((splitlines q).flatMap (sentLine k)) := by
    rw [describedSent, inkOf_cons, inkOf_append, inkOf_spaces]
    simp [ink]
  have h2 : inkOf (expectedText k q) = inkOf q := by
    rw [expectedText, inkOf_cons, inkOf_append, inkOf_spaces, inkOf_indentLines, sumInk_splitNL]
    simp [ink]
  have h3 := inkOf_flatMap_sentLine k (splitlines q)
  have h4 := sumInk_splitlines q
  omega

/-! ### from the counts back to the triggers -/

theorem hasExtraSep_of_count (q : List Char) (h : q.countP isExtra = 0) : hasExtraSep q = false := by
  unfold hasExtraSep
  rw [List.any_eq_false]
  intro c hc
  have := (List.countP_eq_zero.mp h) c hc
  simpa [isExtra] using this

theorem pairs_zero {ls : List (List Char)} (h : pairs ls = 0) : ∀ l ∈ ls, hasBsN l = false := by
  induction ls with
  | nil => intro l hl; cases hl
  | cons a ls ih =>
    simp only [pairs, List.map_cons, List.sum_cons] at h
    have h1 : (segsBN a).2.length = 0 := by omega
    have h2 : pairs ls = 0 := by unfold pairs; omega
    intro l hl
    rcases List.mem_cons.mp hl with rfl | hl
    · cases hb : hasBsN l with
      | false => rfl
      | true =>
        obtain ⟨s, l', rfl, hs⟩ := bn_split l hb
        rw [segsBN_cut s l' hs] at h1
        simp at h1
    · exact ih h2 l hl

theorem splitlines_nonsep : ∀ (q : List Char) (a : Char) (t : List Char), q = a :: t → isLineSep a = false →
    ∃ l0 ls0, splitlines q = (a :: l0) :: ls0 := by
  intro q
  fun_induction splitlines q with
  | case1 => intro a t hq; cases hq
  | case2 cs ih =>
    intro a t hq ha
    simp only [List.cons.injEq] at hq
    obtain ⟨rfl, _⟩ := hq
    simp [isLineSep] at ha
  | case3 c cs hnot hsep ih =>
    intro a t hq ha
    simp only [List.cons.injEq] at hq
    obtain ⟨rfl, _⟩ := hq
    rw [hsep] at ha
    cases ha
  | case4 c cs hnot hsep hnil ih =>
    intro a t hq ha
    simp only [List.cons.injEq] at hq
    obtain ⟨rfl, _⟩ := hq
    exact ⟨[], [], rfl⟩
  | case5 c cs hnot hsep l ls heq ih =>
    intro a t hq ha
    simp only [List.cons.injEq] at hq
    obtain ⟨rfl, _⟩ := hq
    exact ⟨l, ls, rfl⟩

/-- a backslash-`n` pair of the text lies inside one of its lines (neither character is a separator) -/
theorem bsn_in_line (q : List Char) : hasBsN q = true → ∃ l ∈ splitlines q, hasBsN l = true := by
  fun_induction splitlines q with
  | case1 => intro h; simp [hasBsN] at h
  | case2 cs ih =>
    intro h
    rw [hasBsN_cons, hasBsN_cons] at h
    simp at h
    obtain ⟨l, hl, hb⟩ := ih h
    exact ⟨l, List.mem_cons_of_mem _ hl, hb⟩
  | case3 c cs hnot hsep ih =>
    intro h
    have hc : c ≠ '\\' := by
      intro hc; subst hc; simp [isLineSep] at hsep
    rw [hasBsN_cons] at h
    simp [hc] at h
    obtain ⟨l, hl, hb⟩ := ih h
    exact ⟨l, List.mem_cons_of_mem _ hl, hb⟩
  | case4 c cs hnot hsep hnil ih =>
    intro h
    rw [hasBsN_cons, Bool.or_eq_true] at h
    rcases h with h | h
    · simp only [Bool.and_eq_true, beq_iff_eq] at h
      cases cs with
      | nil => simp at h
      | cons b t =>
        obtain ⟨l0, ls0, hh⟩ := splitlines_nonsep (b :: t) b t rfl (by
          have : b = 'n' := by simpa using h.2
          subst this; decide)
        rw [hnil] at hh
        cases hh
    · obtain ⟨l, hl, _⟩ := ih h
      rw [hnil] at hl
      cases hl
  | case5 c cs hnot hsep l ls heq ih =>
    intro h
    rw [hasBsN_cons, Bool.or_eq_true] at h
    rcases h with h | h
    · simp only [Bool.and_eq_true, beq_iff_eq] at h
      obtain ⟨rfl, hh⟩ := h
      cases cs with
      | nil => simp at hh
      | cons b t =>
        have hb : b = 'n' := by simpa using hh
        subst hb
        obtain ⟨l0, ls0, hs⟩ := splitlines_nonsep ('n' :: t) 'n' t rfl (by decide)
        rw [heq] at hs
        simp only [List.cons.injEq] at hs
        obtain ⟨rfl, rfl⟩ := hs
        exact ⟨'\\' :: 'n' :: l0, by simp, by simp [hasBsN]⟩
    · obtain ⟨l', hl', hb⟩ := ih h
      rw [heq] at hl'
      rcases List.mem_cons.mp hl' with rfl | hl'
      · refine ⟨c :: l', by simp, ?_⟩
        rw [hasBsN_cons, hb, Bool.or_true]
      · exact ⟨l', by simp [hl'], hb⟩

/-- **the described text is the expected text only outside the regions `escN` and `lineSep`** -/
theorem described_eq_expected (k : Nat) (q : List Char) (h : describedSent k q = expectedText k q) :
    hasBsN q = false ∧ hasExtraSep q = false := by
  have hc := inkOf_described k q
  rw [h] at hc
  have h1 : pairs (splitlines q) = 0 := by omega
  have h2 : q.countP isExtra = 0 := by omega
  refine ⟨?_, hasExtraSep_of_count q h2⟩
  cases hb : hasBsN q with
  | false => rfl
  | true =>
    obtain ⟨l, hl, hbl⟩ := bsn_in_line q hb
    rw [pairs_zero h1 l hl] at hbl
    cases hbl

end Ariadne.EmbedProofs
