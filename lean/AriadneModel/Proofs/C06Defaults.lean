/-
  C06: required fields are enforced, and a field that is not provided is completed by the server
  with the schema default (lemmas about the second passes `PydInput.finish` / `CoerceInput.finish`).
-/
import AriadneModel.Proofs.C06Accept

set_option linter.unusedSimpArgs false
set_option linter.unusedVariables false

namespace Ariadne.C06Defaults
open Ariadne
open Ariadne.InputGen (TypeRef)
open Ariadne.InputField (Ann Kind annOf)
open Ariadne.CoerceInput Ariadne.PydInput Ariadne.InputRel Ariadne.C06Accept

/-! ### a required field that is not provided: ValidationError -/

theorem lookupPV_none_of_not_mem : ∀ (vals : List (String × PV)) (k : String), k ∉ vals.map (·.1) → lookupPV k vals = none := by
  intro vals
  induction vals with
  | nil => intro k _; rfl
  | cons kv vals ih =>
    intro k h
    obtain ⟨k', v⟩ := kv
    simp only [List.map, List.mem_cons, not_or] at h
    have hk : ¬ k' = k := fun e => h.1 e.symm
    simp only [lookupPV, hk, if_false]
    exact ih k h.2

/-- whatever the first pass produced is keyed by the Python name of a field that a provided key names -/
theorem validateKvs_keys (env : Env) (specs : List FieldSpec) (all : List (String × J)) :
    ∀ (rest : List (String × J)) (vals : List (String × PV)), validateKvs env specs all rest = .ok vals →
      ∀ p ∈ vals.map (·.1), ∃ sp ∈ specs, sp.py = p ∧ (sp.key ∈ rest.map (·.1) ∨ sp.py ∈ rest.map (·.1)) := by
  intro rest
  induction rest with
  | nil => intro vals h p hp; simp [validateKvs] at h; subst h; simp at hp
  | cons kv rest ih =>
    intro vals h p hp
    obtain ⟨k, v⟩ := kv
    have lift : (∃ sp ∈ specs, sp.py = p ∧ (sp.key ∈ rest.map (·.1) ∨ sp.py ∈ rest.map (·.1))) →
        ∃ sp ∈ specs, sp.py = p ∧ (sp.key ∈ ((k, v) :: rest).map (·.1) ∨ sp.py ∈ ((k, v) :: rest).map (·.1)) := by
      rintro ⟨sp, hsp, hpy, hor⟩
      refine ⟨sp, hsp, hpy, ?_⟩
      rcases hor with h' | h'
      · exact Or.inl (List.mem_cons_of_mem _ h')
      · exact Or.inr (List.mem_cons_of_mem _ h')
    simp only [validateKvs] at h
    cases hk : findByKey specs k with
    | some f =>
      simp only [hk] at h
      cases hv : validate env f.ann v with
      | error e => simp [hv] at h
      | ok pv =>
        simp only [hv] at h
        cases hr : validateKvs env specs all rest with
        | error e => simp [hr] at h
        | ok out =>
          simp only [hr, Except.ok.injEq] at h
          subst h
          simp only [List.map, List.mem_cons] at hp
          rcases hp with rfl | hp
          · obtain ⟨hm, hkey⟩ := findByKey_mem hk
            exact ⟨f, hm, rfl, Or.inl (by simp [hkey])⟩
          · exact lift (ih out hr p hp)
    | none =>
      simp only [hk] at h
      cases hn : findByName specs k with
      | none =>
        simp only [hn] at h
        exact lift (ih vals h p hp)
      | some f =>
        simp only [hn] at h
        by_cases hh : J.hasKey f.key all = true
        · simp only [hh, if_true] at h
          exact lift (ih vals h p hp)
        · have hh' : J.hasKey f.key all = false := by simpa using hh
          simp only [hh', Bool.false_eq_true, if_false] at h
          cases hv : validate env f.ann v with
          | error e => simp [hv] at h
          | ok pv =>
            simp only [hv] at h
            cases hr : validateKvs env specs all rest with
            | error e => simp [hr] at h
            | ok out =>
              simp only [hr, Except.ok.injEq] at h
              subst h
              simp only [List.map, List.mem_cons] at hp
              rcases hp with rfl | hp
              · unfold findByName at hn
                have hm := List.mem_of_find?_eq_some hn
                have hpy : f.py = k := by simpa using List.find?_some hn
                exact ⟨f, hm, rfl, Or.inr (by simp [hpy])⟩
              · exact lift (ih out hr p hp)

theorem finish_missing : ∀ (specs : List FieldSpec) (vals : List (String × PV)) (sp : FieldSpec), sp ∈ specs →
    sp.default = none → lookupPV sp.py vals = none → ∃ e, PydInput.finish specs vals = .error e := by
  intro specs
  induction specs with
  | nil => intro vals sp h; cases h
  | cons f specs ih =>
    intro vals sp hsp hd hl
    simp only [PydInput.finish]
    cases hf : PydInput.finish specs vals with
    | error e => exact ⟨e, rfl⟩
    | ok rest =>
      rcases List.mem_cons.mp hsp with rfl | hsp'
      · simp only [hl, hd]; exact ⟨_, rfl⟩
      · obtain ⟨e, he⟩ := ih vals sp hsp' hd hl
        rw [he] at hf
        cases hf

/-- a value that provides neither the GraphQL name nor the Python name of a REQUIRED model field
    is refused -/
theorem missing_required_refused (env : Env) (cls : String) (c : ClassSpec) (hc : env.class? cls = some c)
    (hn : namesOK c.fields = true) (sp : FieldSpec) (hsp : sp ∈ c.fields) (hreq : sp.default = none)
    (kvs : List (String × J)) (h1 : sp.key ∉ kvs.map (·.1)) (h2 : sp.py ∉ kvs.map (·.1)) :
    ∃ e, construct env cls (.obj kvs) = .error e := by
  unfold construct
  by_cases hb : env.broken = true
  · simp [hb]
  · simp only [hb, Bool.false_eq_true, if_false, validate, core, hc]
    cases hdf : defaultFailure c.fields kvs with
    | some e => exact ⟨_, rfl⟩
    | none =>
    cases hv : validateKvs env c.fields kvs kvs with
    | error e => exact ⟨e, rfl⟩
    | ok vals =>
      have hnone : lookupPV sp.py vals = none := by
        apply lookupPV_none_of_not_mem
        intro hmem
        obtain ⟨sp', hsp', hpy, hor⟩ := validateKvs_keys env c.fields kvs kvs vals hv sp.py hmem
        obtain ⟨_, hpd, _⟩ := namesOK_parts hn
        have : sp' = sp := strDistinct_inj (fun (x : FieldSpec) => x.py) c.fields hpd sp' hsp' sp hsp hpy
        subst this
        rcases hor with h | h
        · exact h1 h
        · exact h2 h
      obtain ⟨e, he⟩ := finish_missing c.fields vals sp hsp hreq hnone
      simp only [he]
      exact ⟨e, rfl⟩

/-! ### the server completes an omitted field with the schema default -/

theorem lookup_none_of_not_mem : ∀ (cs : List (String × J)) (k : String), k ∉ cs.map (·.1) → J.lookup k cs = none := by
  intro cs
  induction cs with
  | nil => intro k _; rfl
  | cons kv cs ih =>
    intro k h
    obtain ⟨k', v⟩ := kv
    simp only [List.map, List.mem_cons, not_or] at h
    have hk : ¬ k' = k := fun e => h.1 e.symm
    simp only [J.lookup, hk, if_false]
    exact ih k h.2

theorem finish_names : ∀ (fs : List CField) (cs out : List (String × J)), CoerceInput.finish fs cs = .ok out →
    ∀ k ∈ out.map (·.1), k ∈ fs.map (·.name) := by
  intro fs
  induction fs with
  | nil => intro cs out h k hk; simp [CoerceInput.finish] at h; subst h; simp at hk
  | cons f fs ih =>
    intro cs out h k hk
    simp only [CoerceInput.finish] at h
    cases hf : CoerceInput.finish fs cs with
    | error e => simp [hf] at h
    | ok rest =>
      simp only [hf] at h
      have tail : k ∈ rest.map (·.1) → k ∈ (f :: fs).map (·.name) := fun hk' => List.mem_cons_of_mem _ (ih cs rest hf k hk')
      cases hl : J.lookup f.name cs with
      | some c =>
        simp only [hl, Except.ok.injEq] at h
        subst h
        simp only [List.map, List.mem_cons] at hk
        rcases hk with rfl | hk
        · simp
        · exact tail hk
      | none =>
        simp only [hl] at h
        cases hd : f.default with
        | none =>
          simp only [hd] at h
          by_cases hnn : f.type.isNonNull = true
          · simp [hnn] at h
          · simp only [hnn, Bool.false_eq_true, if_false, Except.ok.injEq] at h
            subst h
            exact tail hk
        | some r =>
          cases r with
          | error e => simp [hd] at h
          | ok d =>
            simp only [hd, Except.ok.injEq] at h
            subst h
            simp only [List.map, List.mem_cons] at hk
            rcases hk with rfl | hk
            · simp
            · exact tail hk

theorem finish_default : ∀ (fs : List CField) (cs out : List (String × J)) (cf : CField) (d : J),
    strDistinct (fs.map (·.name)) = true → cf ∈ fs → cf.default = some (.ok d) → J.lookup cf.name cs = none →
    CoerceInput.finish fs cs = .ok out → J.lookup cf.name out = some d := by
  intro fs
  induction fs with
  | nil => intro cs out cf d _ h; cases h
  | cons f fs ih =>
    intro cs out cf d hdist hcf hdef hnone h
    simp only [List.map, strDistinct, Bool.and_eq_true, Bool.not_eq_true', List.contains_eq_mem, decide_eq_false_iff_not] at hdist
    obtain ⟨hnotin, hdist'⟩ := hdist
    simp only [CoerceInput.finish] at h
    cases hf : CoerceInput.finish fs cs with
    | error e => simp [hf] at h
    | ok rest =>
      simp only [hf] at h
      rcases List.mem_cons.mp hcf with rfl | hcf'
      · simp only [hnone, hdef, Except.ok.injEq] at h
        subst h
        simp [J.lookup]
      · have hne : ¬ f.name = cf.name := by
          intro e
          apply hnotin
          rw [e]
          exact List.mem_map.mpr ⟨cf, hcf', rfl⟩
        have htail := ih cs rest cf d hdist' hcf' hdef hnone hf
        cases hl : J.lookup f.name cs with
        | some c =>
          simp only [hl, Except.ok.injEq] at h
          subst h
          simp only [J.lookup, hne, if_false]
          exact htail
        | none =>
          simp only [hl] at h
          cases hd : f.default with
          | none =>
            simp only [hd] at h
            by_cases hnn : f.type.isNonNull = true
            · simp [hnn] at h
            · simp only [hnn, Bool.false_eq_true, if_false, Except.ok.injEq] at h
              subst h
              exact htail
          | some r =>
            cases r with
            | error e => simp [hd] at h
            | ok d' =>
              simp only [hd, Except.ok.injEq] at h
              subst h
              simp only [J.lookup, hne, if_false]
              exact htail

/-- what the server makes of a dict that does not mention a field with a schema default: the
    coerced object carries exactly that default for it -/
theorem server_applies_default (S : CSchema) (n : String) (fs : List CField) (hin : S.find? n = some (.input n fs))
    (hdist : strDistinct (fs.map (·.name)) = true) (cf : CField) (hcf : cf ∈ fs) (d : J) (hdef : cf.default = some (.ok d))
    (kvs : List (String × J)) (hk : cf.name ∉ kvs.map (·.1)) (c : J) (hc : coerce S (.named n) (.obj kvs) = .ok c) :
    ∃ out, c = .obj out ∧ J.lookup cf.name out = some d := by
  simp only [coerce, listDepth, nestE_zero, InputGen.TypeRef.base, hin] at hc
  cases hkv : coerceKvs S fs kvs with
  | error e => simp [hkv] at hc
  | ok cs =>
    simp only [hkv] at hc
    cases hfin : CoerceInput.finish fs cs with
    | error e => simp [hfin] at hc
    | ok out =>
      simp only [hfin, Except.ok.injEq] at hc
      refine ⟨out, hc.symm, ?_⟩
      apply finish_default fs cs out cf d hdist hcf hdef _ hfin
      apply lookup_none_of_not_mem
      rw [coerceKvs_keys fs kvs cs hkv]
      exact hk

/-! ### a field that was not provided is not dumped (`exclude_unset`) -/

theorem finish_pys : ∀ (specs : List FieldSpec) (vals fields : List (String × PV)), PydInput.finish specs vals = .ok fields →
    fields.map (·.1) = specs.map (·.py) := by
  intro specs
  induction specs with
  | nil => intro vals fields h; simp [PydInput.finish] at h; subst h; rfl
  | cons f specs ih =>
    intro vals fields h
    simp only [PydInput.finish] at h
    cases hf : PydInput.finish specs vals with
    | error e => simp [hf] at h
    | ok rest =>
      simp only [hf] at h
      have := ih vals rest hf
      cases hl : lookupPV f.py vals with
      | some pv =>
        simp only [hl, Except.ok.injEq] at h
        subst h
        simp [this]
      | none =>
        simp only [hl] at h
        cases hd : f.default with
        | none => simp [hd] at h
        | some r =>
          cases r with
          | error e => simp [hd] at h
          | ok d =>
            simp only [hd, Except.ok.injEq] at h
            subst h
            simp [this]

theorem dumpFields_keys (env : Env) (cls : String) (set : List String) : ∀ (fields : List (String × PV)) (k : String),
    k ∈ (dumpFields env cls set fields).map (·.1) → ∃ py ∈ fields.map (·.1), py ∈ set ∧ k = aliasOf env cls py := by
  intro fields
  induction fields with
  | nil => intro k h; simp [dumpFields] at h
  | cons f fields ih =>
    intro k h
    obtain ⟨py, v⟩ := f
    simp only [dumpFields] at h
    by_cases hs : set.contains py = true
    · simp only [hs, if_true, List.map, List.mem_cons] at h
      rcases h with rfl | h
      · exact ⟨py, by simp, by simpa using hs, rfl⟩
      · obtain ⟨py', h1, h2, h3⟩ := ih k h
        exact ⟨py', List.mem_cons_of_mem _ h1, h2, h3⟩
    · simp only [hs] at h
      obtain ⟨py', h1, h2, h3⟩ := ih k h
      exact ⟨py', List.mem_cons_of_mem _ h1, h2, h3⟩

/-- `model_dump(by_alias=True, exclude_unset=True)` of an instance built from a dict that mentions a
    field neither by GraphQL name nor by Python name does not contain that field's key -/
theorem unset_not_dumped (env : Env) (cls : String) (c : ClassSpec) (hc : env.class? cls = some c)
    (hn : namesOK c.fields = true) (sp : FieldSpec) (hsp : sp ∈ c.fields)
    (kvs : List (String × J)) (h1 : sp.key ∉ kvs.map (·.1)) (h2 : sp.py ∉ kvs.map (·.1))
    (m : PV) (hm : construct env cls (.obj kvs) = .ok m) :
    ∃ out, dump env m = .obj out ∧ sp.key ∉ out.map (·.1) := by
  unfold construct at hm
  by_cases hb : env.broken = true
  · simp [hb] at hm
  · simp only [hb, Bool.false_eq_true, if_false, validate, core, hc] at hm
    cases hdf : defaultFailure c.fields kvs with
    | some e => simp [hdf] at hm
    | none =>
    simp only [hdf] at hm
    cases hv : validateKvs env c.fields kvs kvs with
    | error e => simp [hv] at hm
    | ok vals =>
      simp only [hv] at hm
      cases hf : PydInput.finish c.fields vals with
      | error e => simp [hf] at hm
      | ok fields =>
        simp only [hf, Except.ok.injEq] at hm
        subst hm
        refine ⟨dumpFields env cls (vals.map (·.1)) fields, by simp [dump], ?_⟩
        intro hmem
        obtain ⟨py, hpy, hset, hk⟩ := dumpFields_keys env cls _ fields sp.key hmem
        obtain ⟨hkd, hpd, _⟩ := namesOK_parts hn
        rw [finish_pys c.fields vals fields hf] at hpy
        obtain ⟨sp', hsp', rfl⟩ := List.mem_map.mp hpy
        have hfind : c.fields.find? (fun f => f.py == sp'.py) = some sp' :=
          find_of_distinct (fun (x : FieldSpec) => x.py) c.fields hpd sp' hsp'
        have hal : aliasOf env cls sp'.py = sp'.key := by simp [aliasOf, hc, hfind]
        rw [hal] at hk
        have : sp = sp' := strDistinct_inj (fun (x : FieldSpec) => x.key) c.fields hkd sp hsp sp' hsp' hk
        subst this
        obtain ⟨sp'', hsp'', hpy'', hor⟩ := validateKvs_keys env c.fields kvs kvs vals hv sp.py hset
        have : sp'' = sp := strDistinct_inj (fun (x : FieldSpec) => x.py) c.fields hpd sp'' hsp'' sp hsp hpy''
        subst this
        rcases hor with h | h
        · exact h1 h
        · exact h2 h

end Ariadne.C06Defaults
