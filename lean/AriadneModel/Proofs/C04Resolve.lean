/-
  Proofs/C04Resolve.lean — the facts about a package that every per-module theorem of C04 starts from:
  `Facts` (the run behind the model's package: operations added, unique-name check passed, the steps returned, every
  written module on disk exactly once), how a relative import resolves against a written module, and what the copied
  files provide.
-/
import AriadneModel.Model.Package
import AriadneModel.Model.PackageTriggers
import AriadneModel.Model.PackageValid
import AriadneModel.Spec.PyScope
import AriadneModel.Proofs.C04Lists
import AriadneModel.Proofs.C04Errors
import AriadneModel.Proofs.C04Scope
import AriadneModel.Proofs.C04Disk
import AriadneModel.Proofs.C04Bound

set_option linter.unusedSimpArgs false
set_option linter.unusedVariables false

namespace Ariadne.C04Proofs
open Ariadne Ariadne.Util Ariadne.Package Ariadne.PackageTriggers Ariadne.PackageValid Ariadne.Spec.PyScope
open Ariadne.ResultTypes (GenErr)

/-! ### `normImport` on module names written without leading dots -/

theorem dots_noDot : ∀ cs : List Char, (cs.head? == some '.') = false →
    cs.takeWhile (· == '.') = [] ∧ cs.dropWhile (· == '.') = cs
  | [], _ => ⟨rfl, rfl⟩
  | c :: cs, h => by
    have hc : (c == '.') = false := by
      cases hcc : c == '.' with
      | false => rfl
      | true =>
        have : c = '.' := by simpa using hcc
        subst this; simp at h
    simp [List.takeWhile_cons, List.dropWhile_cons, hc]

theorem normImport_noDot (l : Nat) (m : String) (ns : List String) (h : leadingDot m = false) :
    normImport ⟨l, m, ns⟩ = ⟨l, m, ns⟩ := by
  unfold leadingDot at h
  obtain ⟨h1, h2⟩ := dots_noDot m.toList h
  unfold normImport
  simp only [h1, h2]
  simp

/-! ### what a module exports -/

theorem exported_generated {m : ModuleIR} (h : generated m = true) : exported m = some m.defines := by
  unfold generated at h
  unfold exported
  have h1 : (m.kind == .copied) = false := by
    cases hk : m.kind <;> simp_all
  have h2 : (m.kind == .custom) = false := by
    cases hk : m.kind <;> simp_all
  simp [h1, h2]

theorem class_mem_defines {m : ModuleIR} {c : ClassIR} (h : c ∈ m.classes) : c.name ∈ m.defines := by
  unfold ModuleIR.defines
  exact List.mem_append_right _ (List.mem_map.mpr ⟨c, h, rfl⟩)

theorem className_mem_defines {m : ModuleIR} {n : String} (h : n ∈ m.classes.map (·.name)) : n ∈ m.defines := by
  unfold ModuleIR.defines
  exact List.mem_append_right _ h

/-! ### the facts behind a package -/

/-- the run behind the model's package, with what `generate()` left on disk -/
structure Facts (cfg : Config) (inp : Input) (p : PackageIR) (st : St) (io : InputsOut)
    (fx : Option (Fragments.FragmentsOut × List Fragments.DefGen)) : Prop where
  ops : addOperations cfg inp Package.fuel {} inp.ops = .ok st
  unique : hasDup (checkedFileNames cfg (st.files.map (·.1))) = false
  inputs : inputsModule cfg inp.defs st.argSt.usedInputs = .ok io
  frags : FragRan id cfg inp Package.fuel st fx
  nodup : (p.modules.map (·.file)).Nodup
  has : ∀ m ∈ written cfg inp st io fx, m ∈ p.modules
  only : ∀ m ∈ p.modules, m ∈ written cfg inp st io fx

theorem facts_of_model {cfg : Config} {inp : Input} {p : PackageIR} (hp : modelIR cfg inp = some p)
    (hw : trigFileWrittenTwice p = false) : ∃ st io fx, Facts cfg inp p st io fx := by
  have hgen : generatePackage (fun _ => true) id cfg inp Package.fuel = .ok p := by
    unfold modelIR modelRun at hp
    unfold generatePackage
    cases ho : (runPackage (fun _ => true) id cfg inp).outcome with
    | error e1 => rw [ho] at hp; simp at hp
    | ok q => rw [ho] at hp; simp only [Option.some.injEq] at hp; rw [hp]
  unfold generatePackage at hgen
  rcases runPackage_cases (fun _ => true) id cfg inp Package.fuel with ⟨e1, _, hr⟩ | ⟨st, _, _, hr⟩ | ⟨st, g, e1, _, _, _, hr⟩ | ⟨st, g, ha, hd, hg, hr⟩
  · rw [hr] at hgen; simp at hgen
  · rw [hr] at hgen; simp at hgen
  · rw [hr] at hgen; simp at hgen
  · rw [hr] at hgen
    simp only [Except.ok.injEq] at hgen
    subst hgen
    obtain ⟨io, fx, hio, hfx, honly, hall⟩ := package_described hg
    have hn : g.log.Nodup := (hasDup_eq_false_iff _).mp hw
    obtain ⟨hhas, hnd⟩ := hall hn
    exact ⟨st, io, fx, ha, hd, hio, hfx, hnd, hhas, honly⟩

/-- a relative import resolves against a written module that exports the names -/
theorem Facts.resolves {cfg : Config} {inp : Input} {p : PackageIR} {st : St} {io : InputsOut}
    {fx : Option (Fragments.FragmentsOut × List Fragments.DefGen)} (F : Facts cfg inp p st io fx)
    {m' : ModuleIR} (hm' : m' ∈ written cfg inp st io fx) {j : Import} (hl : j.level = 1) (hf : m'.file = pyFile j.module)
    (hx : ∀ ns, exported m' = some ns → ∀ n ∈ j.names, n ∈ ns) : Resolves p j :=
  Or.inr ⟨hl, m', findModule_of_mem F.nodup (F.has _ hm') hf, hx⟩

/-! ### membership in `written` -/

section written
variable {cfg : Config} {inp : Input} {st : St} {io : InputsOut} {fx : Option (Fragments.FragmentsOut × List Fragments.DefGen)}

theorem inputs_mem_written : io.module ∈ written cfg inp st io fx := by simp [written]

theorem result_mem_written {fm : String × ModuleIR} (h : fm ∈ st.files) : fm.2 ∈ written cfg inp st io fx := by
  unfold written
  simp only [List.mem_append, List.mem_map]
  exact Or.inl (Or.inl (Or.inl (Or.inl (Or.inl (Or.inl (Or.inr ⟨fm, h, rfl⟩))))))

theorem fragments_mem_written {fo : Fragments.FragmentsOut} {gens : List Fragments.DefGen} (h : fx = some (fo, gens)) :
    fragmentsModuleIR cfg fo gens ∈ written cfg inp st io fx := by
  subst h
  simp [written, fragModules]

theorem copied_mem_written {f : String} (h : f ∈ copiedList cfg) : copiedModule cfg f ∈ written cfg inp st io fx := by
  unfold written
  simp only [List.mem_append, List.mem_map]
  exact Or.inl (Or.inl (Or.inl (Or.inl (Or.inr ⟨f, h, rfl⟩))))

theorem client_mem_written : clientModule cfg inp.schema st.entries st.argSt ∈ written cfg inp st io fx := by simp [written]

theorem enums_mem_written : enumsModule cfg inp.schema (finalUsedEnums st io fx) ∈ written cfg inp st io fx := by simp [written]

theorem init_mem_written : initModule (finalInit cfg inp st io (fragOut fx)) ∈ written cfg inp st io fx := by simp [written]

/-- which written module a module on disk is -/
theorem written_cases {m : ModuleIR} (h : m ∈ written cfg inp st io fx) :
    m = io.module ∨ (∃ fm ∈ st.files, m = fm.2) ∨ (∃ fo gens, fx = some (fo, gens) ∧ m = fragmentsModuleIR cfg fo gens) ∨
    m.kind = .copied ∨ m.kind = .custom ∨ m = clientModule cfg inp.schema st.entries st.argSt ∨
    m = enumsModule cfg inp.schema (finalUsedEnums st io fx) ∨ m = initModule (finalInit cfg inp st io (fragOut fx)) := by
  unfold written at h
  simp only [List.mem_append, List.mem_map, List.mem_singleton] at h
  rcases h with ((((((h | h) | h) | h) | h) | h) | h) | h
  · exact Or.inl h
  · obtain ⟨fm, hfm, rfl⟩ := h
    exact Or.inr (Or.inl ⟨fm, hfm, rfl⟩)
  · cases fx with
    | none => simp [fragModules] at h
    | some x =>
      obtain ⟨fo, gens⟩ := x
      simp only [fragModules, List.mem_singleton] at h
      exact Or.inr (Or.inr (Or.inl ⟨fo, gens, rfl, h⟩))
  · obtain ⟨f, _, rfl⟩ := h
    exact Or.inr (Or.inr (Or.inr (Or.inl rfl)))
  · obtain ⟨f, _, rfl⟩ := h
    exact Or.inr (Or.inr (Or.inr (Or.inr (Or.inl rfl))))
  · exact Or.inr (Or.inr (Or.inr (Or.inr (Or.inr (Or.inl h)))))
  · exact Or.inr (Or.inr (Or.inr (Or.inr (Or.inr (Or.inr (Or.inl h))))))
  · exact Or.inr (Or.inr (Or.inr (Or.inr (Or.inr (Or.inr (Or.inr h))))))

end written

theorem inputsModule_kind {cfg : Config} {defs : List InputGen.TypeDef} {used : List String} {io : InputsOut}
    (h : inputsModule cfg defs used = .ok io) : io.module.kind = .inputs := by
  unfold inputsModule at h
  split at h
  · simp at h
  · split at h
    · simp at h
    · simp only [Except.ok.injEq] at h
      subst h
      rfl

/-! ### the copied files -/

theorem baseModel_mem_copied (cfg : Config) : baseModelFile ∈ copiedList cfg := by simp [copiedList]

theorem baseClient_mem_copied (cfg : Config) : cfg.baseClientFile ∈ copiedList cfg := by simp [copiedList]

theorem exceptions_mem_copied {cfg : Config} (h : cfg.defaultBaseClient = true) : exceptionsFile ∈ copiedList cfg := by
  simp [copiedList, filesToCopy, h]

theorem baseOperation_mem_copied {cfg : Config} (h : cfg.customOps = true) : baseOperationFile ∈ copiedList cfg := by
  simp [copiedList, filesToCopy, h]

theorem exported_copied (cfg : Config) (f : String) : exported (copiedModule cfg f) = (copiedModule cfg f).provides := by
  simp [exported, copiedModule]

theorem provides_baseModel (cfg : Config) :
    (copiedModule cfg baseModelFile).provides = some ["BaseModel", Tables.uploadClassName, Tables.unsetName, "UnsetType"] := by
  simp [copiedModule]

theorem provides_exceptions (cfg : Config) : (copiedModule cfg exceptionsFile).provides = some Tables.exceptionsNames := by
  have : (exceptionsFile == baseModelFile) = false := by decide
  simp [copiedModule, this]

theorem provides_baseOperation (cfg : Config) : (copiedModule cfg baseOperationFile).provides = some ["GraphQLField"] := by
  have h1 : (baseOperationFile == baseModelFile) = false := by decide
  have h2 : (baseOperationFile == exceptionsFile) = false := by decide
  simp [copiedModule, h1, h2]

end Ariadne.C04Proofs
