/-
  Proofs/C04WitnessC.lean — kernel-evaluated facts about concrete inputs (`decide +kernel` through the whole package model):
  finding witnesses of `C04_full_false` and non-vacuity examples of Properties/C04.lean, restated there.
-/
import AriadneModel.Proofs.C04Defs

namespace Ariadne.C04.Witness
open Ariadne Ariadne.Gql Ariadne.Util Ariadne.Package Ariadne.PackageTriggers Ariadne.PackageValid Ariadne.Spec.PyScope Ariadne.C04

theorem F23_fails_in_model : Valid {} W.opsOverwritten ∧ ¬ Holds (modelRun {} W.opsOverwritten) ∧ ¬ Supported_04 {} W.opsOverwritten := by
  decide +kernel

theorem F24_fails_in_model : Valid {} W.enumDefault ∧ ¬ Holds (modelRun {} W.enumDefault) ∧ ¬ Supported_04 {} W.enumDefault := by
  decide +kernel

theorem mixin_on_fragment_refused_after_writes :
    (modelRun {} W.mixinOnFragment).written = ["input_types.py", "q.py"] ∧ (modelRun {} W.mixinOnFragment).mkdir = true ∧
    Holds (modelRun {} W.mixinOnFragment) := by
  decide +kernel

theorem ex5 : W.okNontrivial := by
  decide +kernel

end Ariadne.C04.Witness
