/-
  C16 — lemmas for `schema_roundtrip`: evaluating (Spec/PySchemaEval) what the generator model
  (Model/SchemaGen) emits gives the schema back, by induction over TypeRef wrappers, argument lists,
  field lists, name lists, the type list and the directive list.
-/
import AriadneModel.Model.SchemaWF

set_option linter.unusedSimpArgs false
set_option linter.unusedVariables false

namespace Ariadne.SchemaRoundtrip
open Ariadne.Schema Ariadne.SchemaGen Ariadne.PySchemaEval Ariadne.SchemaWF

/-! ### generic list / lookup facts -/

theorem alookup_mem {β : Type} (k : String) (v : β) : ∀ (l : List (String × β)), alookup k l = some v → (k, v) ∈ l
  | [], h => by simp [alookup] at h
  | (k', v') :: rest, h => by
    unfold alookup at h
    by_cases hk : k' = k
    · simp [hk] at h; subst h; subst hk; simp
    · simp [hk] at h; exact List.mem_cons_of_mem _ (alookup_mem k v rest h)

@[simp] theorem pure_ok {ε α : Type} (a : α) : (pure a : Except ε α) = Except.ok a := rfl

theorem and_true_split {a b : Bool} (h : (a && b) = true) : a = true ∧ b = true := by
  simpa using h

/-! ### environment facts the emitted code relies on -/

/-- name space while the thunks run and statement 2 is evaluated -/
structure EnvGood (ρ : Env) (tm : Name) : Prop where
  field : ρ "GraphQLField" = .builtin .field
  argument : ρ "GraphQLArgument" = .builtin .argument
  inputField : ρ "GraphQLInputField" = .builtin .inputField
  list : ρ "GraphQLList" = .builtin .list
  nonNull : ρ "GraphQLNonNull" = .builtin .nonNull
  cast : ρ "cast" = .builtin .cast
  tlist : ρ "List" = .builtin .typingList
  undefined : ρ "Undefined" = .builtin .undefined
  directive : ρ "GraphQLDirective" = .builtin .directive
  schema : ρ "GraphQLSchema" = .builtin .schema
  dirLoc : ρ "DirectiveLocation" = .builtin .directiveLocation
  std : ∀ n py, stdScalarPy n = some py → ρ py = .builtin (.std n)
  clsBound : ∀ k : Kind, ρ k.className ≠ .unbound
  tmAnn : ρ "TypeMap" ≠ .unbound
  tm : ρ tm = .typeMap

theorem callee_eq {ρ : Env} {fn : Name} {b : Binding} (h : ρ fn = b) (hb : b ≠ .unbound) : callee ρ fn = .ok b := by
  unfold callee
  rw [h]
  cases b with
  | unbound => exact absurd rfl hb
  | builtin x => rfl
  | typeMap => rfl

theorem callee_bound {ρ : Env} {fn : Name} (hb : ρ fn ≠ .unbound) : callee ρ fn = .ok (ρ fn) :=
  callee_eq rfl hb

/-! ### constants -/

theorem evalOptStr_gen (ρ : Env) (o : Option String) : evalOptStr ρ (genOptStr o) = .ok o := by
  cases o <;> rfl

theorem evalDefault_gen {ρ : Env} {tm : Name} (hρ : EnvGood ρ tm) (d : Default) : evalDefault ρ (genDefault d) = .ok d := by
  cases d with
  | undefined => simp [genDefault, evalDefault, hρ.undefined]
  | value v => rfl

/-! ### type references -/

theorem evalCast_gen {ρ : Env} {tm : Name} (hρ : EnvGood ρ tm) (hs : List (String × Head)) (n : Name) (k : Kind)
    (h : alookup n hs = some (k, n)) : evalCast ρ hs "cast" k.className tm n = .ok (k, n) := by
  unfold evalCast evalLookup
  rw [callee_eq hρ.cast (by simp), callee_bound (hρ.clsBound k), hρ.tm, h]
  rfl

theorem evalTRef_named {ρ : Env} {tm : Name} (hρ : EnvGood ρ tm) (hs : List (String × Head)) (n : Name) (k : Kind)
    (h : alookup n hs = some (k, n)) : evalTRef ρ hs (getNamedType tm n k) = .ok (.named n k) := by
  unfold getNamedType evalTRef
  rw [evalCast_gen hρ hs n k h]
  rfl

theorem evalTRef_gen {ρ : Env} {tm : Name} (hρ : EnvGood ρ tm) (hs : List (String × Head)) :
    ∀ (r : TypeRef), refOK hs r = true → evalTRef ρ hs (genFieldType tm r) = .ok r
  | .named n k, h => by
    unfold refOK at h
    cases k with
    | scalar =>
      cases hstd : stdScalarPy n with
      | some py =>
        have : genFieldType tm (.named n .scalar) = .name py := by simp [genFieldType, hstd]
        rw [this]
        simp [evalTRef, hρ.std n py hstd]
      | none =>
        have hg : genFieldType tm (.named n .scalar) = getNamedType tm n .scalar := by simp [genFieldType, hstd]
        rw [hg]
        have hl : alookup n hs = some (Kind.scalar, n) := by simpa [hstd] using h
        exact evalTRef_named hρ hs n .scalar hl
    | object =>
      have hl : alookup n hs = some (Kind.object, n) := by simpa using h
      exact evalTRef_named hρ hs n .object hl
    | interface =>
      have hl : alookup n hs = some (Kind.interface, n) := by simpa using h
      exact evalTRef_named hρ hs n .interface hl
    | union =>
      have hl : alookup n hs = some (Kind.union, n) := by simpa using h
      exact evalTRef_named hρ hs n .union hl
    | enum =>
      have hl : alookup n hs = some (Kind.enum, n) := by simpa using h
      exact evalTRef_named hρ hs n .enum hl
    | input =>
      have hl : alookup n hs = some (Kind.input, n) := by simpa using h
      exact evalTRef_named hρ hs n .input hl
  | .list t, h => by
    unfold refOK at h
    have ih := evalTRef_gen hρ hs t h
    simp [genFieldType, evalTRef, callee_eq hρ.list, ih]
  | .nonNull t, h => by
    unfold refOK at h
    have ⟨h1, h2⟩ := and_true_split h
    have ih := evalTRef_gen hρ hs t h2
    simp [genFieldType, evalTRef, callee_eq hρ.nonNull, ih]
    cases t with
    | nonNull _ => simp [TypeRef.isNonNull] at h1
    | named _ _ => rfl
    | list _ => rfl

/-! ### arguments and fields -/

theorem evalArg_gen {ρ : Env} {tm : Name} (hρ : EnvGood ρ tm) (hs : List (String × Head)) (ctor : Name) (expected : Builtin)
    (hc : ρ ctor = .builtin expected) (a : ArgDef) (h : argOK hs a = true) :
    evalArg ρ hs expected a.name (genArgWith ctor tm a) = .ok a := by
  unfold argOK at h
  have ⟨h12, h3⟩ := and_true_split h
  have ⟨h1, h2⟩ := and_true_split h12
  unfold evalArg genArgWith
  simp [callee_eq hc, evalTRef_gen hρ hs a.type h1, evalDefault_gen hρ, evalOptStr_gen, h2, require]

theorem evalArgItems_gen {ρ : Env} {tm : Name} (hρ : EnvGood ρ tm) (hs : List (String × Head)) (ctor : Name)
    (expected : Builtin) (hc : ρ ctor = .builtin expected) :
    ∀ (as : List ArgDef), (∀ a ∈ as, argOK hs a = true) →
      evalArgItems ρ hs expected (as.map fun a => (a.name, genArgWith ctor tm a)) = .ok as
  | [], _ => rfl
  | a :: rest, h => by
    have h1 := evalArg_gen hρ hs ctor expected hc a (h a (by simp))
    have h2 := evalArgItems_gen hρ hs ctor expected hc rest (fun x hx => h x (by simp [hx]))
    simp [evalArgItems, h1, h2]

theorem checkKeys_ok (keys : List String) (h1 : nodupB keys = true) (h2 : keys.all validName = true) :
    checkKeys keys = .ok () := by
  unfold checkKeys
  simp only [h1, h2, require_true, bind_ok]

theorem evalArgs_gen {ρ : Env} {tm : Name} (hρ : EnvGood ρ tm) (hs : List (String × Head)) (ctor : Name)
    (expected : Builtin) (hc : ρ ctor = .builtin expected) (as : List ArgDef) (h : argsOK hs as = true) :
    evalArgs ρ hs expected (as.map fun a => (a.name, genArgWith ctor tm a)) = .ok as := by
  unfold argsOK at h
  have ⟨h12, h3⟩ := and_true_split h
  have ⟨h1, h2⟩ := and_true_split h12
  have hall : ∀ a ∈ as, argOK hs a = true := by simpa using h3
  unfold evalArgs
  have hk : (as.map fun a => (a.name, genArgWith ctor tm a)).map (·.1) = as.map (·.name) := by
    simp [List.map_map, Function.comp_def]
  rw [evalArgItems_gen hρ hs ctor expected hc as hall, hk]
  simp [checkKeys_ok _ h1 h2]

theorem evalField_gen {ρ : Env} {tm : Name} (hρ : EnvGood ρ tm) (hs : List (String × Head)) (f : FieldDef)
    (h : fieldOK hs f = true) : evalField ρ hs f.name (genField tm f) = .ok f := by
  unfold fieldOK at h
  have ⟨h12, h3⟩ := and_true_split h
  have ⟨h1, h2⟩ := and_true_split h12
  unfold evalField genField genArgs
  simp [callee_eq hρ.field, evalTRef_gen hρ hs f.type h1, evalArgs_gen hρ hs "GraphQLArgument" .argument hρ.argument f.args h3,
    evalOptStr_gen, h2, require]

theorem evalFieldItems_gen {ρ : Env} {tm : Name} (hρ : EnvGood ρ tm) (hs : List (String × Head)) :
    ∀ (fs : List FieldDef), (∀ f ∈ fs, fieldOK hs f = true) →
      evalFieldItems ρ hs (fs.map fun f => (f.name, genField tm f)) = .ok fs
  | [], _ => rfl
  | f :: rest, h => by
    have h1 := evalField_gen hρ hs f (h f (by simp))
    have h2 := evalFieldItems_gen hρ hs rest (fun x hx => h x (by simp [hx]))
    simp [evalFieldItems, h1, h2]

theorem evalFields_gen {ρ : Env} {tm : Name} (hρ : EnvGood ρ tm) (hs : List (String × Head)) (fs : List FieldDef)
    (h : fieldsOK hs fs = true) : evalFields ρ hs (genFieldMap tm fs) = .ok fs := by
  unfold fieldsOK at h
  have ⟨h12, h3⟩ := and_true_split h
  have ⟨h1, h2⟩ := and_true_split h12
  have hall : ∀ f ∈ fs, fieldOK hs f = true := by simpa using h3
  cases fs with
  | nil => rfl
  | cons f rest =>
    have hk : ((f :: rest).map fun f => (f.name, genField tm f)).map (·.1) = (f :: rest).map (·.name) := by
      simp [List.map_map, Function.comp_def]
    show evalFields ρ hs (.thunk ((f :: rest).map fun f => (f.name, genField tm f))) = _
    simp only [evalFields]
    rw [evalFieldItems_gen hρ hs (f :: rest) hall, hk]
    simp only [bind_ok]
    rw [checkKeys_ok _ h1 h2]
    rfl

theorem evalInFields_gen {ρ : Env} {tm : Name} (hρ : EnvGood ρ tm) (hs : List (String × Head)) (fs : List ArgDef)
    (h : argsOK hs fs = true) : evalInFields ρ hs (genInputFieldMap tm fs) = .ok fs := by
  cases fs with
  | nil => rfl
  | cons f rest =>
    show evalInFields ρ hs (.thunk ((f :: rest).map fun a => (a.name, genArgWith "GraphQLInputField" tm a))) = _
    unfold evalInFields
    exact evalArgs_gen hρ hs "GraphQLInputField" .inputField hρ.inputField (f :: rest) h

/-! ### lists of named types (interfaces, union members) -/

theorem evalLookups_gen {ρ : Env} {tm : Name} (hρ : EnvGood ρ tm) (hs : List (String × Head)) (want : Kind) :
    ∀ (ns : List Name), namesOK hs want ns = true → evalLookups ρ hs tm ns = .ok (ns.map fun n => (want, n))
  | [], _ => rfl
  | n :: rest, h => by
    unfold namesOK at h
    have h' : (alookup n hs == some (want, n)) = true ∧ namesOK hs want rest = true := by
      simpa [namesOK] using h
    have hl : alookup n hs = some (want, n) := by simpa using h'.1
    have ih := evalLookups_gen hρ hs want rest h'.2
    simp [evalLookups, evalLookup, hρ.tm, hl, ih]

theorem evalNames_gen {ρ : Env} {tm : Name} (hρ : EnvGood ρ tm) (hs : List (String × Head)) (want : Kind) (cls : Name)
    (hcls : ρ cls ≠ .unbound)
    (ns : List Name) (h : namesOK hs want ns = true) : evalNames ρ hs want (genNames tm cls ns) = .ok ns := by
  cases ns with
  | nil => rfl
  | cons n rest =>
    show evalNames ρ hs want (.thunk "cast" "List" cls tm (n :: rest)) = _
    simp only [evalNames]
    rw [callee_eq hρ.cast (by simp), callee_eq hρ.tlist (by simp), callee_bound hcls,
      evalLookups_gen hρ hs want (n :: rest) h]
    simp [require, List.map_map, Function.comp_def]

/-! ### statement 1: constructing the named types -/

/-- name space while statement 1 is evaluated (imports only) -/
structure Env1Good (ρ : Env) : Prop where
  scalarT : ρ "GraphQLScalarType" = .builtin .scalarT
  objectT : ρ "GraphQLObjectType" = .builtin .objectT
  interfaceT : ρ "GraphQLInterfaceType" = .builtin .interfaceT
  unionT : ρ "GraphQLUnionType" = .builtin .unionT
  enumT : ρ "GraphQLEnumType" = .builtin .enumT
  inputT : ρ "GraphQLInputObjectType" = .builtin .inputT
  enumValue : ρ "GraphQLEnumValue" = .builtin .enumValue

/-- the type object statement 1 stores for `t`: eager attributes + the emitted thunks -/
def objOf (tm : Name) : TypeDef → TypeObj
  | .scalar n d u => .scalar n d u
  | .object n d is fs => .composite false n d (genNames tm "GraphQLInterfaceType" is) (genFieldMap tm fs)
  | .interface n d is fs => .composite true n d (genNames tm "GraphQLInterfaceType" is) (genFieldMap tm fs)
  | .union n d ms => .union n d (genNames tm "GraphQLObjectType" ms)
  | .enum n d vs => .enum n d vs
  | .input n d fs _ => .input n d (genInputFieldMap tm fs)

/-- what the emitted module can reproduce of `t`: everything except `is_one_of` -/
def clearOneOf : TypeDef → TypeDef
  | .input n d fs _ => .input n d fs false
  | t => t

theorem objOf_head (tm : Name) (t : TypeDef) : (objOf tm t).head = (t.kind, t.name) := by
  cases t <;> rfl

theorem clearOneOf_name (t : TypeDef) : (clearOneOf t).name = t.name := by
  cases t <;> rfl

theorem clearOneOf_of_not (t : TypeDef) (h : isOneOf t = false) : clearOneOf t = t := by
  cases t <;> simp [clearOneOf, isOneOf] at h ⊢
  exact h

theorem checkTypeName_ok (n : Name) (h1 : Tables.gqlReservedTypes.contains n = false) (h2 : validName n = true) :
    checkTypeName n = .ok () := by
  unfold checkTypeName
  simp only [h1, h2, Bool.not_false, require_true, bind_ok]

theorem evalEnumValues_gen (ρ : Env) (hρ : ρ "GraphQLEnumValue" = .builtin .enumValue) :
    ∀ (vs : List EnumValDef), evalEnumValues ρ (genEnumValues vs) = .ok vs
  | [] => rfl
  | v :: rest => by
    have ih := evalEnumValues_gen ρ hρ rest
    have h1 : evalEnumValue ρ v.name (genEnumValue v) = .ok v := by
      simp [evalEnumValue, genEnumValue, callee_eq hρ, evalAny, evalOptStr_gen, require]
    show evalEnumValues ρ ((v.name, genEnumValue v) :: genEnumValues rest) = _
    simp only [evalEnumValues, h1, ih, bind_ok]
    rfl

theorem typeNameOK_split (t : TypeDef) (h : typeNameOK t = true) :
    Tables.schemaStandardTypes.contains t.name = false ∧ Tables.gqlReservedTypes.contains t.name = false ∧
      validName t.name = true := by
  unfold typeNameOK at h
  have ⟨h12, h3⟩ := and_true_split h
  have ⟨h1, h2⟩ := and_true_split h12
  exact ⟨by simpa using h1, by simpa using h2, h3⟩

theorem construct_gen {ρ : Env} (hρ : Env1Good ρ) (tm : Name) (hs : List (String × Head)) (t : TypeDef)
    (hn : typeNameOK t = true) (ht : typeOK hs t = true) : construct ρ (genType tm t) = .ok (objOf tm t) := by
  have ⟨_, hres, hval⟩ := typeNameOK_split t hn
  cases t with
  | scalar n d u =>
    simp only [TypeDef.name] at hres hval
    simp [genType, construct, callee_eq hρ.scalarT, evalNameStr, evalOptStr_gen, require, checkTypeName_ok n hres hval, objOf]
  | object n d is fs =>
    simp only [TypeDef.name] at hres hval
    simp [genType, construct, callee_eq hρ.objectT, evalNameStr, evalOptStr_gen, require, checkTypeName_ok n hres hval, objOf]
  | interface n d is fs =>
    simp only [TypeDef.name] at hres hval
    simp [genType, construct, callee_eq hρ.interfaceT, evalNameStr, evalOptStr_gen, require, checkTypeName_ok n hres hval, objOf]
  | union n d ms =>
    simp only [TypeDef.name] at hres hval
    simp [genType, construct, callee_eq hρ.unionT, evalNameStr, evalOptStr_gen, require, checkTypeName_ok n hres hval, objOf]
  | enum n d vs =>
    simp only [TypeDef.name] at hres hval
    unfold typeOK at ht
    have ⟨h12, _⟩ := and_true_split ht
    have ⟨h1, h2⟩ := and_true_split h12
    have hk : (genEnumValues vs).map (·.1) = vs.map (·.name) := by
      simp [genEnumValues, List.map_map, Function.comp_def]
    simp [genType, construct, callee_eq hρ.enumT, evalNameStr, evalOptStr_gen, require, checkTypeName_ok n hres hval, objOf,
      evalEnumValues_gen ρ hρ.enumValue vs, hk, h1, h2]
  | input n d fs o =>
    simp only [TypeDef.name] at hres hval
    simp [genType, construct, callee_eq hρ.inputT, evalNameStr, evalOptStr_gen, require, checkTypeName_ok n hres hval, objOf]

theorem constructAll_gen {ρ : Env} (hρ : Env1Good ρ) (tm : Name) (hs : List (String × Head)) :
    ∀ (ts : List TypeDef), (∀ t ∈ ts, typeNameOK t = true) → (∀ t ∈ ts, typeOK hs t = true) →
      constructAll ρ (ts.map fun t => (t.name, genType tm t)) = .ok (ts.map fun t => (t.name, objOf tm t))
  | [], _, _ => rfl
  | t :: rest, hn, ht => by
    have h1 := construct_gen hρ tm hs t (hn t (by simp)) (ht t (by simp))
    have h2 := constructAll_gen hρ tm hs rest (fun x hx => hn x (by simp [hx])) (fun x hx => ht x (by simp [hx]))
    simp [constructAll, h1, h2]

theorem genTypeMap_eq (tm : Name) (ts : List TypeDef) (hn : ∀ t ∈ ts, typeNameOK t = true) :
    genTypeMap tm ts = ts.map fun t => (t.name, genType tm t) := by
  unfold genTypeMap
  have : ts.filter (fun t => !(Tables.schemaStandardTypes.contains t.name)) = ts := by
    apply List.filter_eq_self.mpr
    intro t ht
    have := (typeNameOK_split t (hn t ht)).1
    simpa using this
  rw [this]

theorem headsOf_objs (tm : Name) (ts : List TypeDef) :
    headsOf (ts.map fun t => (t.name, objOf tm t)) = headsS ts := by
  unfold headsOf headsS
  simp [List.map_map, Function.comp_def, objOf_head]

/-! ### statement 2: forcing the thunks, directives, roots -/

theorem force_gen {ρ : Env} {tm : Name} (hρ : EnvGood ρ tm) (hs : List (String × Head)) (t : TypeDef)
    (ht : typeOK hs t = true) : force ρ hs (objOf tm t) = .ok (clearOneOf t) := by
  cases t with
  | scalar n d u => rfl
  | object n d is fs =>
    unfold typeOK at ht
    have ⟨h1, h2⟩ := and_true_split ht
    simp [objOf, force, evalNames_gen hρ hs .interface "GraphQLInterfaceType" (hρ.clsBound .interface) is h1,
      evalFields_gen hρ hs fs h2, wrapThunk, clearOneOf]
  | interface n d is fs =>
    unfold typeOK at ht
    have ⟨h1, h2⟩ := and_true_split ht
    simp [objOf, force, evalNames_gen hρ hs .interface "GraphQLInterfaceType" (hρ.clsBound .interface) is h1,
      evalFields_gen hρ hs fs h2, wrapThunk, clearOneOf]
  | union n d ms =>
    unfold typeOK at ht
    simp [objOf, force, evalNames_gen hρ hs .object "GraphQLObjectType" (hρ.clsBound .object) ms ht, wrapThunk, clearOneOf]
  | enum n d vs => rfl
  | input n d fs o =>
    unfold typeOK at ht
    simp [objOf, force, evalInFields_gen hρ hs fs ht, wrapThunk, clearOneOf]

theorem forceAll_gen {ρ : Env} {tm : Name} (hρ : EnvGood ρ tm) (hs : List (String × Head)) :
    ∀ (ts : List TypeDef), (∀ t ∈ ts, typeOK hs t = true) →
      forceAll ρ hs (ts.map fun t => (t.name, objOf tm t)) = .ok (ts.map clearOneOf)
  | [], _ => rfl
  | t :: rest, ht => by
    have h1 := force_gen hρ hs t (ht t (by simp))
    have h2 := forceAll_gen hρ hs rest (fun x hx => ht x (by simp [hx]))
    simp [forceAll, h1, h2]

theorem evalLocations_gen {ρ : Env} (hρ : ρ "DirectiveLocation" = .builtin .directiveLocation) :
    ∀ (ls : List String), (ls.all fun l => Tables.gqlDirectiveLocations.contains l) = true →
      evalLocations ρ (ls.map fun l => ("DirectiveLocation", l)) = .ok ls
  | [], _ => rfl
  | l :: rest, h => by
    have h' : Tables.gqlDirectiveLocations.contains l = true ∧
        (rest.all fun l => Tables.gqlDirectiveLocations.contains l) = true := by simpa using h
    have ih := evalLocations_gen hρ rest h'.2
    simp only [List.map_cons, evalLocations, callee_eq hρ (by simp), bind_ok, h'.1, require_true, ih]
    simp [require]

theorem evalDirective_gen {ρ : Env} {tm : Name} (hρ : EnvGood ρ tm) (hs : List (String × Head)) (d : DirectiveDef)
    (h : directiveOK hs d = true) : evalDirective ρ hs (genDirective tm d) = .ok d := by
  unfold directiveOK at h
  have ⟨h12, h3⟩ := and_true_split h
  have ⟨h1, h2⟩ := and_true_split h12
  have hl := evalLocations_gen hρ.dirLoc d.locations h2
  obtain ⟨dn, dd, dr, dl, da⟩ := d
  simp only at h1 h3 hl
  cases da with
  | nil =>
    simp [genDirective, evalDirective, callee_eq hρ.directive, evalNameStr, evalOptStr_gen, evalBool, hl, require, h1]
  | cons a rest =>
    have ha := evalArgs_gen hρ hs "GraphQLArgument" .argument hρ.argument (a :: rest) h3
    simp [genDirective, evalDirective, callee_eq hρ.directive, evalNameStr, evalOptStr_gen, evalBool, hl, require, h1, genArgs]
    simp at ha
    simp [ha]

theorem evalDirectives_gen {ρ : Env} {tm : Name} (hρ : EnvGood ρ tm) (hs : List (String × Head)) :
    ∀ (ds : List DirectiveDef), (∀ d ∈ ds, directiveOK hs d = true) →
      evalDirectives ρ hs (ds.map (genDirective tm)) = .ok ds
  | [], _ => rfl
  | d :: rest, h => by
    have h1 := evalDirective_gen hρ hs d (h d (by simp))
    have h2 := evalDirectives_gen hρ hs rest (fun x hx => h x (by simp [hx]))
    simp [evalDirectives, h1, h2]

theorem evalRoot_gen {ρ : Env} {tm : Name} (hρ : EnvGood ρ tm) (hs : List (String × Head)) (r : Option (Name × Kind))
    (h : rootOK hs r = true) : evalRoot ρ hs (genRoot tm r) = .ok r := by
  cases r with
  | none => rfl
  | some p =>
    obtain ⟨n, k⟩ := p
    have hl : alookup n hs = some (k, n) := by simpa [rootOK] using h
    simp [genRoot, evalRoot, evalCast_gen hρ hs n k hl]

end Ariadne.SchemaRoundtrip
