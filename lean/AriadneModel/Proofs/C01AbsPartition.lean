/-
  Proofs/C01AbsPartition.lean — property C01, abstract positions: the `typename__` literals of the classes generated for
  ONE interface position with inline fragments on object types, resp. ONE union position, PARTITION the possible runtime
  types: the class of an inline fragment on `c` gets `Literal["c"]`, every union member `m` gets `Literal["m"]`, the base
  class of the interface gets the interface's own name plus "the rest" (the possible types no inline fragment names).
-/
import AriadneModel.Proofs.C01AbsVal

set_option linter.unusedSimpArgs false
set_option linter.unusedVariables false

namespace Ariadne.C01Abs
open Ariadne Ariadne.Gql Ariadne.ResultTypes Ariadne.Util Ariadne.C01Plain

theorem mem_dedup (a : String) : ∀ l : List String, a ∈ dedup l ↔ a ∈ l
  | [] => by simp [dedup]
  | x :: xs => by
    have ih := mem_dedup a xs
    simp only [dedup, List.mem_cons, List.mem_filter, ih]
    constructor
    · rintro (h | h)
      · exact Or.inl h
      · exact Or.inr h.1
    · rintro (h | h)
      · exact Or.inl h
      · by_cases e : a = x
        · exact Or.inl e
        · exact Or.inr ⟨h, by simpa using e⟩

theorem mem_sortedSet (a : String) (l : List String) : a ∈ sortedSet l ↔ a ∈ l := by
  unfold sortedSet
  rw [mem_sortStr, mem_dedup]

/-- the typename values at an interface position `n` with inline fragments: `conds` = `sortedSet` of their type conditions,
    all of them OBJECT types -/
theorem interface_literals (env : ResultTypes.Env) (C n : String) (sub : List Selection)
    (hk : env.schema.kindOf? n = some .interface) (hne : (inlConds sub).isEmpty = false)
    (hobj : ∀ c ∈ inlConds sub, env.schema.kindOf? c = some .object) :
    let rel := relatedOf env C n sub
    rel = (C ++ n, n) :: (sortedSet (inlConds sub)).map (fun c => (C ++ c, c)) ∧
    tvOf env rel n = n :: dedup ((env.schema.possibleTypes n).filter fun p => !(n :: sortedSet (inlConds sub)).contains p) ∧
    ∀ c ∈ sortedSet (inlConds sub), tvOf env rel c = [c] := by
  have hrel : relatedOf env C n sub = (C ++ n, n) :: (sortedSet (inlConds sub)).map (fun c => (C ++ c, c)) := by
    simp [relatedOf, hk, hne]
  have habs : env.schema.isAbstract n = true := by simp [Schema.isAbstract, hk]
  have hnames : (relatedOf env C n sub).map (·.2) = n :: sortedSet (inlConds sub) := by
    rw [hrel]; simp [List.map_map, Function.comp_def]
  have hcn : ∀ c ∈ sortedSet (inlConds sub), (c == n) = false := by
    intro c hc
    have := hobj c ((mem_sortedSet c _).mp hc)
    cases h : c == n with
    | false => rfl
    | true =>
      have : c = n := by simpa using h
      subst this
      rw [hk] at this; cases this
  refine ⟨hrel, ?_, ?_⟩
  · unfold tvOf typenameValues
    simp only [hnames, List.find?_cons, habs, List.map_cons, beq_self_eq_true, if_true, Option.map_some, Option.getD_some]
    rfl
  · intro c hc
    unfold tvOf typenameValues
    simp only [hnames, List.find?_cons, habs, List.map_cons, beq_self_eq_true, if_true]
    have hnc : (n == c) = false := by
      have := hcn c hc
      cases h : n == c with
      | false => rfl
      | true =>
        have e : n = c := by simpa using h
        rw [e] at this; simp at this
    simp only [hnc, Bool.false_eq_true, if_false]
    -- among the fragment entries, the first with key `c` is `(c, [c])`, not extended (`c ≠ n`)
    suffices H : ∀ (l : List String), c ∈ l → (∀ x ∈ l, (x == n) = false) →
        ((l.map (fun x => (x, [x]))).map (fun (p : String × List String) =>
          if p.1 == n then (p.1, p.2 ++ dedup ((env.schema.possibleTypes n).filter fun p => !(n :: sortedSet (inlConds sub)).contains p))
          else (p.1, p.2))).find? (fun p => p.1 == c) = some (c, [c]) by
      have := H (sortedSet (inlConds sub)) hc hcn
      simp only [this, Option.map_some, Option.getD_some]
    intro l
    induction l with
    | nil => intro h; cases h
    | cons x xs ih =>
      intro hmem hall
      have hx := hall x List.mem_cons_self
      simp only [List.map_cons, hx, Bool.false_eq_true, if_false, List.find?_cons]
      by_cases hxc : (x == c) = true
      · have : x = c := by simpa using hxc
        subst this
        simp
      · simp only [hxc]
        rcases List.mem_cons.mp hmem with rfl | h
        · simp at hxc
        · exact ih h (fun y hy => hall y (List.mem_cons_of_mem _ hy))

/-- **partition at an interface position**: a possible type `rt` of the interface is in the literal of EXACTLY ONE variant —
    of the fragment class on `rt` if some inline fragment names it, of the base class otherwise ("the rest") -/
theorem interface_literals_partition (env : ResultTypes.Env) (C n : String) (sub : List Selection)
    (hk : env.schema.kindOf? n = some .interface) (hne : (inlConds sub).isEmpty = false)
    (hobj : ∀ c ∈ inlConds sub, env.schema.kindOf? c = some .object)
    (rt : String) (hrt : rt ∈ env.schema.possibleTypes n) (hrn : rt ≠ n) :
    let rel := relatedOf env C n sub
    (rt ∈ tvOf env rel n ↔ rt ∉ inlConds sub) ∧
    (∀ c ∈ sortedSet (inlConds sub), (rt ∈ tvOf env rel c ↔ rt = c)) := by
  obtain ⟨_, hbase, hfrag⟩ := interface_literals env C n sub hk hne hobj
  simp only at hbase hfrag ⊢
  constructor
  · rw [hbase]
    simp only [List.mem_cons, hrn, false_or, mem_dedup, List.mem_filter, hrt, true_and, Bool.not_eq_true',
      List.contains_eq_mem, decide_eq_false_iff_not, not_or, mem_sortedSet]
  · intro c hc
    rw [hfrag c hc]
    simp

/-- **partition at a union position**: member `m` gets the literal `["m"]` (members pairwise distinct, all object types) -/
theorem union_literals (env : ResultTypes.Env) (C n : String) (sub : List Selection) (t : TypeDef)
    (hg : env.schema.get? n = some t) (hk : t.kind = .union)
    (hobj : ∀ m ∈ t.members, env.schema.isAbstract m = false) :
    let rel := relatedOf env C n sub
    rel = t.members.map (fun m => (C ++ m, m)) ∧ ∀ m ∈ t.members, tvOf env rel m = [m] := by
  have hkind : env.schema.kindOf? n = some .union := by simp [Schema.kindOf?, hg, hk]
  have hrel : relatedOf env C n sub = t.members.map (fun m => (C ++ m, m)) := by
    simp [relatedOf, hkind, hg]
  have hnames : (relatedOf env C n sub).map (·.2) = t.members := by
    rw [hrel]; simp [List.map_map, Function.comp_def]
  have hnone : t.members.find? env.schema.isAbstract = none := by
    rw [List.find?_eq_none]
    intro m hm
    simp [hobj m hm]
  refine ⟨hrel, ?_⟩
  intro m hm
  unfold tvOf typenameValues
  simp only [hnames, hnone]
  suffices H : ∀ (l : List String), m ∈ l → (l.map (fun x => (x, [x]))).find? (fun p => p.1 == m) = some (m, [m]) by
    simp only [H t.members hm, Option.map_some, Option.getD_some]
  intro l
  induction l with
  | nil => intro h; cases h
  | cons x xs ih =>
    intro hmem
    simp only [List.map_cons, List.find?_cons]
    by_cases hxc : (x == m) = true
    · have : x = m := by simpa using hxc
      subst this
      simp
    · simp only [hxc]
      rcases List.mem_cons.mp hmem with rfl | h
      · simp at hxc
      · exact ih h

end Ariadne.C01Abs
