/-
  C15, whole-pipeline statement for plugin lists made of ShorterResults and plugins that leave the client
  module alone (identity plugin, NoReimports): the run of the generator with such a list, compared hook call by
  hook call with the unplugged run.

  ShorterResults is a state machine over the WHOLE generation run: its hooks `generate_result_class`,
  `generate_result_types_module`, `generate_fragments_module` only record (`bookStep`), its hook
  `generate_client_module` rewrites the assembled client module with what was recorded.  Every other hook
  call of the run hands on what it was handed, so the generator's own bookkeeping (`record`) is the same as
  without plugins, and the module handed to `generate_client_module` is the unplugged client module.
-/
import AriadneModel.Proofs.C15
import AriadneModel.Model.PluginFindings

set_option linter.unusedSimpArgs false
set_option linter.unusedVariables false

namespace Ariadne.C15
open Ariadne Ariadne.Py Ariadne.Plugins Ariadne.ClientSem

/-! ### ShorterResults' recording hooks -/

/-- what one hook call of the run does to the plugin object outside `generate_client_module` -/
def bookStep (st : ShorterState) (e : Event) : ShorterState :=
  if e.call.hook == "generate_client_module" then st
  else match shorterStep e.call st e.payload with
    | .ok r => r.1
    | .error _ => st

theorem shorterFacts_eq (fm : String) (evs : List Event) :
    shorterFacts fm evs = evs.foldl bookStep { fragmentsModuleName := fm } := rfl

theorem shorterStep_noncm (c : Call) (hc : c.hook ≠ "generate_client_module") (st : ShorterState) (x : Payload) :
    ∃ st', shorterStep c st x = .ok (st', x) := by
  unfold shorterStep
  split
  all_goals first | exact ⟨_, rfl⟩ | (exfalso; simp_all)

theorem shorterStep_other (c : Call) (st : ShorterState) (x : Payload)
    (h1 : c.hook ≠ "generate_result_types_module") (h2 : c.hook ≠ "generate_result_class")
    (h3 : c.hook ≠ "generate_fragments_module") (h4 : c.hook ≠ "generate_client_module") :
    shorterStep c st x = .ok (st, x) := by
  unfold shorterStep
  split <;> simp_all [pure_eq_ok]

theorem inputFor_other (P : PipeState) (e : Event) (h1 : e.call.hook ≠ "generate_client_class")
    (h2 : e.call.hook ≠ "generate_client_module") (h3 : e.call.hook ≠ "generate_init_module") :
    inputFor P e = e.payload := by
  unfold inputFor
  split <;> simp_all

/-- outside `generate_client_module` the plugin returns what it is handed and its new state is `bookStep` -/
theorem shorterStep_inputFor (P : PipeState) (e : Event) (hc : e.call.hook ≠ "generate_client_module") (st : ShorterState) :
    shorterStep e.call st (inputFor P e) = .ok (bookStep st e, inputFor P e) := by
  have hb : (e.call.hook == "generate_client_module") = false := by simpa using hc
  by_cases h1 : e.call.hook = "generate_result_types_module"
  · have hin : inputFor P e = e.payload := inputFor_other P e (by rw [h1]; decide) hc (by rw [h1]; decide)
    obtain ⟨st', hs⟩ := shorterStep_noncm e.call hc st e.payload
    rw [hin]; unfold bookStep; simp only [hb, hs]; rfl
  · by_cases h2 : e.call.hook = "generate_result_class"
    · have hin : inputFor P e = e.payload := inputFor_other P e (by rw [h2]; decide) hc (by rw [h2]; decide)
      obtain ⟨st', hs⟩ := shorterStep_noncm e.call hc st e.payload
      rw [hin]; unfold bookStep; simp only [hb, hs]; rfl
    · by_cases h3 : e.call.hook = "generate_fragments_module"
      · have hin : inputFor P e = e.payload := inputFor_other P e (by rw [h3]; decide) hc (by rw [h3]; decide)
        obtain ⟨st', hs⟩ := shorterStep_noncm e.call hc st e.payload
        rw [hin]; unfold bookStep; simp only [hb, hs]; rfl
      · rw [shorterStep_other e.call st _ h1 h2 h3 hc]
        unfold bookStep
        simp only [hb, shorterStep_other e.call st _ h1 h2 h3 hc]
        rfl

/-! ### the plugin manager on `inert ++ [ShorterResults] ++ inert` -/

def QuietWith (st : ShorterState) (ps : List PState) : Prop :=
  ∃ a b, ps = a ++ .shorter st :: b ∧ Inert a ∧ Inert b

theorem quiet_manager (c : Call) (a b : List PState) (ha : Inert a) (hb : Inert b) (st : ShorterState) (x : Payload) :
    ∃ xa, applyAll PState.step c a x = .ok (a, xa) ∧ (c.hook ≠ "generate_init_module" → xa = x) ∧
      manager c (a ++ .shorter st :: b) x =
        (shorterStep c st xa >>= fun r =>
          applyAll PState.step c b r.2 >>= fun rb => pure (a ++ .shorter r.1 :: rb.1, rb.2)) := by
  obtain ⟨xa, hxa, hxa2⟩ := inert_manager c a ha x
  refine ⟨xa, hxa, hxa2, ?_⟩
  unfold manager
  rw [applyAll_append, hxa]
  simp only [bind_ok]
  rw [applyAll_cons]
  cases hs : shorterStep c st xa with
  | error e =>
    have : PState.step c (.shorter st) xa = .error e := by simp [PState.step, hs, bind, Except.bind]
    rw [this]; rfl
  | ok r =>
    have : PState.step c (.shorter st) xa = .ok (.shorter r.1, r.2) := by
      simp [PState.step, hs, bind, Except.bind, pure, Except.pure]
    rw [this]
    simp only [bind_ok, pure_eq_ok]
    cases applyAll PState.step c b r.2 with
    | error e => rfl
    | ok rb => rfl

/-- every hook but `generate_client_module` / `generate_init_module`: the object comes back unchanged -/
theorem quiet_manager_other (c : Call) (hc1 : c.hook ≠ "generate_client_module") (hc2 : c.hook ≠ "generate_init_module")
    (a b : List PState) (ha : Inert a) (hb : Inert b) (st st' : ShorterState) (x : Payload)
    (hs : shorterStep c st x = .ok (st', x)) :
    manager c (a ++ .shorter st :: b) x = .ok (a ++ .shorter st' :: b, x) := by
  obtain ⟨xa, _, hxa2, hm⟩ := quiet_manager c a b ha hb st x
  have := hxa2 hc2
  subst this
  rw [hm, hs]
  simp only [bind_ok]
  obtain ⟨y, hy, hy2⟩ := inert_manager c b hb xa
  rw [hy, hy2 hc2]
  rfl

/-- `generate_init_module`: no exception, the ShorterResults object is not touched -/
theorem quiet_manager_init (c : Call) (hc : c.hook = "generate_init_module")
    (a b : List PState) (ha : Inert a) (hb : Inert b) (st : ShorterState) (x : Payload) :
    ∃ y, manager c (a ++ .shorter st :: b) x = .ok (a ++ .shorter st :: b, y) := by
  obtain ⟨xa, _, _, hm⟩ := quiet_manager c a b ha hb st x
  have hs : shorterStep c st xa = .ok (st, xa) :=
    shorterStep_other c st xa (by rw [hc]; decide) (by rw [hc]; decide) (by rw [hc]; decide) (by rw [hc]; decide)
  obtain ⟨y, hy, _⟩ := inert_manager c b hb xa
  refine ⟨y, ?_⟩
  rw [hm, hs]
  simp only [bind_ok]
  rw [hy]
  rfl

/-- `generate_client_module` on a module: exactly ShorterResults' rewrite (or its exception) -/
theorem quiet_manager_cm (c : Call) (hc : c.hook = "generate_client_module")
    (a b : List PState) (ha : Inert a) (hb : Inert b) (st : ShorterState) (M : Module) :
    manager c (a ++ .shorter st :: b) (.module M) =
      (shorterClientModule st M >>= fun r => pure (a ++ .shorter r.1 :: b, .module r.2)) := by
  have hni : c.hook ≠ "generate_init_module" := by rw [hc]; decide
  obtain ⟨xa, _, hxa2, hm⟩ := quiet_manager c a b ha hb st (.module M)
  have := hxa2 hni
  subst this
  rw [hm]
  have hs : shorterStep c st (.module M) = (shorterClientModule st M >>= fun r => pure (r.1, .module r.2)) := by
    unfold shorterStep
    simp only [hc]
  rw [hs]
  cases shorterClientModule st M with
  | error e => rfl
  | ok r =>
    simp only [bind_ok, pure_eq_ok]
    obtain ⟨y, hy, hy2⟩ := inert_manager c b hb (.module r.2)
    rw [hy, hy2 hni]
    rfl

/-! ### the run of the generator, hook call by hook call -/

def QuietRel (st : ShorterState) (p1 p2 : PipeState) : Prop :=
  QuietWith st p1.plugins ∧ p2.plugins = [] ∧ p1.methodsOut = p2.methodsOut ∧ p1.importsOut = p2.importsOut ∧
  p1.gqlOut = p2.gqlOut ∧ p1.classOut = p2.classOut ∧ p1.initImports = p2.initImports

theorem record_cm (ps : PipeState) (c : Call) (hc : c.hook = "generate_client_module") (y : Payload) : record ps c y = ps := by
  unfold record
  split <;> simp_all

theorem bookStep_init (st : ShorterState) (e : Event) (hc : e.call.hook = "generate_init_module") : bookStep st e = st := by
  unfold bookStep
  have : (e.call.hook == "generate_client_module") = false := by rw [hc]; decide
  simp only [this, Bool.false_eq_true, ↓reduceIte]
  rw [shorterStep_other e.call st _ (by rw [hc]; decide) (by rw [hc]; decide) (by rw [hc]; decide) (by rw [hc]; decide)]

theorem manager_nil (c : Call) (x : Payload) : manager c [] x = .ok ([], x) := rfl

theorem stepEvent_of_manager (p : PipeState) (e : Event) (ps' : List PState) (y : Payload)
    (h : manager e.call p.plugins (inputFor p e) = .ok (ps', y)) :
    stepEvent p e = .ok (record { p with plugins := ps', trace := p.trace ++ [(e.call, inputFor p e, y)] } e.call y) := by
  unfold stepEvent
  dsimp only
  rw [h]
  rfl

theorem stepEvent_of_manager_error (p : PipeState) (e : Event) (err : Err)
    (h : manager e.call p.plugins (inputFor p e) = .error err) : stepEvent p e = .error err := by
  unfold stepEvent
  dsimp only
  rw [h]
  rfl

theorem stepEvent_nil (p : PipeState) (hp : p.plugins = []) (e : Event) :
    stepEvent p e = .ok (record { p with plugins := [], trace := p.trace ++ [(e.call, inputFor p e, inputFor p e)] } e.call (inputFor p e)) :=
  stepEvent_of_manager p e [] (inputFor p e) (by rw [hp]; rfl)

/-- one hook call other than `generate_client_module` -/
theorem stepEvent_quiet (st : ShorterState) (p1 p2 : PipeState) (e : Event) (hc : e.call.hook ≠ "generate_client_module")
    (h : QuietRel st p1 p2) :
    ∃ q1 q2, stepEvent p1 e = .ok q1 ∧ stepEvent p2 e = .ok q2 ∧ QuietRel (bookStep st e) q1 q2 := by
  obtain ⟨⟨a, b, hps, ha, hb⟩, hnil, h1, h2, h3, h4, h5⟩ := h
  have hinput : inputFor p1 e = inputFor p2 e := by unfold inputFor; rw [h1, h2, h3, h4, h5]
  rw [stepEvent_nil p2 hnil e]
  by_cases hi : e.call.hook = "generate_init_module"
  · obtain ⟨y, hy⟩ := quiet_manager_init e.call hi a b ha hb st (inputFor p2 e)
    have e1 := stepEvent_of_manager p1 e (a ++ .shorter st :: b) y (by rw [hinput, hps]; exact hy)
    refine ⟨_, _, e1, rfl, ?_⟩
    rw [record_init _ e.call hi, record_init _ e.call hi, bookStep_init st e hi]
    exact ⟨⟨a, b, rfl, ha, hb⟩, rfl, h1, h2, h3, h4, h5⟩
  · have hs := shorterStep_inputFor p2 e hc st
    have hm := quiet_manager_other e.call hc hi a b ha hb st (bookStep st e) (inputFor p2 e) hs
    have e1 := stepEvent_of_manager p1 e (a ++ .shorter (bookStep st e) :: b) (inputFor p2 e) (by rw [hinput, hps]; exact hm)
    refine ⟨_, _, e1, rfl, ?_⟩
    rw [hinput]
    · obtain ⟨g1, g2, g3, g4, g5, g6, g7⟩ := record_fields
        { p1 with plugins := a ++ .shorter (bookStep st e) :: b, trace := p1.trace ++ [(e.call, inputFor p2 e, inputFor p2 e)] }
        { p2 with plugins := [], trace := p2.trace ++ [(e.call, inputFor p2 e, inputFor p2 e)] }
        e.call (inputFor p2 e) h1 h2 h3 h4 h5
      exact ⟨⟨a, b, g1, ha, hb⟩, g2, g3, g4, g5, g6, g7⟩

theorem runPipeline_quiet (evs : List Event) (hno : ∀ e ∈ evs, e.call.hook ≠ "generate_client_module") :
    ∀ (st : ShorterState) (p1 p2 : PipeState), QuietRel st p1 p2 →
      (runPipeline p1 evs).2 = none ∧ (runPipeline p2 evs).2 = none ∧
      QuietRel (evs.foldl bookStep st) (runPipeline p1 evs).1 (runPipeline p2 evs).1 := by
  induction evs with
  | nil => intro st p1 p2 h; exact ⟨rfl, rfl, h⟩
  | cons e rest ih =>
    intro st p1 p2 h
    unfold runPipeline
    obtain ⟨q1, q2, e1, e2, hq⟩ := stepEvent_quiet st p1 p2 e (hno e (by simp)) h
    rw [e1, e2]
    exact ih (fun e' he' => hno e' (by simp [he'])) (bookStep st e) q1 q2 hq

/-! ### what the last call of a hook returned -/

theorem stepEvent_finalOf (p q : PipeState) (e : Event) (h : stepEvent p e = .ok q) (hook : String) :
    q.finalOf hook = if e.call.hook == hook then (q.trace.getLast?.map (·.2.2)) else p.finalOf hook := by
  cases hm : manager e.call p.plugins (inputFor p e) with
  | error err => rw [stepEvent_of_manager_error p e err hm] at h; cases h
  | ok r =>
    rw [stepEvent_of_manager p e r.1 r.2 hm] at h
    simp only [Except.ok.injEq] at h
    rw [← h, record_finalOf, finalOf_eq, finalOfTrace_snoc]
    split
    · have ht : (record { p with plugins := r.1, trace := p.trace ++ [(e.call, inputFor p e, r.2)] } e.call r.2).trace =
          p.trace ++ [(e.call, inputFor p e, r.2)] := by
        unfold record; split <;> (try split) <;> rfl
      rw [ht]; simp
    · rw [finalOf_eq]

theorem runPipeline_finalOf (evs : List Event) (hook : String) (hno : ∀ e ∈ evs, e.call.hook ≠ hook) :
    ∀ p : PipeState, (runPipeline p evs).1.finalOf hook = p.finalOf hook := by
  induction evs with
  | nil => intro p; rfl
  | cons e rest ih =>
    intro p
    unfold runPipeline
    cases hs : stepEvent p e with
    | error err => rfl
    | ok q =>
      simp only
      rw [ih (fun e' he' => hno e' (by simp [he'])) q, stepEvent_finalOf p q e hs hook]
      have : (e.call.hook == hook) = false := by simpa using hno e (by simp)
      simp [this]

theorem runPipeline_append (a b : List Event) : ∀ p : PipeState,
    runPipeline p (a ++ b) =
      (match (runPipeline p a).2 with
       | none => runPipeline (runPipeline p a).1 b
       | some err => ((runPipeline p a).1, some err)) := by
  induction a with
  | nil => intro p; rfl
  | cons e rest ih =>
    intro p
    simp only [List.cons_append, runPipeline]
    cases hs : stepEvent p e with
    | error err => rfl
    | ok q => simp only; exact ih q

theorem quiet_opsFile (st : ShorterState) (p : PipeState) (h : QuietWith st p.plugins) : p.opsFile? = none := by
  obtain ⟨a, b, hps, ha, hb⟩ := h
  unfold PipeState.opsFile?
  rw [List.findSome?_eq_none_iff]
  intro q hq
  rw [hps] at hq
  simp only [List.mem_reverse, List.mem_append, List.mem_cons] at hq
  rcases hq with hq | rfl | hq
  · rcases ha q hq with rfl | rfl <;> rfl
  · rfl
  · rcases hb q hq with rfl | rfl <;> rfl

theorem nil_opsFile (p : PipeState) (h : p.plugins = []) : p.opsFile? = none := by
  unfold PipeState.opsFile?; rw [h]; rfl

/-- the `generate_client_module` call -/
theorem stepEvent_quiet_cm (st : ShorterState) (p1 p2 : PipeState) (e : Event) (hc : e.call.hook = "generate_client_module")
    (h : QuietRel st p1 p2) (M : Module) (hX : inputFor p2 e = .module M) :
    ∃ q2, stepEvent p2 e = .ok q2 ∧ q2.finalOf "generate_client_module" = some (.module M) ∧ q2.plugins = [] ∧
      (match shorterClientModule st M with
       | .error err => stepEvent p1 e = .error err
       | .ok r => ∃ q1, stepEvent p1 e = .ok q1 ∧ QuietRel r.1 q1 q2 ∧
           q1.finalOf "generate_client_module" = some (.module r.2)) := by
  obtain ⟨⟨a, b, hps, ha, hb⟩, hnil, h1, h2, h3, h4, h5⟩ := h
  have hinput : inputFor p1 e = inputFor p2 e := by unfold inputFor; rw [h1, h2, h3, h4, h5]
  have hbeq : (e.call.hook == "generate_client_module") = true := by rw [hc]; decide
  have e2 := stepEvent_nil p2 hnil e
  refine ⟨_, e2, ?_, ?_, ?_⟩
  · rw [stepEvent_finalOf p2 _ e e2, record_cm _ e.call hc]
    simp [hbeq, hX]
  · rw [record_cm _ e.call hc]
  · have hm := quiet_manager_cm e.call hc a b ha hb st M
    cases hsc : shorterClientModule st M with
    | error err =>
      simp only
      exact stepEvent_of_manager_error p1 e err (by rw [hinput, hX, hps, hm, hsc]; rfl)
    | ok r =>
      simp only
      have e1 := stepEvent_of_manager p1 e (a ++ .shorter r.1 :: b) (.module r.2) (by rw [hinput, hX, hps, hm, hsc]; rfl)
      refine ⟨_, e1, ?_, ?_⟩
      · rw [record_cm _ e.call hc, record_cm _ e.call hc]
        exact ⟨⟨a, b, rfl, ha, hb⟩, rfl, h1, h2, h3, h4, h5⟩
      · rw [stepEvent_finalOf p1 _ e e1, record_cm _ e.call hc]
        simp [hbeq]

/-- the whole run: events before `generate_client_module`, that call, events after it -/
theorem quiet_pipeline (ps : List PState) (st0 : ShorterState) (hq : QuietWith st0 ps) (pre post : List Event) (cm : Event)
    (hcm : cm.call.hook = "generate_client_module")
    (hpre : ∀ e ∈ pre, e.call.hook ≠ "generate_client_module")
    (hpost : ∀ e ∈ post, e.call.hook ≠ "generate_client_module")
    (M : Module) (hM : inputFor (runPipeline { plugins := [] } pre).1 cm = .module M) :
    (runPipeline { plugins := [] } (pre ++ cm :: post)).2 = none ∧
    (runPipeline { plugins := [] } (pre ++ cm :: post)).1.clientModule? = some M ∧
    (runPipeline { plugins := [] } (pre ++ cm :: post)).1.opsFile? = none ∧
    (match shorterClientModule (pre.foldl bookStep st0) M with
     | .error err => (runPipeline { plugins := ps } (pre ++ cm :: post)).2 = some err
     | .ok r => (runPipeline { plugins := ps } (pre ++ cm :: post)).2 = none ∧
         (runPipeline { plugins := ps } (pre ++ cm :: post)).1.clientModule? = some r.2 ∧
         (runPipeline { plugins := ps } (pre ++ cm :: post)).1.opsFile? = none) := by
  have h0 : QuietRel st0 { plugins := ps } { plugins := [] } := ⟨hq, rfl, rfl, rfl, rfl, rfl, rfl⟩
  obtain ⟨hp1, hp2, hrel⟩ := runPipeline_quiet pre hpre st0 _ _ h0
  obtain ⟨q2, e2, hf2, hq2nil, hmatch⟩ := stepEvent_quiet_cm (pre.foldl bookStep st0) _ _ cm hcm hrel M hM
  have hrun2 : runPipeline { plugins := [] } (pre ++ cm :: post) = runPipeline q2 post := by
    rw [runPipeline_append, hp2]
    simp only
    conv => lhs; unfold runPipeline
    rw [e2]
  have hcm2 : (runPipeline q2 post).1.clientModule? = some M := by
    unfold PipeState.clientModule?
    rw [runPipeline_finalOf post _ hpost q2, hf2]
  cases hsc : shorterClientModule (pre.foldl bookStep st0) M with
  | error err =>
    rw [hsc] at hmatch
    simp only at hmatch ⊢
    have hq2rel : QuietRel (pre.foldl bookStep st0) (runPipeline { plugins := ps } pre).1 (runPipeline { plugins := [] } pre).1 := hrel
    -- the unplugged run goes on through `post` like any run without plugins
    have hnil2 : ∀ (evs : List Event) (p : PipeState), p.plugins = [] → (runPipeline p evs).2 = none ∧ (runPipeline p evs).1.plugins = [] := by
      intro evs
      induction evs with
      | nil => intro p hp; exact ⟨rfl, hp⟩
      | cons e rest ih =>
        intro p hp
        unfold runPipeline
        rw [stepEvent_nil p hp e]
        simp only
        apply ih
        unfold record; split <;> (try split) <;> rfl
    obtain ⟨hn1, hn2⟩ := hnil2 post q2 hq2nil
    refine ⟨by rw [hrun2]; exact hn1, by rw [hrun2]; exact hcm2, by rw [hrun2]; exact nil_opsFile _ hn2, ?_⟩
    rw [runPipeline_append, hp1]
    simp only
    conv => lhs; unfold runPipeline
    rw [hmatch]
  | ok r =>
    rw [hsc] at hmatch
    simp only at hmatch ⊢
    obtain ⟨q1, e1, hrel1, hf1⟩ := hmatch
    obtain ⟨hr1, hr2, hrelpost⟩ := runPipeline_quiet post hpost r.1 q1 q2 hrel1
    have hrun1 : runPipeline { plugins := ps } (pre ++ cm :: post) = runPipeline q1 post := by
      rw [runPipeline_append, hp1]
      simp only
      conv => lhs; unfold runPipeline
      rw [e1]
    refine ⟨by rw [hrun2]; exact hr2, by rw [hrun2]; exact hcm2, by rw [hrun2]; exact nil_opsFile _ hrelpost.2.1, ?_, ?_, ?_⟩
    · rw [hrun1]; exact hr1
    · rw [hrun1]
      unfold PipeState.clientModule?
      rw [runPipeline_finalOf post _ hpost q1, hf1]
    · rw [hrun1]; exact quiet_opsFile _ _ hrelpost.1

end Ariadne.C15
