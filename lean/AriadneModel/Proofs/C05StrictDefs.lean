/-
  Proofs/C05StrictDefs.lean — property C05, plain-selections tier: WHAT PYDANTIC ACCEPTS for a selection set, as an
  executable predicate on the payload (definitions only; theorems in Proofs/C05Strict.lean).

  `laxResp env lax tn sel j`: `j` is an object in which, for every field of the (plain) selection set `sel` on type `tn`,
  hereditarily:
    * the value is found under the response key (or, failing that, under the python name: pydantic `populate_by_name`);
      if it is not found the field carries `@skip` / `@include`;
    * a found value is `null` on a conditional field, or is complete for the field's GraphQL type: `null` only where the
      type is nullable, a list exactly where the type is a list, at a leaf a value of the lax table
      (`ResultLeaf.conformsLax`), at an object position an object that is again `laxResp` for the sub-selection.
  Keys that are not selected are ignored (pydantic ignores them; the property does not speak about them).
  The compiled driver evaluates it (op `laxResp`) next to the real generated class on every corrupted payload.
  Core Lean only.
-/
import AriadneModel.Proofs.C01PlainDefs

namespace Ariadne.C05Strict
open Ariadne Ariadne.Gql Ariadne.ResultTypes Ariadne.Util Ariadne.C01Plain Ariadne.Pyd

/-- CompleteValue over the list / non-null wrappers as the generated annotation enforces it: `P` judges a non-null value
    of the named type; `anyNull` = the named type is annotated `Any`, which takes `None` even below a non-null wrapper -/
def completeLax (anyNull : Bool) (P : J → Bool) : TypeRef → Bool → J → Bool
  | .nonNull t, _, v => completeLax anyNull P t false v
  | .list t, nullable, v =>
    match v with
    | .null => nullable
    | .arr xs => xs.all (completeLax anyNull P t true)
    | _ => false
  | .named _, nullable, v =>
    match v with
    | .null => nullable || anyNull
    | _ => P v

/-- the value pydantic reads for a field: under the response key, else under the python name -/
def found (env : ResultTypes.Env) (key : String) (kvs : List (String × J)) : Option J :=
  match J.lookup key kvs with
  | some v => some v
  | none => J.lookup (pyFieldName env key) kvs

mutual
  def laxSel (env : ResultTypes.Env) (lax : Lax) : String → List Selection → List (String × J) → Bool
    | _, [], _ => true
    | tn, s :: rest, kvs => laxSel1 env lax tn s kvs && laxSel env lax tn rest kvs
  def laxSel1 (env : ResultTypes.Env) (lax : Lax) : String → Selection → List (String × J) → Bool
    | tn, .field alias name dirs _ sub, kvs =>
      match found env (alias.getD name) kvs with
      | none => hasConditionalDirective dirs
      | some v =>
        (hasConditionalDirective dirs && v.isNull) ||
        (if sub.isEmpty then ResultLeaf.conformsLax env.schema lax true (fieldT env tn name) v
         else completeLax false (fun x =>
            match x with
            | .obj kvs' => laxSel env lax (subType env tn name) sub kvs'
            | _ => false) (fieldT env tn name) true v)
    | _, _, _ => false
end

/-- **what the root class of a plain selection set accepts** -/
def laxResp (env : ResultTypes.Env) (lax : Lax) (tn : String) (sel : List Selection) (j : J) : Bool :=
  match j with
  | .obj kvs => laxSel env lax tn sel kvs
  | _ => false

end Ariadne.C05Strict
