/-
  Proofs/C01UnpGen.lean — property C01, "unpacked fragments" tier, part (1): the generator succeeds and returns exactly the
  PLAIN tier's classes of the inlined document (`plainClasses env cn tn (inl env k sel)`); every fragment met is recorded in
  `_unpacked_fragments`; no mark is added.
-/
import AriadneModel.Proofs.C01UnpDefs
import AriadneModel.Proofs.C01PlainGen

set_option linter.unusedSimpArgs false
set_option linter.unusedVariables false

namespace Ariadne.C01Unp
open Ariadne Ariadne.Gql Ariadne.ResultTypes Ariadne.Util Ariadne.C01Plain

/-! ### the flat views -/

theorem inl_succ (env : Env) (k : Nat) (sel : List Selection) :
    inl env (k + 1) sel = sel.flatMap fun s =>
      match s with
      | .field a n d sid sub => [.field a n d sid (inl env k sub)]
      | .spread g _ =>
        match findFragment? env.frags g with
        | some f => inl env k f.sel
        | none => []
      | _ => [] := rfl

theorem uflatK_succ (env : Env) (k : Nat) (sel : List Selection) :
    uflatK env (k + 1) sel = sel.flatMap fun s =>
      match s with
      | .field a n d sid sub => [(k, .field a n d sid sub)]
      | .spread g _ =>
        match findFragment? env.frags g with
        | some f => uflatK env k f.sel
        | none => []
      | _ => [] := rfl

theorem flatMap_map'' {α β γ : Type} (f : α → List β) (φ : β → γ) : ∀ (l : List α),
    (l.flatMap f).map φ = l.flatMap (fun a => (f a).map φ)
  | [] => rfl
  | a :: l => by simp only [List.flatMap_cons, List.map_append, flatMap_map'' f φ l]

theorem flatMap_congr'' {α β : Type} : ∀ (l : List α) (f g : α → List β), (∀ a ∈ l, f a = g a) → l.flatMap f = l.flatMap g
  | [], _, _, _ => rfl
  | a :: l, f, g, h => by
    simp only [List.flatMap_cons, h a List.mem_cons_self,
      flatMap_congr'' l f g (fun b hb => h b (List.mem_cons_of_mem _ hb))]

/-- the inlined document is the list of field nodes, each with its sub-selection inlined -/
theorem inl_eq (env : Env) : ∀ (k : Nat) (sel : List Selection), inl env k sel = (uflatK env k sel).map (inlNode env)
  | 0, _ => rfl
  | k + 1, sel => by
    rw [inl_succ, uflatK_succ, flatMap_map'']
    apply flatMap_congr''
    intro s _
    cases s with
    | field a n d sid sub => rfl
    | spread g d =>
      simp only []
      cases hf : findFragment? env.frags g with
      | none => rfl
      | some f => simp only []; exact inl_eq env k f.sel
    | inline on d sid ss => rfl

theorem spreadsOK_succ (env : Env) (k : Nat) (tn : String) (sel : List Selection) :
    spreadsOK env (k + 1) tn sel =
      (env.schema.kindOf? tn == some .object &&
      sel.all fun s =>
        match s with
        | .field _ name _ _ sub =>
          sub.isEmpty || (!(inl env k sub).isEmpty && spreadsOK env k (subType env tn name) sub)
        | .spread g dirs =>
          !hasConditionalDirective dirs &&
          (match findFragment? env.frags g with
           | some f =>
             env.schema.kindOf? f.on == some .interface && env.schema.isSubType f.on tn
             && !(f.sel.any fun x => match x with | .inline .. => true | _ => false)
             && spreadsOK env k tn f.sel
           | none => false)
        | _ => false) := rfl

/-- what `spreadsOK` says about a spread -/
theorem spreadsOK_spread {env : Env} {k : Nat} {tn : String} {sel : List Selection} (h : spreadsOK env (k + 1) tn sel = true)
    {g : String} {d : List Directive} (hs : Selection.spread g d ∈ sel) :
    hasConditionalDirective d = false ∧ ∃ f, findFragment? env.frags g = some f ∧ env.schema.kindOf? f.on = some .interface ∧
      env.schema.isSubType f.on tn = true ∧
      (f.sel.any fun x => match x with | .inline .. => true | _ => false) = false ∧ spreadsOK env k tn f.sel = true := by
  rw [spreadsOK_succ] at h
  simp only [Bool.and_eq_true, List.all_eq_true] at h
  have := h.2 _ hs
  simp only [Bool.and_eq_true, Bool.not_eq_true'] at this
  refine ⟨this.1, ?_⟩
  cases hf : findFragment? env.frags g with
  | none => simp [hf] at this
  | some f =>
    have h2 := this.2
    simp only [hf, Bool.and_eq_true, beq_iff_eq, Bool.not_eq_true'] at h2
    exact ⟨f, rfl, h2.1.1.1, h2.1.1.2, h2.1.2, h2.2⟩

theorem spreadsOK_kind {env : Env} {k : Nat} {tn : String} {sel : List Selection} (h : spreadsOK env k tn sel = true) :
    env.schema.kindOf? tn = some .object := by
  cases k with
  | zero => simp [spreadsOK] at h
  | succ k =>
    rw [spreadsOK_succ] at h
    simp only [Bool.and_eq_true, beq_iff_eq] at h
    exact h.1

/-- every field node of the class: it is a field, its fuel is smaller, and its sub-selection (if any) satisfies `spreadsOK` -/
theorem spreadsOK_nodes (env : Env) : ∀ (k : Nat) (tn : String) (sel : List Selection), spreadsOK env k tn sel = true →
    ∀ p ∈ uflatK env k sel, p.1 < k ∧ ∃ a n d sid sub, p.2 = Selection.field a n d sid sub ∧
      (sub.isEmpty = true ∨ ((inl env p.1 sub).isEmpty = false ∧ spreadsOK env p.1 (subType env tn n) sub = true))
  | 0, _, _, h, _, _ => by simp [spreadsOK] at h
  | k + 1, tn, sel, h, p, hp => by
    rw [uflatK_succ] at hp
    obtain ⟨s, hs, hps⟩ := List.mem_flatMap.mp hp
    cases s with
    | inline on d sid ss => simp at hps
    | field a n d sid sub =>
      simp only [List.mem_singleton] at hps
      subst hps
      refine ⟨Nat.lt_succ_self k, a, n, d, sid, sub, rfl, ?_⟩
      rw [spreadsOK_succ] at h
      simp only [Bool.and_eq_true, List.all_eq_true] at h
      have := h.2 _ hs
      simp only [Bool.or_eq_true, Bool.and_eq_true, Bool.not_eq_true'] at this
      exact this
    | spread g d =>
      obtain ⟨_, f, hf, _, _, _, hrec⟩ := spreadsOK_spread h hs
      simp only [hf] at hps
      obtain ⟨h1, h2⟩ := spreadsOK_nodes env k tn f.sel hrec p hps
      exact ⟨by omega, h2⟩

/-- the fragments unpacked at the level of ONE class (through nested spreads, not through sub-selections) -/
def sprd (env : Env) : Nat → List Selection → List String
  | 0, _ => []
  | k + 1, sel =>
    sel.flatMap fun s =>
      match s with
      | .spread g _ =>
        g :: (match findFragment? env.frags g with
              | some f => sprd env k f.sel
              | none => [])
      | _ => []

theorem sprd_succ (env : Env) (k : Nat) (sel : List Selection) :
    sprd env (k + 1) sel = sel.flatMap fun s =>
      match s with
      | .spread g _ =>
        g :: (match findFragment? env.frags g with
              | some f => sprd env k f.sel
              | none => [])
      | _ => [] := rfl

theorem reach_succ (env : Env) (k : Nat) (sel : List Selection) :
    reach env (k + 1) sel = sel.flatMap fun s =>
      match s with
      | .field _ _ _ _ sub => reach env k sub
      | .spread g _ =>
        match findFragment? env.frags g with
        | some f => g :: reach env k f.sel
        | none => [g]
      | _ => [] := rfl

/-- a fragment reached from `sel` is unpacked at the level of the class of `sel`, or reached from the sub-selection of one of
    its field nodes -/
theorem reach_split (env : Env) : ∀ (k : Nat) (sel : List Selection) (n : String), n ∈ reach env k sel →
    n ∈ sprd env k sel ∨ ∃ p ∈ uflatK env k sel, ∃ a nm d sid sub, p.2 = Selection.field a nm d sid sub ∧ n ∈ reach env p.1 sub
  | 0, _, _, h => by simp [reach] at h
  | k + 1, sel, n, h => by
    rw [reach_succ] at h
    obtain ⟨s, hs, hn⟩ := List.mem_flatMap.mp h
    cases s with
    | inline on d sid ss => simp at hn
    | field a nm d sid sub =>
      right
      refine ⟨(k, .field a nm d sid sub), ?_, a, nm, d, sid, sub, rfl, hn⟩
      rw [uflatK_succ]
      exact List.mem_flatMap.mpr ⟨_, hs, by simp⟩
    | spread g d =>
      simp only [] at hn
      cases hf : findFragment? env.frags g with
      | none =>
        simp only [hf, List.mem_singleton] at hn
        left
        rw [sprd_succ]
        exact List.mem_flatMap.mpr ⟨_, hs, by simp [hn]⟩
      | some f =>
        simp only [hf, List.mem_cons] at hn
        rcases hn with hn | hn
        · left
          rw [sprd_succ]
          exact List.mem_flatMap.mpr ⟨_, hs, by simp [hn]⟩
        · rcases reach_split env k f.sel n hn with h1 | ⟨p, hp, hrest⟩
          · left
            rw [sprd_succ]
            exact List.mem_flatMap.mpr ⟨_, hs, by simp [hf, h1]⟩
          · right
            refine ⟨p, ?_, hrest⟩
            rw [uflatK_succ]
            exact List.mem_flatMap.mpr ⟨_, hs, by simpa [hf] using hp⟩

/-! ### `_resolve_selection_set` with unpacked spreads -/

theorem iface_ne_object {env : Env} {a b : String} (ha : env.schema.kindOf? a = some .interface)
    (hb : env.schema.kindOf? b = some .object) : (a != b) = true := by
  simp only [bne_iff_ne, ne_eq]
  intro e
  rw [e, hb] at ha
  cases ha

theorem get_isSome_of_kind {S : Schema} {n : String} {kd : Kind} (h : S.kindOf? n = some kd) : (S.get? n).isNone = false := by
  unfold Schema.kindOf? at h
  cases hg : S.get? n with
  | none => simp [hg] at h
  | some t => rfl

theorem isAbstract_of_iface {S : Schema} {n : String} (h : S.kindOf? n = some .interface) : S.isAbstract n = true := by
  simp [Schema.isAbstract, h]

/-- the loop of `_resolve_selection_set`, with the accumulated field nodes -/
theorem resolveLoop_unp (env : Env) : ∀ (k fuel : Nat) (tn : String) (sels : List Selection) (acc : Acc) (s : St),
    k ≤ fuel + 1 → spreadsOK env k tn sels = true →
    ∃ s', forIn sels acc (resolveBody env fuel tn) s =
        .ok ((acc.1 ++ (uflatK env k sels).map (fun p => toR p.2), acc.2), s') ∧
      s'.publicNames = s.publicNames ∧ s'.marks = s.marks ∧ (∀ n ∈ s.unpacked, n ∈ s'.unpacked) ∧
      (∀ n ∈ sprd env k sels, n ∈ s'.unpacked)
  | 0, _, _, _, _, _, _, h => by simp [spreadsOK] at h
  | k + 1, fuel, tn, sels, acc, s, hk, h => by
    have hkind := spreadsOK_kind h
    revert acc s h
    induction sels with
    | nil => intro acc s _; exact ⟨s, by simp [List.forIn_nil, uflatK_succ]; rfl, rfl, rfl, fun n hn => hn, fun n hm => by simp [sprd_succ] at hm⟩
    | cons x rest ih =>
      intro acc s h
      have hrest : spreadsOK env (k + 1) tn rest = true := by
        rw [spreadsOK_succ] at h ⊢
        simp only [Bool.and_eq_true, List.all_cons] at h ⊢
        exact ⟨h.1, h.2.2⟩
      rw [List.forIn_cons]
      cases x with
      | inline on d sid ss =>
        rw [spreadsOK_succ] at h
        simp [List.all_cons] at h
      | field alias name dirs sid sub =>
        obtain ⟨s', hrun, h1, h2, h3, h4⟩ := ih (acc.1 ++ [⟨alias, name, dirs, sid, sub⟩], acc.2) s hrest
        refine ⟨s', ?_, h1, h2, h3, ?_⟩
        · refine run_bind (a := .yield (acc.1 ++ [⟨alias, name, dirs, sid, sub⟩], acc.2)) (s' := s) rfl ?_
          simp only []
          rw [hrun]
          simp [uflatK_succ, toR, List.append_assoc]
        · intro n hm
          rw [sprd_succ, List.flatMap_cons] at hm
          simp only [List.nil_append] at hm
          rw [← sprd_succ] at hm
          exact h4 n hm
      | spread g d =>
        obtain ⟨hcond, f, hf, hki, hsub, hnoinl, hrec⟩ := spreadsOK_spread h (g := g) (d := d) List.mem_cons_self
        obtain ⟨fuel', rfl⟩ : ∃ fuel', fuel = fuel' + 1 := by
          cases fuel with
          | zero =>
            -- `k + 1 ≤ 1` forces `k = 0`, but then the fragment's content has no fuel
            have : k = 0 := by omega
            subst this
            simp [spreadsOK] at hrec
          | succ f' => exact ⟨f', rfl⟩
        -- the inner resolve
        have hne := iface_ne_object hki hkind
        have hunp : unpackFragment env f (some tn) = true := by
          simp [unpackFragment, hne]
        have hbranch : (f.on == tn || (env.schema.isAbstract f.on && env.schema.isSubType f.on tn)) = true := by
          simp [isAbstract_of_iface hki, hsub]
        obtain ⟨s1, hin, hi1, hi2, hi3, hi4⟩ := resolveLoop_unp env k fuel' tn f.sel ([], [])
          { s with unpacked := setAdd s.unpacked g } (by omega) hrec
        obtain ⟨s', hrun, h1, h2, h3, h4⟩ := ih (acc.1 ++ (uflatK env k f.sel).map (fun p => toR p.2), acc.2)
          { s1 with mixins := setUnion s1.mixins [] } hrest
        have hgmem : g ∈ (setAdd s.unpacked g) := by
          unfold setAdd
          split
          · rename_i hc; simpa using hc
          · simp
        refine ⟨s', ?_, by rw [h1]; exact hi1, by rw [h2]; exact hi2, ?_, ?_⟩
        · refine run_bind (a := .yield (acc.1 ++ (uflatK env k f.sel).map (fun p => toR p.2), acc.2))
            (s' := { s1 with mixins := setUnion s1.mixins [] }) ?_ ?_
          · simp only [resolveBody, hf, get_isSome_of_kind hkind, get_isSome_of_kind hki, hunp, Bool.false_eq_true, if_false,
              Bool.not_true, hbranch, if_true]
            refine run_bind (run_modify _ _) ?_
            refine run_bind (a := ((uflatK env k f.sel).map (fun p => toR p.2), [])) (s' := { s1 with mixins := setUnion s1.mixins [] }) ?_ ?_
            · rw [resolve_succ]
              refine run_bind hin ?_
              refine run_bind (run_modify _ _) ?_
              simp [run_pure]
            · simp [run_pure, setUnion]
          · simp only []
            rw [hrun]
            simp [uflatK_succ, hf, List.append_assoc]
        · intro n hn
          apply h3
          apply hi3
          show n ∈ setAdd s.unpacked g
          unfold setAdd
          split
          · exact hn
          · exact List.mem_append_left _ hn
        · intro n hm
          rw [sprd_succ, List.flatMap_cons] at hm
          simp only [hf, List.cons_append, List.mem_cons, List.mem_append] at hm
          rw [← sprd_succ] at hm
          rcases hm with hm | hm | hm
          · rw [hm]
            exact h3 g (hi3 g hgmem)
          · exact h3 n (hi4 n hm)
          · exact h4 n hm

theorem resolve_unp (env : Env) (k fuel : Nat) (tn : String) (sels : List Selection) (st : St)
    (hk : k ≤ fuel + 1) (h : spreadsOK env k tn sels = true) :
    ∃ st', resolve env (fuel + 1) sels tn st = .ok (((uflatK env k sels).map (fun p => toR p.2), []), st') ∧
      st'.publicNames = st.publicNames ∧ st'.marks = st.marks ∧ (∀ n ∈ st.unpacked, n ∈ st'.unpacked) ∧
      (∀ n ∈ sprd env k sels, n ∈ st'.unpacked) := by
  obtain ⟨s', hloop, h1, h2, h3, h4⟩ := resolveLoop_unp env k fuel tn sels ([], []) st hk h
  refine ⟨{ s' with mixins := setUnion s'.mixins [] }, ?_, h1, h2, h3, h4⟩
  rw [resolve_succ]
  refine run_bind hloop ?_
  refine run_bind (run_modify _ _) ?_
  simp [run_pure]

/-! ### the field loop -/

theorem inl_of_empty (env : Env) (k : Nat) (sub : List Selection) (h : sub.isEmpty = true) : inl env k sub = [] := by
  have : sub = [] := by simpa using h
  subst this
  cases k <;> simp [inl]

/-- what part (1) says about one call of `_parse_type_definition`, for nesting fuel `k` -/
def GenSpec (env : Env) (k : Nat) : Prop :=
  ∀ (fuel : Nat) (cn tn : String) (sid : Nat) (sel : List Selection) (tv : List String) (st : St),
    2 * k + 2 ≤ fuel → st.marks.contains sid = false → spreadsOK env k tn sel = true →
    plainLocal env st.marks cn tn (inl env k sel) = true →
    ((plainClasses env cn tn (inl env k sel)).map (·.name)).Nodup →
    (∀ n ∈ (plainClasses env cn tn (inl env k sel)).map (·.name), n ∉ st.publicNames) →
    ∃ st', parseTypeDefinition env fuel cn tn sid sel false [] tv st = .ok (plainClasses env cn tn (inl env k sel), st') ∧
      st'.publicNames = st.publicNames ++ (plainClasses env cn tn (inl env k sel)).map (·.name) ∧ st'.marks = st.marks ∧
      (∀ n ∈ st.unpacked, n ∈ st'.unpacked) ∧ (∀ n ∈ reach env k sel, n ∈ st'.unpacked)

theorem fieldBody_unp (env : Env) (K : Nat) (IH : ∀ k', k' < K → GenSpec env k') (f : Nat) (cn tn : String) (tv : List String)
    (k' : Nat) (hk' : k' < K) (hf : 2 * k' + 2 ≤ f)
    (alias : Option String) (name : String) (dirs : List Directive) (sid : Nat) (sub : List Selection)
    (acc : FAcc) (s : St)
    (hl : plainLocal1 env s.marks cn tn (.field alias name dirs sid (inl env k' sub)) = true)
    (hsp : sub.isEmpty = true ∨ ((inl env k' sub).isEmpty = false ∧ spreadsOK env k' (subType env tn name) sub = true))
    (hnd : ((plainExtra1 env cn tn (.field alias name dirs sid (inl env k' sub))).map (·.name)).Nodup)
    (hfresh : ∀ n ∈ (plainExtra1 env cn tn (.field alias name dirs sid (inl env k' sub))).map (·.name), n ∉ s.publicNames) :
    ∃ s', fieldBody env (f + 1) cn tn tv ⟨alias, name, dirs, sid, sub⟩ acc s =
        .ok (.yield (acc.1 ++ [fieldDecl env cn tn alias name dirs (inl env k' sub)],
                     acc.2 ++ plainExtra1 env cn tn (.field alias name dirs sid (inl env k' sub))), s') ∧
      s'.publicNames = s.publicNames ++ (plainExtra1 env cn tn (.field alias name dirs sid (inl env k' sub))).map (·.name) ∧
      s'.marks = s.marks ∧ (∀ n ∈ s.unpacked, n ∈ s'.unpacked) ∧ (∀ n ∈ reach env k' sub, n ∈ s'.unpacked) := by
  simp only [plainLocal1, Bool.and_eq_true] at hl
  obtain ⟨⟨⟨hname, hmix⟩, hfd⟩, hcase⟩ := hl
  have hmix' : (dirs.any (·.name == Tables.mixinName)) = false := by simpa using hmix
  have hT := fieldTypeFromSchema_some env tn name hfd
  by_cases hsub : sub.isEmpty = true
  · -- leaf
    have hinl : inl env k' sub = [] := inl_of_empty env k' sub hsub
    have hsubn : sub = [] := by simpa using hsub
    rw [hinl] at hcase hnd hfresh ⊢
    simp only [List.isEmpty_nil, if_true] at hcase
    obtain ⟨ctx, hpo⟩ := parseOperationField_leaf env (f + 1 + 1) name dirs sub (fieldT env tn name)
      (subClass env cn alias name) tv hname hcase
    refine ⟨bump s ctx, ?_, ?_, rfl, fun n hn => hn, ?_⟩
    · unfold fieldBody
      refine run_bind (a := fieldT env tn name) (s' := s) (by show ResultTypes.liftExcept (fieldTypeFromSchema env tn name) s = _; rw [hT]; rfl) ?_
      refine run_bind (s' := s) (by
        show ResultTypes.liftExcept (parseOperationField env (f + 1 + 1) name dirs sub (fieldT env tn name) (subClass env cn alias name) tv) s = _
        rw [hpo]; rfl) ?_
      refine run_bind (mixinBases_none dirs s hmix') ?_
      refine run_bind (a := []) (s' := s) (by
        show parseFieldSelectionSetTypes env (f + 1) sid sub ctx [] s = _
        rw [parseFieldSelectionSetTypes_succ, if_pos hsub]; rfl) ?_
      refine run_bind (run_modify _ _) ?_
      rw [run_pure, plainExtra1_leaf _ _ _ _ _ _ _ _ rfl]
      simp only [fieldDecl, List.isEmpty_nil, if_true, RField.key, List.append_nil]
      rw [isUnionAnn_condAnn _ _ (isUnionAnn_wrapAnn _ (by rw [ResultLeaf.leafBase_eq]; exact Or.inl ⟨_, rfl⟩) _ _)]
      rfl
    · rw [plainExtra1_leaf _ _ _ _ _ _ _ _ rfl]; simp [bump]
    · intro n hn
      rw [hsubn] at hn
      cases k' <;> simp [reach] at hn
  · -- object
    have hsub' : sub.isEmpty = false := by simpa using hsub
    obtain ⟨hine, hsp'⟩ : (inl env k' sub).isEmpty = false ∧ spreadsOK env k' (subType env tn name) sub = true := by
      rcases hsp with h | h
      · rw [h] at hsub'; cases hsub'
      · exact h
    simp only [hine, Bool.false_eq_true, if_false, Bool.and_eq_true, beq_iff_eq] at hcase
    obtain ⟨⟨⟨hkind, hmark⟩, _⟩, hrec⟩ := hcase
    have hmark' : s.marks.contains sid = false := by simpa using hmark
    have hpo := parseOperationField_obj env (f + 1 + 1) name dirs sub (fieldT env tn name)
      (subClass env cn alias name) tv hname hkind
    rw [plainExtra1_sub _ _ _ _ _ _ _ _ hine] at hnd hfresh ⊢
    obtain ⟨s1, hrun, hpn, hmk, hup, hre⟩ := IH k' hk' f (subClass env cn alias name) (subType env tn name) sid sub
      (((typenameValues env [(subClass env cn alias name, subType env tn name)]).find?
        (·.1 == subType env tn name)).map (·.2) |>.getD []) s hf hmark' hsp' hrec hnd hfresh
    refine ⟨bump s1 { related := [(subClass env cn alias name, subType env tn name)] }, ?_, hpn, hmk, hup, hre⟩
    unfold fieldBody
    refine run_bind (a := fieldT env tn name) (s' := s) (by show ResultTypes.liftExcept (fieldTypeFromSchema env tn name) s = _; rw [hT]; rfl) ?_
    refine run_bind (s' := s) (by
      show ResultTypes.liftExcept (parseOperationField env (f + 1 + 1) name dirs sub (fieldT env tn name) (subClass env cn alias name) tv) s = _
      rw [hpo]; rfl) ?_
    refine run_bind (mixinBases_none dirs s hmix') ?_
    refine run_bind (a := plainClasses env (subClass env cn alias name) (subType env tn name) (inl env k' sub)) (s' := s1) (by
      show parseFieldSelectionSetTypes env (f + 1) sid sub { related := [(subClass env cn alias name, subType env tn name)] } [] s = _
      rw [parseFieldSelectionSetTypes_succ, if_neg hsub]
      refine run_bind (a := plainClasses env (subClass env cn alias name) (subType env tn name) (inl env k' sub)) (s' := s1) ?_ rfl
      rw [List.forIn_cons]
      refine run_bind (a := .yield ([] ++ plainClasses env (subClass env cn alias name) (subType env tn name) (inl env k' sub))) (s' := s1) ?_ (by simp; rfl)
      unfold relatedBody
      exact run_bind hrun rfl) ?_
    refine run_bind (run_modify _ _) ?_
    rw [run_pure]
    simp only [fieldDecl, hsub', hine, RField.key]
    rw [isUnionAnn_condAnn _ _ (isUnionAnn_wrapAnn _ (Or.inr ⟨_, rfl⟩) _ _)]
    rfl

/-- the loop over the field nodes of a class -/
theorem fieldLoop_unp (env : Env) (K : Nat) (IH : ∀ k', k' < K → GenSpec env k') (f : Nat) (cn tn : String) (tv : List String) :
    ∀ (ps : List (Nat × Selection)) (acc : FAcc) (s : St),
      (∀ p ∈ ps, p.1 < K ∧ 2 * p.1 + 2 ≤ f ∧ ∃ a n d sid sub, p.2 = Selection.field a n d sid sub ∧
        (sub.isEmpty = true ∨ ((inl env p.1 sub).isEmpty = false ∧ spreadsOK env p.1 (subType env tn n) sub = true))) →
      (∀ x ∈ ps.map (inlNode env), plainLocal1 env s.marks cn tn x = true) →
      ((plainExtra env cn tn (ps.map (inlNode env))).map (·.name)).Nodup →
      (∀ n ∈ (plainExtra env cn tn (ps.map (inlNode env))).map (·.name), n ∉ s.publicNames) →
      ∃ s', forIn (ps.map (fun p => toR p.2)) acc (fieldBody env (f + 1) cn tn tv) s =
          .ok ((acc.1 ++ plainDecls env cn tn (ps.map (inlNode env)), acc.2 ++ plainExtra env cn tn (ps.map (inlNode env))), s') ∧
        s'.publicNames = s.publicNames ++ (plainExtra env cn tn (ps.map (inlNode env))).map (·.name) ∧ s'.marks = s.marks ∧
        (∀ n ∈ s.unpacked, n ∈ s'.unpacked) ∧
        (∀ p ∈ ps, ∀ a nm d sid sub, p.2 = Selection.field a nm d sid sub → ∀ n ∈ reach env p.1 sub, n ∈ s'.unpacked) := by
  intro ps
  induction ps with
  | nil =>
    intro acc s _ _ _ _
    exact ⟨s, by simp [plainDecls, plainExtra]; rfl, by simp [plainExtra], rfl, fun n hn => hn, fun p hp => by cases hp⟩
  | cons p rest ih =>
    intro acc s hps hloc hnd hfresh
    obtain ⟨hpK, hpf, a, nm, d, sid, sub, hp2, hsp⟩ := hps p List.mem_cons_self
    obtain ⟨k', x⟩ := p
    simp only at hp2 hpK hpf hsp
    subst hp2
    have hnode : inlNode env (k', .field a nm d sid sub) = .field a nm d sid (inl env k' sub) := rfl
    simp only [List.map_cons, hnode, plainExtra, List.map_append] at hnd hfresh hloc
    obtain ⟨hnd1, hnd2, hdisj⟩ := List.nodup_append.mp hnd
    obtain ⟨s1, hstep, hpn1, hmk1, hup1, hre1⟩ := fieldBody_unp env K IH f cn tn tv k' hpK hpf a nm d sid sub acc s
      (hloc _ List.mem_cons_self) hsp hnd1 (fun n hn => hfresh n (List.mem_append_left _ hn))
    obtain ⟨s2, hrest, hpn2, hmk2, hup2, hre2⟩ := ih
      (acc.1 ++ [fieldDecl env cn tn a nm d (inl env k' sub)], acc.2 ++ plainExtra1 env cn tn (.field a nm d sid (inl env k' sub))) s1
      (fun q hq => hps q (List.mem_cons_of_mem _ hq))
      (fun y hy => by rw [hmk1]; exact hloc y (List.mem_cons_of_mem _ hy)) hnd2
      (fun n hn => by
        rw [hpn1]
        intro hmem
        rcases List.mem_append.mp hmem with h | h
        · exact hfresh n (List.mem_append_right _ hn) h
        · exact hdisj _ h _ hn rfl)
    refine ⟨s2, ?_, ?_, by rw [hmk2, hmk1], fun n hn => hup2 n (hup1 n hn), ?_⟩
    · show forIn (⟨a, nm, d, sid, sub⟩ :: rest.map (fun p => toR p.2)) acc (fieldBody env (f + 1) cn tn tv) s = _
      rw [List.forIn_cons]
      refine run_bind hstep ?_
      simp only []
      rw [hrest]
      simp only [List.map_cons, hnode, plainDecls_cons_field]
      simp [plainExtra, List.append_assoc]
    · rw [hpn2, hpn1]; simp [plainExtra, hnode, List.append_assoc]
    · intro q hq a' nm' d' sid' sub' hq2 n hn
      rcases List.mem_cons.mp hq with rfl | hq
      · simp only [Selection.field.injEq] at hq2
        obtain ⟨_, _, _, _, rfl⟩ := hq2
        exact hup2 n (hre1 n hn)
      · exact hre2 q hq a' nm' d' sid' sub' hq2 n hn

/-- **part (1), all nesting fuels** -/
theorem gen_spec (env : Env) : ∀ k : Nat, GenSpec env k := by
  intro k
  induction k using Nat.strongRecOn with
  | _ k IH =>
    intro fuel cn tn sid sel tv st hfu hmark hsp hloc hnd hfresh
    cases k with
    | zero => simp [spreadsOK] at hsp
    | succ k =>
      obtain ⟨f, rfl⟩ : ∃ f, fuel = f + 2 := ⟨fuel - 2, by omega⟩
      have hnodes := spreadsOK_nodes env (k + 1) tn sel hsp
      have hlocs := (plainLocal_iff env st.marks cn tn (inl env (k + 1) sel)).mp hloc
      rw [inl_eq] at hlocs hnd hfresh ⊢
      simp only [plainClasses, List.map_cons, List.nodup_cons] at hnd
      have hcn : st.publicNames.contains cn = false := by
        have := hfresh cn (by simp [plainClasses])
        simpa using this
      obtain ⟨st1, hres, hpn1, hmk1, hup1, hsp1⟩ := resolve_unp env (k + 1) (f + 1) tn sel
        { st with publicNames := st.publicNames ++ [cn] } (by omega) hsp
      obtain ⟨s', hloop, hpn, hmk, hup, hre⟩ := fieldLoop_unp env (k + 1) (fun k' hk' => IH k' hk') f cn tn tv
        (uflatK env (k + 1) sel) ([], []) st1
        (fun p hp => by
          obtain ⟨h1, h2⟩ := hnodes p hp
          exact ⟨h1, by omega, h2⟩)
        (fun x hx => by rw [hmk1]; exact hlocs x hx) hnd.2
        (fun n hn => by
          rw [hpn1]
          intro hmem
          rcases List.mem_append.mp hmem with h | h
          · exact hfresh n (by simp only [plainClasses, List.map_cons]; exact List.mem_cons_of_mem _ hn) h
          · have : n = cn := by simpa using h
            exact hnd.1 (this ▸ hn))
      refine ⟨s', ?_, ?_, by rw [hmk, hmk1], fun n hn => hup n (hup1 n hn), ?_⟩
      · rw [parseTypeDefinition_succ]
        refine run_bind (run_get st) ?_
        simp only [hcn, Bool.false_eq_true, if_false]
        refine run_bind (run_modify _ _) ?_
        refine run_bind hres ?_
        refine run_bind (run_get _) ?_
        have hm1 : st1.marks.contains sid = false := by rw [hmk1]; exact hmark
        simp only [hm1, Bool.false_eq_true, if_false, Bool.false_and]
        unfold classTail
        refine run_bind hloop ?_
        simp [run_pure, plainClasses]
      · rw [hpn, hpn1]; simp [plainClasses, List.append_assoc]
      · intro n hn
        rcases reach_split env (k + 1) sel n hn with h | ⟨p, hp, a, nm, d, sid', sub, hp2, hn'⟩
        · exact hup n (hsp1 n h)
        · exact hre p hp a nm d sid' sub hp2 n hn'

end Ariadne.C01Unp
