/-
  Lemmas about the JSON decoding reference (Spec/PyJson.lean) used by Properties/C12.lean:
  the only non-`ValueError` the decoder lets out is `RecursionError`; a body of `depthLimit + 1`
  opening brackets raises it, for every limit; an integer literal over the digit limit is a
  `ValueError`; a repeated key keeps the last value.
-/
import AriadneModel.Spec.PyJson

set_option linter.unusedSimpArgs false
set_option linter.unusedVariables false

namespace Ariadne.PyJson

/-! ### `RecursionError` is the only escape -/

theorem parseText_raises (cfg : Cfg) (cps : List Nat) (x : String) (h : parseText cfg cps = .raises x) :
    x = recursionError := by
  unfold parseText at h
  split at h
  · simp at h
  · simp at h; exact h.symm
  · split at h <;> simp at h

theorem loads_raises (cfg : Cfg) (b : List Nat) (x : String) (h : loads cfg b = .raises x) :
    x = recursionError := by
  unfold loads at h
  split at h
  · simp at h
  · exact parseText_raises cfg _ x h

theorem loads_undecodable (cfg : Cfg) (b : List Nat) (h : decodeBytes b = none) : loads cfg b = .valueError := by
  simp [loads, h]

/-! ### a run of opening brackets -/

def lbr : Nat := 91

theorem replicate_succ' (n : Nat) : List.replicate (n + 1) lbr = lbr :: List.replicate n lbr := by
  simp [List.replicate_succ]

theorem detect_brackets (n : Nat) : detectEncoding (List.replicate n lbr) = .utf8 := by
  match n with
  | 0 => simp [detectEncoding, startsWith, lbr]
  | 1 => simp [detectEncoding, startsWith, lbr, List.replicate]
  | 2 => simp [detectEncoding, startsWith, lbr, List.replicate]
  | 3 => simp [detectEncoding, startsWith, lbr, List.replicate]
  | n + 4 =>
    have : List.replicate (n + 4) lbr = lbr :: lbr :: lbr :: lbr :: List.replicate n lbr := by
      simp [List.replicate_succ]
    rw [this]
    simp [detectEncoding, startsWith, lbr]

theorem decodeUtf8_brackets (n : Nat) (acc : List Nat) :
    decodeUtf8 acc (List.replicate n lbr) = some (acc.reverse ++ List.replicate n lbr) := by
  induction n generalizing acc with
  | zero => simp [decodeUtf8]
  | succ n ih =>
    rw [replicate_succ']
    have h : decodeUtf8 acc (lbr :: List.replicate n lbr) = decodeUtf8 (lbr :: acc) (List.replicate n lbr) := by
      rw [decodeUtf8.eq_def]; simp [lbr]
    rw [h, ih]
    simp

theorem decodeBytes_brackets (n : Nat) : decodeBytes (List.replicate n lbr) = some (List.replicate n lbr) := by
  simp [decodeBytes, detect_brackets, decodeUtf8_brackets]

theorem skipWs_brackets (n : Nat) : skipWs (List.replicate n lbr) = List.replicate n lbr := by
  cases n with
  | zero => simp [skipWs]
  | succ n => rw [replicate_succ']; simp [skipWs, isWs, lbr]

/-- entering the container at depth `depthLimit` is refused; `j` = levels still allowed -/
theorem parseValue_brackets (cfg : Cfg) (j : Nat) :
    ∀ (d fuel m : Nat), d + j = cfg.depthLimit → j + 1 ≤ m → 2 * j + 1 ≤ fuel →
      parseValue cfg fuel d (List.replicate m lbr) = .rerr := by
  induction j with
  | zero =>
    intro d fuel m hd hm hf
    obtain ⟨f, rfl⟩ : ∃ f, fuel = f + 1 := ⟨fuel - 1, by omega⟩
    obtain ⟨m', rfl⟩ : ∃ m', m = m' + 1 := ⟨m - 1, by omega⟩
    rw [replicate_succ']
    have hge : d ≥ cfg.depthLimit := by omega
    simp [parseValue, lbr, hge]
  | succ j ih =>
    intro d fuel m hd hm hf
    obtain ⟨f, rfl⟩ : ∃ f, fuel = f + 2 := ⟨fuel - 2, by omega⟩
    obtain ⟨m', rfl⟩ : ∃ m', m = m' + 2 := ⟨m - 2, by omega⟩
    have hlt : ¬ (d ≥ cfg.depthLimit) := by omega
    have hrec := ih (d + 1) f (m' + 1) (by omega) (by omega) (by omega)
    rw [replicate_succ']
    have hsk : skipWs (List.replicate (m' + 1) lbr) = lbr :: List.replicate m' lbr := by
      rw [skipWs_brackets, replicate_succ']
    rw [replicate_succ'] at hrec
    simp [parseValue, lbr, hlt, hsk, parseItems] at hrec ⊢
    simp [lbr] at hsk
    simp [hsk, hlt, parseItems, hrec]

theorem parseText_deep (cfg : Cfg) :
    parseText cfg (List.replicate (cfg.depthLimit + 1) lbr) = .raises recursionError := by
  unfold parseText
  rw [skipWs_brackets]
  rw [parseValue_brackets cfg cfg.depthLimit 0 _ (cfg.depthLimit + 1) (by omega) (by omega) (by simp; omega)]

/-- for EVERY recursion limit there is a body that makes `json.loads` raise `RecursionError` -/
theorem loads_deep (cfg : Cfg) :
    loads cfg (List.replicate (cfg.depthLimit + 1) lbr) = .raises recursionError := by
  simp [loads, decodeBytes_brackets, parseText_deep]

/-! ### the integer digit limit -/

def one : Nat := 49     -- '1'

theorem takeDigits_ones (n : Nat) (acc : List Nat) :
    takeDigits acc (List.replicate n one) = (acc.reverse ++ List.replicate n 1, []) := by
  induction n generalizing acc with
  | zero => simp [takeDigits]
  | succ n ih =>
    have : List.replicate (n + 1) one = one :: List.replicate n one := by simp [List.replicate_succ]
    rw [this]
    have h : takeDigits acc (one :: List.replicate n one) = takeDigits (1 :: acc) (List.replicate n one) := by
      simp [takeDigits, isDigit, one]
    rw [h, ih]
    simp [List.replicate_succ]

/-- an integer literal with more digits than `sys.get_int_max_str_digits()` is a `ValueError`
    (so the body is "not JSON" for `get_data`), whatever the limit is -/
theorem parseText_long_int (cfg : Cfg) (n : Nat) (h0 : cfg.intMaxDigits ≠ 0) (hn : cfg.intMaxDigits < n) :
    parseText cfg (List.replicate n one) = .valueError := by
  obtain ⟨m, rfl⟩ : ∃ m, n = m + 1 := ⟨n - 1, by omega⟩
  have hr : List.replicate (m + 1) one = one :: List.replicate m one := by simp [List.replicate_succ]
  have hsk : skipWs (List.replicate (m + 1) one) = one :: List.replicate m one := by
    rw [hr]; simp [skipWs, isWs, one]
  have htd : takeDigits [] (one :: List.replicate m one) = (List.replicate (m + 1) 1, []) := by
    rw [← hr, takeDigits_ones]; simp
  have hnum : parseNumber cfg false (one :: List.replicate m one) = .verr := by
    unfold parseNumber
    simp only [one, isDigit] at htd ⊢
    simp [htd, h0, hn]
  unfold parseText
  rw [hsk]
  have : parseValue cfg (2 * (List.replicate (m + 1) one).length + 2) 0 (one :: List.replicate m one) = .verr := by
    have hf : 2 * (List.replicate (m + 1) one).length + 2 = (2 * m + 3) + 1 := by simp; omega
    rw [hf]
    simp only [parseValue]
    simp [one, startsWith, lNull, lTrue, lFalse, lNaN, lInfinity]
    simpa [one] using hnum
  rw [this]

/-! ### a run of the digit `1` is an ASCII body as well -/

theorem detect_ones (n : Nat) : detectEncoding (List.replicate n one) = .utf8 := by
  match n with
  | 0 => simp [detectEncoding, startsWith, one]
  | 1 => simp [detectEncoding, startsWith, one, List.replicate]
  | 2 => simp [detectEncoding, startsWith, one, List.replicate]
  | 3 => simp [detectEncoding, startsWith, one, List.replicate]
  | n + 4 =>
    have : List.replicate (n + 4) one = one :: one :: one :: one :: List.replicate n one := by
      simp [List.replicate_succ]
    rw [this]
    simp [detectEncoding, startsWith, one]

theorem decodeUtf8_ones (n : Nat) (acc : List Nat) :
    decodeUtf8 acc (List.replicate n one) = some (acc.reverse ++ List.replicate n one) := by
  induction n generalizing acc with
  | zero => simp [decodeUtf8]
  | succ n ih =>
    have hr : List.replicate (n + 1) one = one :: List.replicate n one := by simp [List.replicate_succ]
    rw [hr]
    have h : decodeUtf8 acc (one :: List.replicate n one) = decodeUtf8 (one :: acc) (List.replicate n one) := by
      rw [decodeUtf8.eq_def]; simp [one]
    rw [h, ih]
    simp

/-- bytes level: an integer literal over the digit limit makes `json.loads` raise `ValueError` -/
theorem loads_long_int (cfg : Cfg) (n : Nat) (h0 : cfg.intMaxDigits ≠ 0) (hn : cfg.intMaxDigits < n) :
    loads cfg (List.replicate n one) = .valueError := by
  simp [loads, decodeBytes, detect_ones, decodeUtf8_ones, parseText_long_int cfg n h0 hn]

/-! ### duplicate keys -/

theorem lookup_insertKv_same (k : String) (v : J) (kvs : List (String × J)) :
    J.lookup k (insertKv k v kvs) = some v := by
  induction kvs with
  | nil => simp [insertKv, J.lookup]
  | cons p rest ih =>
    obtain ⟨k', v'⟩ := p
    by_cases h : k' = k
    · simp [insertKv, h, J.lookup]
    · have hb : (k' == k) = false := by simp [h]
      simp [insertKv, hb, J.lookup, h, ih]

theorem lookup_insertKv_other (k k2 : String) (v : J) (kvs : List (String × J)) (hne : k2 ≠ k) :
    J.lookup k2 (insertKv k v kvs) = J.lookup k2 kvs := by
  induction kvs with
  | nil =>
    have : ¬ (k = k2) := fun h => hne h.symm
    simp [insertKv, J.lookup, this]
  | cons p rest ih =>
    obtain ⟨k', v'⟩ := p
    by_cases h : k' = k
    · subst h
      have : ¬ (k' = k2) := fun h => hne h.symm
      simp [insertKv, J.lookup, this]
    · have hb : (k' == k) = false := by simp [h]
      by_cases h2 : k' = k2
      · subst h2
        simp [insertKv, J.lookup, hne]
      · simp [insertKv, hb, J.lookup, h2, ih]

end Ariadne.PyJson
