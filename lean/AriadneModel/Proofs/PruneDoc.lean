/-
  Lemmas for C09, document side (Model/PruneDoc.lean): the arguments generator over any nesting of
  list / non-null wrappers, the closed form of the `add_operation` loop, `_generate_fragments`, and the
  refinement `generateDoc = Prune.generate ∘ toInput`.  Core Lean only.
-/
import AriadneModel.Model.PruneDoc
import AriadneModel.Proofs.Prune

set_option linter.unusedSimpArgs false
set_option linter.unusedVariables false

namespace Ariadne.PruneDoc
open Ariadne.Prune

/-! ### `ArgumentsGenerator` -/

/-- Wrappers are transparent: `_parse_type_node` ends in `_parse_named_type_node` of the named type,
    whatever the nesting of lists and non-nulls. -/
theorem parseTypeNode_base (kinds : Name → Kind) (st : ArgSt) :
    ∀ t : TypeNode, parseTypeNode kinds st t = parseNamed kinds st t.base
  | .named n => rfl
  | .list t => by simp [parseTypeNode, TypeNode.base, parseTypeNode_base kinds st t]
  | .nonNull t => by simp [parseTypeNode, TypeNode.base, parseTypeNode_base kinds st t]

/-- the `ParsingError` a variable of named type `n` raises, if any -/
def badOf (kinds : Name → Kind) (n : Name) : Option Err :=
  match kinds n with
  | .missing => some (.argNotFound n)
  | .other => some (.argIncorrect n)
  | _ => none

def firstBad (kinds : Name → Kind) (vars : List TypeNode) : Option Err :=
  vars.findSome? fun t => badOf kinds t.base

def usesInputs (kinds : Name → Kind) (vars : List TypeNode) : List Name :=
  (vars.map TypeNode.base).filter fun n => decide (kinds n = .input)

def usesEnums (kinds : Name → Kind) (vars : List TypeNode) : List Name :=
  (vars.map TypeNode.base).filter fun n => decide (kinds n = .enum)

def ArgSt.app (a b : ArgSt) : ArgSt := ⟨a.usedInputs ++ b.usedInputs, a.usedEnums ++ b.usedEnums⟩

theorem argumentsGenerate_eq (kinds : Name → Kind) :
    ∀ (vars : List TypeNode) (st : ArgSt),
      argumentsGenerate kinds st vars =
        match firstBad kinds vars with
        | some e => .error e
        | none => .ok (st.app ⟨usesInputs kinds vars, usesEnums kinds vars⟩) := by
  intro vars
  induction vars with
  | nil => intro st; simp [argumentsGenerate, firstBad, usesInputs, usesEnums, ArgSt.app]
  | cons t rest ih =>
    intro st
    simp only [argumentsGenerate, parseTypeNode_base, parseNamed]
    cases hk : kinds t.base <;>
      simp [hk, ih, firstBad, badOf, usesInputs, usesEnums, ArgSt.app, List.filter_cons] <;>
      (cases List.findSome? (fun t => badOf kinds t.base) rest <;> simp)

theorem varsUse_eq (kinds : Name → Kind) (vars : List TypeNode) :
    varsUse kinds vars =
      match firstBad kinds vars with
      | some e => .error e
      | none => .ok ⟨usesInputs kinds vars, usesEnums kinds vars⟩ := by
  unfold varsUse
  rw [argumentsGenerate_eq]
  cases firstBad kinds vars <;> simp [ArgSt.app]

/-- the shared generator only ever appends -/
theorem argumentsGenerate_app (kinds : Name → Kind) (vars : List TypeNode) (st : ArgSt) :
    argumentsGenerate kinds st vars =
      match varsUse kinds vars with
      | .error e => .error e
      | .ok a => .ok (st.app a) := by
  rw [argumentsGenerate_eq, varsUse_eq]
  cases firstBad kinds vars <;> simp

theorem firstBad_eq_none (kinds : Name → Kind) (vars : List TypeNode) :
    firstBad kinds vars = none ↔ ∀ t ∈ vars, badOf kinds t.base = none := by
  simp [firstBad]

theorem firstBad_eq_some (kinds : Name → Kind) (vars : List TypeNode) (e : Err) (h : firstBad kinds vars = some e) :
    ∃ t ∈ vars, badOf kinds t.base = some e := by
  unfold firstBad at h
  obtain ⟨t, ht, hb⟩ := List.exists_of_findSome?_eq_some h
  exact ⟨t, ht, hb⟩

theorem mem_usesInputs (kinds : Name → Kind) (vars : List TypeNode) (n : Name) :
    n ∈ usesInputs kinds vars ↔ ∃ t ∈ vars, t.base = n ∧ kinds n = .input := by
  simp only [usesInputs, List.mem_filter, List.mem_map, decide_eq_true_eq]
  constructor
  · rintro ⟨⟨t, ht, rfl⟩, hk⟩; exact ⟨t, ht, rfl, hk⟩
  · rintro ⟨t, ht, rfl, hk⟩; exact ⟨⟨t, ht, rfl⟩, hk⟩

theorem mem_usesEnums (kinds : Name → Kind) (vars : List TypeNode) (n : Name) :
    n ∈ usesEnums kinds vars ↔ ∃ t ∈ vars, t.base = n ∧ kinds n = .enum := by
  simp only [usesEnums, List.mem_filter, List.mem_map, decide_eq_true_eq]
  constructor
  · rintro ⟨⟨t, ht, rfl⟩, hk⟩; exact ⟨t, ht, rfl, hk⟩
  · rintro ⟨t, ht, rfl, hk⟩; exact ⟨⟨t, ht, rfl⟩, hk⟩

/-! ### `opsOf` -/

theorem opOf_eq (kinds : Name → Kind) (op : DocOp) :
    opOf kinds op =
      match firstBad kinds op.vars with
      | some e => .error e
      | none => .ok ⟨usesInputs kinds op.vars, usesEnums kinds op.vars, op.resultEnums⟩ := by
  unfold opOf
  rw [varsUse_eq]
  cases firstBad kinds op.vars <;> simp

theorem opsOf_ok (kinds : Name → Kind) :
    ∀ (ops : List DocOp) (os : List Op), opsOf kinds ops = .ok os →
      os = ops.map (fun op => ⟨usesInputs kinds op.vars, usesEnums kinds op.vars, op.resultEnums⟩) ∧
      ∀ op ∈ ops, firstBad kinds op.vars = none := by
  intro ops
  induction ops with
  | nil => intro os h; simp [opsOf] at h; subst h; simp
  | cons op rest ih =>
    intro os h
    simp only [opsOf, opOf_eq] at h
    cases hb : firstBad kinds op.vars with
    | some e => simp [hb] at h
    | none =>
      simp only [hb] at h
      cases hr : opsOf kinds rest with
      | error e => simp [hr] at h
      | ok os' =>
        simp only [hr, Except.ok.injEq] at h
        obtain ⟨e1, e2⟩ := ih os' hr
        subst h
        refine ⟨by simp [e1], ?_⟩
        intro o ho
        rcases List.mem_cons.mp ho with rfl | ho
        · exact hb
        · exact e2 o ho

theorem opsOf_of_good (kinds : Name → Kind) :
    ∀ (ops : List DocOp), (∀ op ∈ ops, firstBad kinds op.vars = none) →
      opsOf kinds ops = .ok (ops.map (fun op => ⟨usesInputs kinds op.vars, usesEnums kinds op.vars, op.resultEnums⟩)) := by
  intro ops
  induction ops with
  | nil => intro _; simp [opsOf]
  | cons op rest ih =>
    intro h
    have h1 := h op (by simp)
    have h2 := ih (fun o ho => h o (by simp [ho]))
    simp [opsOf, opOf_eq, h1, h2]

theorem opsOf_error (kinds : Name → Kind) :
    ∀ (ops : List DocOp) (e : Err), opsOf kinds ops = .error e → ∃ op ∈ ops, firstBad kinds op.vars = some e := by
  intro ops
  induction ops with
  | nil => intro e h; simp [opsOf] at h
  | cons op rest ih =>
    intro e h
    simp only [opsOf, opOf_eq] at h
    cases hb : firstBad kinds op.vars with
    | some e' =>
      simp only [hb, Except.error.injEq] at h
      subst h
      exact ⟨op, by simp, hb⟩
    | none =>
      simp only [hb] at h
      cases hr : opsOf kinds rest with
      | error e' =>
        simp only [hr, Except.error.injEq] at h
        subst h
        obtain ⟨o, ho, hbo⟩ := ih e' hr
        exact ⟨o, by simp [ho], hbo⟩
      | ok os' => simp [hr] at h

/-! ### The `add_operation` loop -/

theorem addOperations_eq (kinds : Name → Kind) :
    ∀ (ops : List DocOp) (st : DocSt),
      addOperationsWith false kinds st ops =
        match opsOf kinds ops with
        | .error e => .error e
        | .ok os =>
          .ok { usedEnums := st.usedEnums ++ os.flatMap (·.resultEnums),
                unpacked := st.unpacked ++ ops.flatMap (·.unpacked),
                arg := st.arg.app ⟨os.flatMap (·.varInputs), os.flatMap (·.varEnums)⟩ } := by
  intro ops
  induction ops with
  | nil => intro st; simp [addOperationsWith, opsOf, ArgSt.app]
  | cons op rest ih =>
    intro st
    simp only [addOperationsWith, addOperationWith, opsOf, opOf, argumentsGenerate_app]
    cases hv : varsUse kinds op.vars with
    | error e => simp [hv]
    | ok a =>
      simp only [hv, ih]
      cases hr : opsOf kinds rest with
      | error e => simp [hr]
      | ok os => simp [hr, ArgSt.app, List.append_assoc]

/-! ### `_generate_fragments` -/

theorem mem_remaining (frags : List FragDef) (unp : List Name) (f : FragDef) :
    f ∈ remaining frags unp ↔ f ∈ frags ∧ f.name ∉ unp := by
  simp [remaining, List.mem_filter]

theorem fragmentsEnumsWith_isSome (e : List FragDef → List FragDef) (frags : List FragDef) (unp : List Name) :
    (fragmentsEnumsWith e frags unp).isSome = true ↔ ∃ f ∈ frags, f.name ∉ unp := by
  unfold fragmentsEnumsWith
  cases hr : remaining frags unp with
  | nil =>
    simp only [List.isEmpty_nil, ↓reduceIte, Option.isSome_none, Bool.false_eq_true, false_iff]
    rintro ⟨f, hf, hn⟩
    have : f ∈ remaining frags unp := (mem_remaining frags unp f).mpr ⟨hf, hn⟩
    rw [hr] at this
    cases this
  | cons g gs =>
    simp only [List.isEmpty_cons, Bool.false_eq_true, ↓reduceIte, Option.isSome_some, true_iff]
    have : g ∈ remaining frags unp := by rw [hr]; simp
    obtain ⟨h1, h2⟩ := (mem_remaining frags unp g).mp this
    exact ⟨g, h1, h2⟩

theorem mem_fragmentsEnumsWith (e : List FragDef → List FragDef) (he : ∀ l, (e l).Perm l)
    (frags : List FragDef) (unp : List Name) (n : Name) :
    n ∈ (fragmentsEnumsWith e frags unp).getD [] ↔ ∃ f ∈ frags, f.name ∉ unp ∧ n ∈ f.enums := by
  unfold fragmentsEnumsWith
  cases hr : remaining frags unp with
  | nil =>
    simp only [List.isEmpty_nil, ↓reduceIte, Option.getD_none, List.not_mem_nil, false_iff]
    rintro ⟨f, hf, hn, _⟩
    have : f ∈ remaining frags unp := (mem_remaining frags unp f).mpr ⟨hf, hn⟩
    rw [hr] at this
    cases this
  | cons g gs =>
    simp only [List.isEmpty_cons, Bool.false_eq_true, ↓reduceIte, Option.getD_some, List.mem_flatMap]
    constructor
    · rintro ⟨f, hf, hn⟩
      have hf' : f ∈ remaining frags unp := by rw [hr]; exact (he _).mem_iff.mp hf
      obtain ⟨h1, h2⟩ := (mem_remaining frags unp f).mp hf'
      exact ⟨f, h1, h2, hn⟩
    · rintro ⟨f, hf, hu, hn⟩
      have hf' : f ∈ remaining frags unp := (mem_remaining frags unp f).mpr ⟨hf, hu⟩
      rw [hr] at hf'
      exact ⟨f, (he _).mem_iff.mpr hf', hn⟩

theorem not_mem_unpackedOf (x : DocInput) (n : Name) :
    n ∉ unpackedOf x ↔ ∀ op ∈ x.ops, n ∉ op.unpacked := by
  simp [unpackedOf, List.mem_flatMap]

/-! ### Refinement: `generateDoc` is `Prune.generate` of `toInput` -/

theorem step_congr (x y : Input) (h1 : x.inputs = y.inputs) (h2 : x.enums = y.enums) (h3 : x.fragEnums = y.fragEnums)
    (h4 : x.allInputs = y.allInputs) (h5 : x.allEnums = y.allEnums) : step x = step y := by
  funext st s
  cases s <;> simp [step, h1, h2, h3, h4, h5]

theorem runSteps_congr (x y : Input) (h1 : x.inputs = y.inputs) (h2 : x.enums = y.enums) (h3 : x.fragEnums = y.fragEnums)
    (h4 : x.allInputs = y.allInputs) (h5 : x.allEnums = y.allEnums) (steps : List Step) (st : St) :
    runSteps x steps st = runSteps y steps st := by
  unfold runSteps
  rw [step_congr x y h1 h2 h3 h4 h5]

theorem generateDocWith_eq (e : List FragDef → List FragDef) (x : DocInput) :
    generateDocWith false e x =
      match toInputWith e x with
      | .error err => .error err
      | .ok i =>
        match generate i with
        | none => .error .fuel
        | some out => .ok out := by
  unfold generateDocWith toInputWith
  rw [addOperations_eq]
  cases ho : opsOf (kindOf x) x.ops with
  | error err => simp
  | ok os =>
    simp only [Bool.false_eq_true, ↓reduceIte]
    unfold generate generateWith
    rw [initState_eq]
    rw [runSteps_congr (shell x (fragmentsEnumsWith e x.frags (([] : List Name) ++ List.flatMap (fun o => o.unpacked) x.ops)))
      { inputs := x.inputs, enums := x.enums, ops := os, fragEnums := fragmentsEnumsWith e x.frags (unpackedOf x),
        allInputs := x.allInputs, allEnums := x.allEnums, customOps := x.customOps,
        customInputs := x.customInputs, customEnums := x.customEnums }
      rfl rfl (by simp [shell, unpackedOf]) rfl rfl]
    simp [handOver, ArgSt.app, resultEnumsOf, varInputsOf, varEnumsOf]
    try rfl

theorem generateDoc_eq (x : DocInput) :
    generateDoc x =
      match toInput x with
      | .error err => .error err
      | .ok i =>
        match generate i with
        | none => .error .fuel
        | some out => .ok out :=
  generateDocWith_eq id x

/-- `generate` reads `fragEnums` for membership only. -/
theorem generate_frag_congr (i : Input) (fe : Option (List Name))
    (hm : ∀ n, n ∈ fe.getD [] ↔ n ∈ i.fragEnums.getD []) :
    generate { i with fragEnums := fe } = generate i := by
  rw [generate_eq, generate_eq]
  simp only [varInputsOf, varEnumsOf]
  cases hf : filterInputDefs i.inputs (if i.allInputs = true then none else some (List.flatMap (fun x => x.varInputs) i.ops)) with
  | none => simp
  | some cds =>
    simp only [Option.map_some, Option.some.injEq, Output.mk.injEq, true_and, and_true]
    cases ha : i.allEnums with
    | true => simp
    | false =>
      simp only [Bool.false_eq_true, ↓reduceIte, filterEnumDefs]
      apply List.filter_congr
      intro c _
      simp only [usedEnumsFinal, fragEnumsOf, resultEnumsOf, varEnumsOf, List.mem_append, hm]

theorem toInput_fields (x : DocInput) (i : Input) (h : toInput x = .ok i) :
    i.inputs = x.inputs ∧ i.enums = x.enums ∧ i.allInputs = x.allInputs ∧ i.allEnums = x.allEnums ∧
    i.customOps = x.customOps ∧ i.customInputs = x.customInputs ∧ i.customEnums = x.customEnums ∧
    i.fragEnums = fragmentsEnums x.frags (unpackedOf x) ∧
    i.ops = x.ops.map (fun op => ⟨usesInputs (kindOf x) op.vars, usesEnums (kindOf x) op.vars, op.resultEnums⟩) := by
  unfold toInput toInputWith at h
  cases ho : opsOf (kindOf x) x.ops with
  | error e => simp [ho] at h
  | ok os =>
    simp only [ho, Except.ok.injEq] at h
    subst h
    exact ⟨rfl, rfl, rfl, rfl, rfl, rfl, rfl, rfl, (opsOf_ok _ _ _ ho).1⟩

theorem kindOf_unprunedDoc (x : DocInput) : kindOf (unprunedDoc x) = kindOf x := rfl

theorem toInput_unprunedDoc (x : DocInput) :
    toInput (unprunedDoc x) =
      match toInput x with
      | .error e => .error e
      | .ok i => .ok { i with allInputs := true, allEnums := true } := by
  unfold toInput toInputWith
  simp only [kindOf_unprunedDoc]
  show (match opsOf (kindOf x) x.ops with | .error err => _ | .ok ops => _) = _
  cases opsOf (kindOf x) x.ops <;> simp [unprunedDoc, unpackedOf]

/-! ### `kindOf` -/

theorem mem_of_lookup {l : List (Name × Kind)} {n : Name} {k : Kind} (h : l.lookup n = some k) : (n, k) ∈ l := by
  induction l with
  | nil => simp [List.lookup] at h
  | cons p l ih =>
    obtain ⟨a, b⟩ := p
    simp only [List.lookup] at h
    split at h
    · next heq =>
      have e1 : n = a := by simpa using heq
      simp only [Option.some.injEq] at h
      subst e1 h
      simp
    · exact List.mem_cons_of_mem _ (ih h)

theorem mem_kinds_of_kindOf (x : DocInput) (n : Name) (k : Kind) (hk : k ≠ .missing) (h : kindOf x n = k) :
    (n, k) ∈ x.kinds := by
  unfold kindOf at h
  cases hl : x.kinds.lookup n with
  | none => simp [hl] at h; exact absurd h.symm hk
  | some k' =>
    simp only [hl, Option.getD_some] at h
    subst h
    exact mem_of_lookup hl

instance : DecidableEq (Except Err Output) := fun a b =>
  match a, b with
  | .ok x, .ok y => if h : x = y then isTrue (by rw [h]) else isFalse (by intro h'; cases h'; exact h rfl)
  | .error x, .error y => if h : x = y then isTrue (by rw [h]) else isFalse (by intro h'; cases h'; exact h rfl)
  | .ok _, .error _ => isFalse (by intro h; cases h)
  | .error _, .ok _ => isFalse (by intro h; cases h)

end Ariadne.PruneDoc
