/-
  Proofs/OrderResult.lean — lemmas behind section 8/9 of Properties/C10.lean: the set-fed emission points
  inside a result module (class bases, `Literal[...]` of `__typename`, fragments of the operation string)
  and the order of plugin classes / plugin hooks.  Core Lean only.
-/
import AriadneModel.Model.OrderResult
import AriadneModel.Proofs.OrderEmit

set_option linter.unusedSimpArgs false
set_option linter.unusedVariables false

namespace Ariadne.Order
open List Ariadne.Isort

/-! ### class bases -/

theorem isEmpty_eq_of_perm {α : Type} {l₁ l₂ : List α} (p : l₁.Perm l₂) : l₁.isEmpty = l₂.isEmpty := by
  cases l₁ <;> cases l₂ <;> simp_all

theorem classBases_eq_of_perm (e₁ e₂ : EnumOracle) (he₁ : EnumOK e₁) (he₂ : EnumOK e₂) (pascal : Name → Name)
    (baseModel : Name) {f₁ f₂ : List Name} (p : f₁.Perm f₂) (extra : List Name) :
    classBases e₁ pascal baseModel f₁ extra = classBases e₂ pascal baseModel f₂ extra := by
  unfold classBases
  rw [isEmpty_eq_of_perm p, pySorted_eq_of_perm (((he₁ f₁).trans p).trans (he₂ f₂).symm)]

/-- the bases that come from fragments are exactly the (converted) members of the set, each once per listing entry -/
theorem classBases_perm (e : EnumOracle) (he : EnumOK e) (pascal : Name → Name) (baseModel : Name)
    (f extra : List Name) (hne : f ≠ []) :
    (classBases e pascal baseModel f extra).Perm (f.map pascal ++ extra) := by
  unfold classBases
  have : f.isEmpty = false := by cases f <;> simp_all
  simp only [this]
  exact Perm.append_right _ (((sortBy_perm _ _).trans (he f)).map pascal)

/-! ### `__typename` literals -/

theorem typesWithoutClass_perm (e₁ e₂ : EnumOracle) (he₁ : EnumOK e₁) (he₂ : EnumOK e₂) (possible typesNames : List Name) :
    (typesWithoutClass e₁ possible typesNames).Perm (typesWithoutClass e₂ possible typesNames) :=
  (he₁ _).trans (he₂ _).symm

theorem typenameLiterals_eq (e₁ e₂ : EnumOracle) (he₁ : EnumOK e₁) (he₂ : EnumOK e₂) (typesNames : List Name)
    (abstract : Option Name) (possible : List Name) :
    typenameLiterals e₁ typesNames abstract possible = typenameLiterals e₂ typesNames abstract possible := by
  unfold typenameLiterals typenameValues
  simp only [List.map_map]
  apply List.map_congr_left
  intro n _
  simp only [Function.comp]
  congr 1
  split
  · exact pySorted_eq_of_perm (Perm.cons n (typesWithoutClass_perm e₁ e₂ he₁ he₂ possible typesNames))
  · rfl

/-- a type without class is a possible type that has no class, and every such type is listed exactly once -/
theorem mem_typesWithoutClass (e : EnumOracle) (he : EnumOK e) (possible typesNames : List Name) (a : Name) :
    a ∈ typesWithoutClass e possible typesNames ↔ a ∈ possible ∧ a ∉ typesNames := by
  unfold typesWithoutClass
  rw [(he _).mem_iff]
  simp [mem_dedupFirst]

theorem nodup_typesWithoutClass (e : EnumOracle) (he : EnumOK e) (possible typesNames : List Name) :
    (typesWithoutClass e possible typesNames).Nodup :=
  (he _).nodup_iff.mpr ((nodup_dedupFirst possible).filter _)

/-! ### fragments of the operation string -/

def closureD (closure : Name → Option (List Name)) (f : Name) : List Name := (closure f).getD []

theorem mapM_closure (closure : Name → Option (List Name)) : ∀ (l : List Name), (∀ f, f ∈ l → (closure f).isSome) →
    l.mapM (closureOf closure) = .ok (l.map (closureD closure)) := by
  intro l
  induction l with
  | nil => intro _; rfl
  | cons x xs ih =>
    intro h
    have hx := h x List.mem_cons_self
    have ih' := ih (fun f hf => h f (List.mem_cons_of_mem _ hf))
    simp only [List.mapM_cons, ih']
    cases hc : closure x with
    | none => rw [hc] at hx; cases hx
    | some ns => simp [closureOf, closureD, hc, bind, Except.bind, pure, Except.pure]

theorem relatedFragments_ok (e : EnumOracle) (he : EnumOK e) (mixins unpacked : List Name) (closure : Name → Option (List Name))
    (hdef : ∀ f, f ∈ mixins → (closure f).isSome) :
    relatedFragments e mixins unpacked closure
      = .ok (e (dedupFirst (mixins ++ ((e mixins).map (closureD closure)).flatten ++ unpacked))) := by
  unfold relatedFragments
  rw [mapM_closure closure (e mixins) (fun f hf => hdef f ((he mixins).mem_iff.mp hf))]
  rfl

theorem mem_related (e : EnumOracle) (he : EnumOK e) (mixins unpacked : List Name) (closure : Name → Option (List Name)) (a : Name) :
    a ∈ mixins ++ ((e mixins).map (closureD closure)).flatten ++ unpacked
      ↔ a ∈ mixins ∨ (∃ f, f ∈ mixins ∧ a ∈ closureD closure f) ∨ a ∈ unpacked := by
  simp only [List.mem_append, List.mem_flatten, List.mem_map]
  constructor
  · rintro ((h | ⟨l, ⟨f, hf, rfl⟩, ha⟩) | h)
    · exact Or.inl h
    · exact Or.inr (Or.inl ⟨f, (he mixins).mem_iff.mp hf, ha⟩)
    · exact Or.inr (Or.inr h)
  · rintro (h | ⟨f, hf, ha⟩ | h)
    · exact Or.inl (Or.inl h)
    · exact Or.inl (Or.inr ⟨_, ⟨f, (he mixins).mem_iff.mpr hf, rfl⟩, ha⟩)
    · exact Or.inr h

theorem operationFragments_eq (e₁ e₂ : EnumOracle) (he₁ : EnumOK e₁) (he₂ : EnumOK e₂) (mixins unpacked : List Name)
    (closure : Name → Option (List Name)) (hdef : ∀ f, f ∈ mixins → (closure f).isSome) :
    operationFragments e₁ mixins unpacked closure = operationFragments e₂ mixins unpacked closure := by
  unfold operationFragments
  split
  · rfl
  · rw [relatedFragments_ok e₁ he₁ _ _ _ hdef, relatedFragments_ok e₂ he₂ _ _ _ hdef]
    simp only [Except.map]
    congr 1
    apply pySorted_eq_of_perm
    refine ((he₁ _).trans ?_).trans (he₂ _).symm
    apply dedupFirst_perm_of_mem
    intro a
    rw [mem_related e₁ he₁, mem_related e₂ he₂]

theorem operationFragments_ok (e : EnumOracle) (he : EnumOK e) (mixins unpacked : List Name)
    (closure : Name → Option (List Name)) (hdef : ∀ f, f ∈ mixins → (closure f).isSome) :
    ∃ out, operationFragments e mixins unpacked closure = .ok out := by
  unfold operationFragments
  split
  · exact ⟨[], rfl⟩
  · rw [relatedFragments_ok e he _ _ _ hdef]
    exact ⟨_, rfl⟩

/-! ### plugin classes of a module: `inspect.getmembers` sorts by attribute name -/

def AttrsDistinct (ms : List (Name × Cls)) : Prop := ∀ a b, a ∈ ms → b ∈ ms → a.1 = b.1 → a = b

theorem memberLe_preorder : TotalPreorder memberLe :=
  strLe_order.toTotalPreorder.comap (fun p : Name × Cls => p.1)

theorem pluginsFromModule_eq_of_perm {ns₁ ns₂ : List (Name × Cls) → List (Name × Cls)} (ms : List (Name × Cls))
    (h₁ : (ns₁ ms).Perm ms) (h₂ : (ns₂ ms).Perm ms) (hd : AttrsDistinct ms) :
    pluginsFromModule ns₁ ms = pluginsFromModule ns₂ ms := by
  unfold pluginsFromModule
  congr 1
  apply sortBy_eq_of_perm memberLe_preorder _ (h₁.trans h₂.symm)
  intro a b ha hb hab hba
  exact hd a b (h₁.mem_iff.mp ha) (h₁.mem_iff.mp hb) (strLe_order.antisymm _ _ hab hba)

theorem getPluginsTypes_eq_of_perm {ns₁ ns₂ : List (Name × Cls) → List (Name × Cls)} (resolve : String → PluginTarget)
    (h₁ : ∀ ms, (ns₁ ms).Perm ms) (h₂ : ∀ ms, (ns₂ ms).Perm ms)
    (hd : ∀ s ms, resolve s = .module ms → AttrsDistinct ms) :
    ∀ strs, getPluginsTypes ns₁ resolve strs = getPluginsTypes ns₂ resolve strs := by
  intro strs
  induction strs with
  | nil => rfl
  | cons s rest ih =>
    unfold getPluginsTypes
    cases hr : resolve s with
    | refused msg => rfl
    | cls c => simp only [ih]
    | module ms => simp only [ih, pluginsFromModule_eq_of_perm ms (h₁ ms) (h₂ ms) (hd s ms hr)]

theorem getPluginsTypes_append (ns : List (Name × Cls) → List (Name × Cls)) (resolve : String → PluginTarget) (a b : List String) :
    getPluginsTypes ns resolve (a ++ b)
      = match getPluginsTypes ns resolve a with
        | .error m => .error m
        | .ok x => (getPluginsTypes ns resolve b).map (x ++ ·) := by
  induction a with
  | nil =>
    simp only [List.nil_append, getPluginsTypes]
    cases getPluginsTypes ns resolve b <;> simp [Except.map]
  | cons s rest ih =>
    simp only [List.cons_append, getPluginsTypes]
    cases hr : resolve s with
    | refused msg => rfl
    | cls c =>
      simp only [ih]
      cases getPluginsTypes ns resolve rest with
      | error m => rfl
      | ok x => cases getPluginsTypes ns resolve b <;> simp [Except.map]
    | module ms =>
      simp only [ih]
      cases getPluginsTypes ns resolve rest with
      | error m => rfl
      | ok x => cases getPluginsTypes ns resolve b <;> simp [Except.map, List.append_assoc]

theorem applyHooks_append {α : Type} (hookOf : Cls → α → α) (p q : List Cls) (x : α) :
    applyHooks hookOf (p ++ q) x = applyHooks hookOf q (applyHooks hookOf p x) := by
  simp [applyHooks, List.foldl_append]

end Ariadne.Order
